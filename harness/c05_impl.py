"""C05: drives real Tubs / Negotiation / Broker over the in-memory network with honest and
dishonest peers; records, per endpoint, under which TubRef a connection was registered and
what certificate that connection's transport carries."""
import base64, hashlib, re
from harness import implenv as E
from harness.implenv import Net, make_tub, quiet, pems_sorted, Referenceable
import foolscap.negotiate as neg
from foolscap.api import Tub


class T(Referenceable):
    def remote_hi(self):
        return 42

    def remote_give(self):
        return self.gift


def independent_tubid(cert):
    """tub id of a certificate computed WITHOUT foolscap: base32(sha1(DER)), lower case, no padding"""
    if cert is None:
        return None
    der = cert.dump()
    return base64.b32encode(hashlib.sha1(der).digest()).decode("ascii").lower().rstrip("=")


def arrangement(a_pos):
    """three certificates; A is above both others ('hi') or below both ('lo'); C lies between A and B,
    so that whenever both ends accept exactly one of them is the decider."""
    ps = pems_sorted(3)
    if a_pos == "hi":
        a, c, b = ps[2], ps[1], ps[0]
    elif a_pos == "lo":
        a, c, b = ps[0], ps[1], ps[2]
    elif a_pos == "hi2":      # A > B > C: a client that proves C's identity makes both ends deciders
        a, b, c = ps[2], ps[1], ps[0]
    elif a_pos == "lo2":      # A < B < C: ... and here neither end decides
        a, b, c = ps[0], ps[1], ps[2]
    else:
        raise ValueError(a_pos)
    return dict(A=a, B=b, C=c)


GARBAGE = "not a tub-id!"


def claim_value(kind, ids, right):
    """the text that replaces the value of my-tub-id (None = line removed)"""
    if kind == "absent":
        return None
    if kind in ("A", "B", "C"):
        return ids[kind]
    if kind == "empty":
        return ""
    if kind == "garbage":
        return GARBAGE
    if kind == "upper":
        return right.upper()
    if kind == "prefix":
        return right[:31]
    if kind == "ext":
        return right + "a"
    if kind == "long":
        return "a" * 300
    raise ValueError(kind)


def rewrite_claim(d, kind, ids, right, hit):
    if kind is None or b"my-tub-id: " not in d:
        return d
    v = claim_value(kind, ids, right)
    hit.append(1)
    if v is None:
        return re.sub(rb"my-tub-id: [^\r\n]*\r\n", b"", d)
    return re.sub(rb"my-tub-id: [^\r\n]*\r\n", b"my-tub-id: " + v.encode() + b"\r\n", d)


def get_value(kind, ids):
    if kind in ("A", "B", "C"):
        return ids[kind]
    if kind == "empty":
        return ""
    if kind == "garbage":
        return "zzzz"
    if kind == "upper":
        return ids["B"].upper()
    raise ValueError(kind)


def rewrite_get(d, kind, ids, hit):
    if kind is None or not d.startswith(b"GET /id/"):
        return d
    hit.append(1)
    return re.sub(rb"^GET /id/\S*", b"GET /id/" + get_value(kind, ids).encode(), d)


class Trial:
    """one connection attempt A -> (the Tub listening at location 'b'), everything in flight under our control.

    cfg keys: a_pos ('hi'|'lo'); dial ('B'|'C': tub id named by the FURL that A dials; the hint always leads to
    Tub B's listener); get (None | kind: rewrite the id in the GET line as seen by the server);
    srv_cert / cli_cert ('none'|'A'|'B'|'C': certificate the TLS layer reports to the client / to the server);
    srv_claim / cli_claim (None = untouched | kind: rewrite my-tub-id in the server's / client's hello)."""

    def __init__(self, cfg, extra_mangle=None):
        self.cfg = cfg
        E.reset_clock()
        self.net = net = Net()
        arr = arrangement(cfg["a_pos"])
        self.ids = ids = {k: v[0] for k, v in arr.items()}
        self.neglog = neglog = []

        class RecNeg(neg.Negotiation):
            def negotiationFailed(self):
                r = self.failureReason
                neglog.append(("client" if self.isClient else "server", r.type.__name__ if r is not None else None))
                return neg.Negotiation.negotiationFailed(self)
        self.A = make_tub(net, "a", arr["A"][1], RecNeg)
        self.B = make_tub(net, "b", arr["B"][1], RecNeg)
        self.C = make_tub(net, "c", arr["C"][1], RecNeg)
        self.tubs = dict(A=self.A, B=self.B, C=self.C)
        certs = dict(A=self.A.myCertificate, B=self.B.myCertificate, C=self.C.myCertificate, none=None)
        self.certs = certs
        if cfg.get("srv_cert", "B") != "B":
            self.B.presented_cert = certs[cfg["srv_cert"]]
        if cfg.get("cli_cert", "A") != "A":
            self.A.presented_cert = certs[cfg["cli_cert"]]
        self.attached = []      # every brokerAttached call: (tub, key, isClient, independent id of the transport's certificate)
        self.bad = []           # oracle violations observed while running
        for name, t in self.tubs.items():
            self.watch(name, t)
        self.hits = []

        def mangle(link, side, d):
            if extra_mangle:
                d = extra_mangle(link, side, d)
            if link.name != "L0":
                return d
            if side == 0:
                d = rewrite_get(d, cfg.get("get"), ids, self.hits)
                d = rewrite_claim(d, cfg.get("cli_claim"), ids, ids["A"], self.hits)
            else:
                d = rewrite_claim(d, cfg.get("srv_claim"), ids, ids["B"], self.hits)
            return d
        net.mangle = mangle

    def watch(self, name, t):
        orig = t.brokerAttached

        def brokerAttached(tubref, broker, isClient):
            tr = broker.transport
            cert_id = independent_tubid(tr.peer_cert) if isinstance(tr, E.End) else "loopback"
            self.attached.append((name, tubref.getTubID(), bool(isClient), cert_id))
            return orig(tubref, broker, isClient)
        t.brokerAttached = brokerAttached

    def poll(self):
        """the property, evaluated on the live tables: every entry of Tub.brokers is justified by the certificate
        of the transport it runs over"""
        for name, t in self.tubs.items():
            for tubref, b in list(t.brokers.items()):
                tr = b.transport
                if not isinstance(tr, E.End):
                    if tubref.getTubID() != t.tubID:
                        self.bad.append(("loopback-under-foreign-id", name, tubref.getTubID(), None))
                    continue
                cid = independent_tubid(tr.peer_cert)
                if cid != tubref.getTubID():
                    self.bad.append(("table-entry-unproven", name, tubref.getTubID(), cid))
                if b.remote_tubref is None or b.remote_tubref.getTubID() != tubref.getTubID():
                    self.bad.append(("broker-tubref-differs-from-key", name, tubref.getTubID(),
                                     b.remote_tubref and b.remote_tubref.getTubID()))

    def run_net(self):
        net = self.net
        n = 0
        while True:
            c = net.deliverable()
            if not c:
                return
            net.step(c[0])
            self.poll()
            n += 1
            if n > 20000:
                raise RuntimeError("no quiescence")

    def settle(self, res):
        E.turn()
        self.poll()
        self.run_net()
        for i in range(3):
            if res:
                break
            E.clock.advance(130)
            E.turn()
            self.run_net()

    def go(self):
        cfg, ids = self.cfg, self.ids
        self.B.registerReference(T(), name="svc")
        furl = "pb://%s@fake:b:1/svc" % ids[cfg.get("dial", "B")]
        res = []
        holder = []

        def got(rr):
            holder.append(rr)
            return rr.callRemote("hi")
        self.A.getReference(furl).addCallback(got).addBoth(res.append)
        self.settle(res)
        self.result = [x.type.__name__ if hasattr(x, "type") else x for x in res]
        self.rref = holder
        self.final = {name: sorted(tr.getTubID() for tr, b in t.brokers.items() if not b.disconnected)
                      for name, t in self.tubs.items()}
        self.final_conn_cert = {}
        for name, t in self.tubs.items():
            for tr, b in t.brokers.items():
                if isinstance(b.transport, E.End):
                    self.final_conn_cert[(name, tr.getTubID())] = independent_tubid(b.transport.peer_cert)
        return self

    def close(self):
        for t in self.tubs.values():
            t.stopService()
        E.turn()

    def observation(self):
        """canonical per-end observation compared with the model: [ever-attached keys], [final keys], failure class"""
        ever = lambda n: sorted(set(k for (tn, k, ic, cid) in self.attached if tn == n))
        fails = lambda role: [w for (r, w) in self.neglog if r == role]
        return dict(A_ever=ever("A"), B_ever=ever("B"), C_ever=ever("C"),
                    A_final=self.final["A"], B_final=self.final["B"], C_final=self.final["C"],
                    client_fail=fails("client"), server_fail=fails("server"), result=self.result)


def judge(ctx, tag, cfg, t):
    """the direct oracle (independent of the Coq model)"""
    ids = t.ids
    dial = ids[cfg.get("dial", "B")]
    problems = list(t.bad)
    for (name, key, is_client, cid) in t.attached:
        if cid == "loopback":
            if key != t.tubs[name].tubID:
                problems.append(("loopback-under-foreign-id", name, key, None))
            continue
        if cid != key:
            problems.append(("attached-unproven", name, key, cid))
        if is_client and key != dial:
            problems.append(("client-attached-other-than-dialled", name, key, dial))
    if t.result == [42]:
        # the reference named Tub `dial`: it must have been obtained over a connection whose certificate hashes to it
        ok = any(n == "A" and key == dial and cid == dial for (n, key, ic, cid) in t.attached)
        if not ok:
            problems.append(("getReference-succeeded-without-proof", "A", dial, None))
    if len(t.result) != 1:
        problems.append(("getReference-fired-%d-times" % len(t.result), "A", dial, None))
    honest = honest_cell(cfg)
    if honest and t.result != [42]:
        problems.append(("honest-pair-did-not-connect", "A", dial, repr(t.result)))
    if not honest and not legit_cell(cfg) and (t.final["A"] or t.final["B"] or t.final["C"]):
        problems.append(("dishonest-cell-left-a-connection", "-", repr(t.final), None))
    for p in problems[:3]:
        ctx.fail("oracle/%s" % p[0], "%s: on Tub %s key=%s, transport certificate hashes to / expected %s; cell %r"
                 % (p[0], p[1], p[2], p[3], cfg), replay=dict(cell=cfg, ids=ids, attached=t.attached, final=t.final,
                                                               result=t.result, neglog=t.neglog))
    return not problems


def honest_cell(cfg):
    return (cfg.get("dial", "B") == "B" and cfg.get("get") in (None, "B") and cfg.get("srv_cert", "B") == "B"
            and cfg.get("cli_cert", "A") == "A" and cfg.get("srv_claim") in (None, "B") and cfg.get("cli_claim") in (None, "A"))


def legit_cell(cfg):
    """cells in which each side's claim is backed by the certificate it presents (the harness hands a Tub another
    Tub's certificate: TLS would only allow that to the owner of the key) and the client reaches the id it dialled:
    a connection is the correct outcome there."""
    srv_c, cli_c = cfg.get("srv_cert", "B"), cfg.get("cli_cert", "A")
    srv_cl = cfg.get("srv_claim") or "B"
    cli_cl = cfg.get("cli_claim") or "A"
    get = cfg.get("get") or cfg.get("dial", "B")
    return srv_c == srv_cl and cli_c == cli_cl and srv_cl == cfg.get("dial", "B") and get == "B"


def run_cell(cfg, extra_mangle=None):
    t = Trial(cfg, extra_mangle)
    try:
        t.go()
    finally:
        t.close()
    return t
