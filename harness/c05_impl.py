"""C05: drives real Tubs / Negotiation / Broker over the in-memory network with honest and
dishonest peers; records, per endpoint, under which TubRef a connection was registered and
what certificate that connection's transport carries."""
import base64, hashlib, re
from harness import implenv as E
from harness.implenv import Net, make_tub, quiet, pems_sorted, Referenceable
import foolscap.negotiate as neg
from foolscap.api import Tub


# ------------------------------------------------------------------------------------------ the TLS layer
# harness.implenv replaces crypto.peerFromTransport wholesale.  C05 is about which certificate the code takes as the
# peer's identity, so here the tree's OWN crypto.peerFromTransport runs (re-read from crypto.py, because implenv has
# overwritten the module attribute) and the fake is one level lower: End.getHandle() returns an object with the
# pyOpenSSL Connection methods a peer's presentation is visible through.  What a peer can present: the LEAF
# certificate (End.peer_cert: the one whose key the handshake proves -- trusted) plus arbitrary further certificates
# it merely sends along (End.peer_extra / Tub.presented_extra: other Tubs' public certificates).
import importlib.util
import foolscap.crypto as _fcrypto


def _pristine_crypto():
    spec = importlib.util.spec_from_file_location("foolscap._c05_crypto_as_on_disk", _fcrypto.__file__)
    m = importlib.util.module_from_spec(spec)
    spec.loader.exec_module(m)
    return m


_PRISTINE = _pristine_crypto()


class FakeHandle:
    """the part of OpenSSL.SSL.Connection through which the peer's certificates can be read"""

    def __init__(self, end):
        self.end = end

    def _peer_tub(self):
        l = self.end.link
        return getattr(l, "server_tub", None) if self.end.side == 0 else getattr(l, "client_tub", None)

    def _extras(self):
        ex = getattr(self.end, "peer_extra", None)
        if ex is None:
            ex = getattr(self._peer_tub(), "presented_extra", [])
        return [c.original for c in ex]

    def get_peer_certificate(self):
        leaf = self.end.peer_cert
        return None if leaf is None else leaf.original

    def get_peer_cert_chain(self):
        # OpenSSL: what the peer SENT, unverified; on the accepting side the leaf is not part of it
        leaf = self.end.peer_cert
        chain = ([leaf.original] if (leaf is not None and self.end.side == 0) else []) + self._extras()
        return chain or None

    def get_verified_chain(self):
        # self-signed leaf accepted by alwaysValidate: the verified chain is the leaf alone
        leaf = self.end.peer_cert
        return None if leaf is None else [leaf.original]

    def get_certificate(self):
        own = getattr(self.end, "own_cert", None)
        return None if own is None else own.original


def _getHandle(self):
    return FakeHandle(self)


E.End.getHandle = _getHandle


def use_real_certificate_path():
    """(re)install the tree's own crypto.peerFromTransport; implenv.install_clock() puts its stub back on every reset"""
    neg.crypto.peerFromTransport = _PRISTINE.peerFromTransport


def reset():
    E.reset_clock()
    use_real_certificate_path()


class T(Referenceable):
    def remote_hi(self):
        return 42

    def remote_give(self):
        return self.gift

    who = None

    def remote_whoami(self):
        return self.who


def independent_tubid(cert):
    """tub id of a certificate computed WITHOUT foolscap: base32(sha1(DER)), lower case, no padding"""
    if cert is None:
        return None
    der = cert.dump()
    return base64.b32encode(hashlib.sha1(der).digest()).decode("ascii").lower().rstrip("=")


def arrangement(a_pos):
    """three certificates; A is above both others ('hi') or below both ('lo'); C lies between A and B,
    so that whenever both ends accept exactly one of them is the decider."""
    ps = pems_sorted(3)
    if a_pos == "hi":
        a, c, b = ps[2], ps[1], ps[0]
    elif a_pos == "lo":
        a, c, b = ps[0], ps[1], ps[2]
    elif a_pos == "hi2":      # A > B > C: a client that proves C's identity makes both ends deciders
        a, b, c = ps[2], ps[1], ps[0]
    elif a_pos == "lo2":      # A < B < C: ... and here neither end decides
        a, b, c = ps[0], ps[1], ps[2]
    else:
        raise ValueError(a_pos)
    return dict(A=a, B=b, C=c)


GARBAGE = "not a tub-id!"


def claim_value(kind, ids, right):
    """the text that replaces the value of my-tub-id (None = line removed)"""
    if kind == "absent":
        return None
    if kind in ("A", "B", "C"):
        return ids[kind]
    if kind == "empty":
        return ""
    if kind == "garbage":
        return GARBAGE
    if kind == "upper":
        return right.upper()
    if kind == "prefix":
        return right[:31]
    if kind == "ext":
        return right + "a"
    if kind == "long":
        return "a" * 300
    raise ValueError(kind)


def rewrite_claim(d, kind, ids, right, hit):
    if kind is None or b"my-tub-id: " not in d:
        return d
    v = claim_value(kind, ids, right)
    hit.append(1)
    if v is None:
        return re.sub(rb"my-tub-id: [^\r\n]*\r\n", b"", d)
    return re.sub(rb"my-tub-id: [^\r\n]*\r\n", b"my-tub-id: " + v.encode() + b"\r\n", d)


def get_value(kind, ids):
    if kind in ("A", "B", "C"):
        return ids[kind]
    if kind == "empty":
        return ""
    if kind == "garbage":
        return "zzzz"
    if kind == "upper":
        return ids["B"].upper()
    raise ValueError(kind)


def rewrite_get(d, kind, ids, hit):
    if kind is None or not d.startswith(b"GET /id/"):
        return d
    hit.append(1)
    return re.sub(rb"^GET /id/\S*", b"GET /id/" + get_value(kind, ids).encode(), d)


class Trial:
    """one connection attempt A -> (the Tub listening at location 'b'), everything in flight under our control.

    cfg keys: a_pos ('hi'|'lo'); dial ('B'|'C': tub id named by the FURL that A dials; the hint always leads to
    Tub B's listener); get (None | kind: rewrite the id in the GET line as seen by the server);
    srv_cert / cli_cert ('none'|'A'|'B'|'C': certificate the TLS layer reports to the client / to the server);
    srv_claim / cli_claim (None = untouched | kind: rewrite my-tub-id in the server's / client's hello)."""

    def __init__(self, cfg, extra_mangle=None):
        self.cfg = cfg
        reset()
        self.net = net = Net()
        arr = arrangement(cfg["a_pos"])
        self.ids = ids = {k: v[0] for k, v in arr.items()}
        self.neglog = neglog = []

        class RecNeg(neg.Negotiation):
            def negotiationFailed(self):
                r = self.failureReason
                neglog.append(("client" if self.isClient else "server", r.type.__name__ if r is not None else None))
                return neg.Negotiation.negotiationFailed(self)
        self.A = make_tub(net, "a", arr["A"][1], RecNeg)
        self.B = make_tub(net, "b", arr["B"][1], RecNeg)
        self.C = make_tub(net, "c", arr["C"][1], RecNeg)
        self.tubs = dict(A=self.A, B=self.B, C=self.C)
        certs = dict(A=self.A.myCertificate, B=self.B.myCertificate, C=self.C.myCertificate, none=None)
        self.certs = certs
        if cfg.get("srv_cert", "B") != "B":
            self.B.presented_cert = certs[cfg["srv_cert"]]
        if cfg.get("cli_cert", "A") != "A":
            self.A.presented_cert = certs[cfg["cli_cert"]]
        if cfg.get("srv_extra"):
            self.B.presented_extra = [certs[x] for x in cfg["srv_extra"]]
        if cfg.get("cli_extra"):
            self.A.presented_extra = [certs[x] for x in cfg["cli_extra"]]
        self.attached = []      # every brokerAttached call: (tub, key, isClient, independent id of the transport's certificate)
        self.bad = []           # oracle violations observed while running
        for name, t in self.tubs.items():
            self.watch(name, t)
        self.hits = []

        def mangle(link, side, d):
            if extra_mangle:
                d = extra_mangle(link, side, d)
            if link.name != "L0":
                return d
            if side == 0:
                d = rewrite_get(d, cfg.get("get"), ids, self.hits)
                d = rewrite_claim(d, cfg.get("cli_claim"), ids, ids["A"], self.hits)
            else:
                d = rewrite_claim(d, cfg.get("srv_claim"), ids, ids["B"], self.hits)
            return d
        net.mangle = mangle

    def watch(self, name, t):
        orig = t.brokerAttached

        def brokerAttached(tubref, broker, isClient):
            tr = broker.transport
            cert_id = independent_tubid(tr.peer_cert) if isinstance(tr, E.End) else "loopback"
            self.attached.append((name, tubref.getTubID(), bool(isClient), cert_id))
            return orig(tubref, broker, isClient)
        t.brokerAttached = brokerAttached

    def poll(self):
        """the property, evaluated on the live tables: every entry of Tub.brokers is justified by the certificate
        of the transport it runs over"""
        for name, t in self.tubs.items():
            for tubref, b in list(t.brokers.items()):
                tr = b.transport
                if not isinstance(tr, E.End):
                    if tubref.getTubID() != t.tubID:
                        self.bad.append(("loopback-under-foreign-id", name, tubref.getTubID(), None))
                    continue
                cid = independent_tubid(tr.peer_cert)
                if cid is None or cid != tubref.getTubID():
                    self.bad.append(("table-entry-unproven", name, tubref.getTubID(), cid))
                if b.remote_tubref is None or b.remote_tubref.getTubID() != tubref.getTubID():
                    self.bad.append(("broker-tubref-differs-from-key", name, tubref.getTubID(),
                                     b.remote_tubref and b.remote_tubref.getTubID()))

    keep_sending = False

    def run_net(self):
        net = self.net
        if self.keep_sending:
            pump_keep_sending(net, after_each=self.poll)
            return
        n = 0
        while True:
            c = net.deliverable()
            if not c:
                return
            net.step(c[0])
            self.poll()
            n += 1
            if n > 20000:
                raise RuntimeError("no quiescence")

    def settle(self, res):
        E.turn()
        self.poll()
        self.run_net()
        for i in range(3):
            if res:
                break
            E.clock.advance(130)
            E.turn()
            self.run_net()

    def go(self):
        cfg, ids = self.cfg, self.ids
        self.B.registerReference(T(), name="svc")
        furl = self.furl = "pb://%s@fake:b:1/svc" % ids[cfg.get("dial", "B")]
        res = []
        holder = []

        def got(rr):
            holder.append(rr)
            return rr.callRemote("hi")
        self.A.getReference(furl).addCallback(got).addBoth(res.append)
        self.settle(res)
        self.result = [x.type.__name__ if hasattr(x, "type") else x for x in res]
        self.rref = holder
        self.final = {name: sorted(tr.getTubID() for tr, b in t.brokers.items() if not b.disconnected)
                      for name, t in self.tubs.items()}
        self.final_conn_cert = {}
        for name, t in self.tubs.items():
            for tr, b in t.brokers.items():
                if isinstance(b.transport, E.End):
                    self.final_conn_cert[(name, tr.getTubID())] = independent_tubid(b.transport.peer_cert)
        return self

    def close(self):
        for t in self.tubs.values():
            t.stopService()
        E.turn()

    def observation(self):
        """canonical per-end observation compared with the model: [ever-attached keys], [final keys], failure class"""
        ever = lambda n: sorted(set(k for (tn, k, ic, cid) in self.attached if tn == n))
        fails = lambda role: [w for (r, w) in self.neglog if r == role]
        return dict(A_ever=ever("A"), B_ever=ever("B"), C_ever=ever("C"),
                    A_final=self.final["A"], B_final=self.final["B"], C_final=self.final["C"],
                    client_fail=fails("client"), server_fail=fails("server"), result=self.result)


def judge(ctx, tag, cfg, t):
    """the direct oracle (independent of the Coq model)"""
    ids = t.ids
    dial = ids[cfg.get("dial", "B")]
    problems = list(t.bad)
    for (name, key, is_client, cid) in t.attached:
        if cid == "loopback":
            if key != t.tubs[name].tubID:
                problems.append(("loopback-under-foreign-id", name, key, None))
            continue
        if cid is None or key is None or cid != key:
            problems.append(("attached-unproven", name, key, cid))
        if is_client and key != dial:
            problems.append(("client-attached-other-than-dialled", name, key, dial))
    if t.result == [42]:
        # the reference named Tub `dial`: it must have been obtained over a connection whose certificate hashes to it
        ok = any(n == "A" and key == dial and cid == dial for (n, key, ic, cid) in t.attached)
        if not ok:
            problems.append(("getReference-succeeded-without-proof", "A", dial, None))
    if len(t.result) != 1:
        problems.append(("getReference-fired-%d-times" % len(t.result), "A", dial, None))
    for rr in t.rref:
        for (sig, what) in reference_problems(t.A, t.furl, rr):
            problems.append((sig, "A", what, None))
    honest = honest_cell(cfg)
    if honest and t.result != [42]:
        problems.append(("honest-pair-did-not-connect", "A", dial, repr(t.result)))
    if not honest and not legit_cell(cfg) and (t.final["A"] or t.final["B"] or t.final["C"]):
        problems.append(("dishonest-cell-left-a-connection", "-", repr(t.final), None))
    for p in problems[:3]:
        ctx.fail("oracle/%s" % p[0], "%s: on Tub %s key=%s, transport certificate hashes to / expected %s; cell %r"
                 % (p[0], p[1], p[2], p[3], cfg), replay=dict(cell=cfg, ids=ids, attached=t.attached, final=t.final,
                                                               result=t.result, neglog=t.neglog))
    return not problems


def furl_parts(furl):
    """(tub id, name) of a FURL, parsed WITHOUT foolscap"""
    return url_tubid(furl), furl.rsplit("/", 1)[1]


def reference_problems(client, furl, rref):
    """the property on ONE getReference result: a reference handed out for a FURL naming X must sit on the Tub.brokers
    entry for X, whose transport's LEAF certificate hashes to X (loopback: X is the Tub's own id), and must name X"""
    want_id, want_name = furl_parts(furl)
    out = []
    if not (hasattr(rref, "tracker") and hasattr(rref, "callRemote")):
        return out
    b = rref.tracker.broker
    keys = [tr.getTubID() for tr, bb in client.brokers.items() if bb is b]
    tr = b.transport
    if isinstance(tr, E.End):
        cid = independent_tubid(tr.peer_cert)
    else:
        cid = client.tubID          # loopback: the Tub talking to itself
        keys = keys or [b.remote_tubref.getTubID()]
    if cid != want_id:
        out.append(("reference-from-unproven-connection", "getReference(%s) returned a reference over a connection whose peer "
                    "authenticated as %s" % (furl, cid)))
    if b.remote_tubref is None or b.remote_tubref.getTubID() != want_id or rref.getRemoteTubID() != want_id:
        out.append(("reference-from-other-tubs-connection", "getReference(%s) returned a reference whose Broker is the connection to %s"
                    % (furl, b.remote_tubref and b.remote_tubref.getTubID())))
    if keys and want_id not in keys:
        out.append(("reference-from-other-tubs-connection", "getReference(%s) returned a reference over the Tub.brokers entry %s" % (furl, keys)))
    u = rref.tracker.url
    if u is not None and (url_tubid(u) != want_id or u.rsplit("/", 1)[1] != want_name):
        out.append(("reference-names-other-object", "getReference(%s) returned a reference whose own URL is %s" % (furl, u)))
    return out


def honest_cell(cfg):
    return (cfg.get("dial", "B") == "B" and cfg.get("get") in (None, "B") and cfg.get("srv_cert", "B") == "B"
            and cfg.get("cli_cert", "A") == "A" and cfg.get("srv_claim") in (None, "B") and cfg.get("cli_claim") in (None, "A"))


def legit_cell(cfg):
    """cells in which each side's claim is backed by the certificate it presents (the harness hands a Tub another
    Tub's certificate: TLS would only allow that to the owner of the key) and the client reaches the id it dialled:
    a connection is the correct outcome there."""
    srv_c, cli_c = cfg.get("srv_cert", "B"), cfg.get("cli_cert", "A")
    srv_cl = cfg.get("srv_claim") or "B"
    cli_cl = cfg.get("cli_claim") or "A"
    get = cfg.get("get") or cfg.get("dial", "B")
    return srv_c == srv_cl and cli_c == cli_cl and srv_cl == cfg.get("dial", "B") and get == "B"


def run_cell(cfg, extra_mangle=None, keep_sending=False):
    t = Trial(cfg, extra_mangle)
    t.keep_sending = keep_sending
    try:
        t.go()
    finally:
        t.close()
    return t


# ------------------------------------------------------------------------------------------ inbound reference URLs
def url_tubid(url):
    """tub id named by a FURL, parsed WITHOUT foolscap: text between pb:// and @, first 32 characters"""
    if url is None or not url.startswith("pb://") or "@" not in url:
        return None
    return url[5:url.index("@")][:32]


class Env3:
    """three honest Tubs on one network, with the brokerAttached watcher and live-table oracle of Trial"""

    def __init__(self, a_pos):
        self.t = Trial(dict(a_pos=a_pos))
        self.net, self.ids, self.tubs = self.t.net, self.t.ids, self.t.tubs
        self.A, self.B, self.C = self.t.A, self.t.B, self.t.C

    def settle(self, res=None):
        self.t.settle(res if res is not None else [1])

    def close(self):
        self.t.close()


def url_trial(a_pos, kind):
    env = Env3(a_pos)
    A, B, ids = env.A, env.B, env.ids
    problems = []
    try:
        g = T()
        svc = T()
        svc.gift = g
        furl = B.registerReference(svc, name="svc")
        forged = {"B": "pb://%s@fake:b:1/g" % ids["B"], "C": "pb://%s@fake:c:1/g" % ids["C"],
                  "A": "pb://%s@fake:a:1/g" % ids["A"], "upper": "pb://%s@fake:b:1/g" % ids["B"].upper(),
                  "ext": "pb://%sa@fake:b:1/g" % ids["B"], "prefix": "pb://%s@fake:b:1/g" % ids["B"][:31],
                  "garbage": "pb://!!!@fake:b:1/g", "nourl": None}[kind]
        orig = B.getOrCreateURLForReference
        B.getOrCreateURLForReference = lambda ref: forged if ref is g else orig(ref)   # the peer is dishonest, not /repo
        res = []
        A.getReference(furl).addCallback(lambda rr: rr.callRemote("give")).addBoth(res.append)
        env.settle(res)
        got = res[0] if res else None
        accepted = got is not None and hasattr(got, "tracker") and hasattr(got, "callRemote")
        result = "RemoteReference" if accepted else (got.type.__name__ if hasattr(got, "type") else repr(got))
        # the property on what A now holds: every URL-carrying reference names the id its connection is registered under,
        # and that connection's certificate hashes to it
        for tubref, b in A.brokers.items():
            cid = independent_tubid(b.transport.peer_cert) if isinstance(b.transport, E.End) else None
            for tr in b.yourReferenceByCLID.values():
                u = getattr(tr, "url", None)
                if u is not None and (url_tubid(u) != tubref.getTubID() or url_tubid(u) != cid):
                    problems.append(("reference-names-unproven-tub", "A holds a reference with URL %s over the connection registered "
                                     "under %s whose certificate hashes to %s" % (u, tubref.getTubID(), cid)))
        if accepted:
            u = got.tracker.url
            if u is not None and url_tubid(u) != ids["B"]:
                problems.append(("reference-names-unproven-tub", "A accepted from B a reference with URL %s" % u))
        if kind == "B" and not accepted:
            problems.append(("honest-reference-refused", "a reference with B's own URL was refused: %s" % result))
        problems += [(p[0], repr(p[1:])) for p in env.t.bad]
        return dict(a_pos=a_pos, kind=kind, url=forged, url_id=url_tubid(forged) if forged else None, key=ids["B"],
                    accepted=accepted, result=result, problems=problems)
    finally:
        env.close()


class ForgedRef(object):
    """serialised by a dishonest (but authenticated) peer as a my-reference sequence of its choosing"""

    def __init__(self, clid, iname, url):
        self.clid, self.iname, self.url = clid, iname, url


def _register_forged():
    from foolscap import slicer, ipb
    from twisted.python.components import registerAdapter

    class ForgedRefSlicer(slicer.BaseSlicer):
        def slice(self, streamable, protocol):
            self.streamable = streamable
            yield b'my-reference'
            yield self.obj.clid
            if self.obj.iname is not None:
                yield self.obj.iname.encode("ascii")
                if self.obj.url is not None:
                    yield self.obj.url.encode("ascii")
    registerAdapter(ForgedRefSlicer, ForgedRef, ipb.ISlicer)


_register_forged()


class Keeper(Referenceable):
    def __init__(self):
        self.got = []

    def remote_take(self, obj):
        self.got.append(obj)        # kept alive: no decref traffic
        return True


def ref_history_trial(a_pos, steps):
    """Tub B (honest certificate, dishonest behaviour) sends Tub A a HISTORY of my-reference sequences over their proven
    connection: steps = [(clid, form, url kind)], form 'short' (clid only) / 'long' (interface name, and the URL when kind is not
    None).  After every step: every reference tracker A holds on any connection either has no URL or its URL names the id that
    connection is registered under and that its certificate hashes to; the same for what RemoteReference.getSturdyRef() says."""
    env = Env3(a_pos)
    A, B, ids = env.A, env.B, env.ids
    problems, tables = [], []
    try:
        keeper = Keeper()
        furl = A.registerReference(keeper, name="keeper")
        r0 = []
        B.getReference(furl).addBoth(r0.append)
        env.settle(r0)
        if not r0 or not hasattr(r0[0], "callRemote"):
            return dict(a_pos=a_pos, steps=steps, tables=[], problems=[("harness-setup", "B could not reach A: %r" % (r0,))], key=ids["B"], model_steps=[])
        urls = {"B": "pb://%s@fake:b:1/g" % ids["B"], "C": "pb://%s@fake:c:1/g" % ids["C"], "A": "pb://%s@fake:a:1/g" % ids["A"],
                "upper": "pb://%s@fake:b:1/g" % ids["B"].upper(), "B2": "pb://%s@fake:b:1/other" % ids["B"]}
        model_steps = []
        for (clid, form, kind) in steps:
            url = urls[kind] if (kind is not None and form == "long") else None
            res = []
            r0[0].callRemote("take", ForgedRef(clid, "" if form == "long" else None, url)).addBoth(res.append)
            env.settle(res)
            model_steps.append((clid, url_tubid(url) if url else None))
            snap = {}
            for tubref, b in A.brokers.items():
                cid = independent_tubid(b.transport.peer_cert) if isinstance(b.transport, E.End) else None
                for c_, tr in b.yourReferenceByCLID.items():
                    u = getattr(tr, "url", None)
                    if tubref.getTubID() == ids["B"]:
                        snap[c_] = url_tubid(u) if u else None
                    if u is not None and (url_tubid(u) != tubref.getTubID() or url_tubid(u) != cid):
                        problems.append(("reference-names-unproven-tub", "after step %r A holds a reference (clid %s) with URL %s over the connection "
                                         "registered under %s whose certificate hashes to %s" % ((clid, form, kind), c_, u, tubref.getTubID(), cid)))
                for u, tr in b.yourReferenceByURL.items():
                    if url_tubid(u) != tubref.getTubID():
                        problems.append(("reference-names-unproven-tub", "after step %r A's connection registered under %s indexes a reference by URL %s"
                                         % ((clid, form, kind), tubref.getTubID(), u)))
            for rr in keeper.got:
                if hasattr(rr, "getSturdyRef") and rr.tracker.getURL() is not None:
                    try:
                        named, proven = rr.getSturdyRef().getTubRef().getTubID(), rr.getRemoteTubID()
                    except Exception:
                        continue
                    if named != proven:
                        problems.append(("reference-names-unproven-tub", "after step %r a reference delivered over the connection proven for %s says it "
                                         "lives in Tub %s" % ((clid, form, kind), proven, named)))
            if not any(tr_.getTubID() == ids["B"] for tr_ in A.brokers):
                model_steps.pop()       # the reference was refused and the connection dropped: the history ends here
                break
            tables.append(sorted((c_, v) for c_, v in snap.items() if c_ in {s_[0] for s_ in steps}))
            if problems:
                break
        problems += [(p[0], repr(p[1:])) for p in env.t.bad]
        return dict(a_pos=a_pos, steps=[list(s_) for s_ in steps], model_steps=model_steps, tables=tables, problems=problems[:4], key=ids["B"])
    finally:
        env.close()


def key_trial(a_pos, variants):
    """Tub A gets a reference through B's FURL, then asks for FURLs that NAME THE SAME TUB in other words (other location hints, other
    object name, a longer tubid part whose first 32 characters are B's id) and for FURLs naming C in B's location: every answer must
    come over the Tub.brokers entry whose transport's certificate hashes to the tub id the FURL names; FURLs naming B must not open
    a second connection."""
    env = Env3(a_pos)
    A, B, C, ids = env.A, env.B, env.C, env.ids
    problems, rows = [], []
    try:
        B.registerReference(T(), name="o1")
        B.registerReference(T(), name="o2")
        C.registerReference(T(), name="o1")
        furls = {"B": "pb://%s@fake:b:1/o1" % ids["B"], "B_other_hint": "pb://%s@fake:nowhere:9/o2" % ids["B"],
                 "B_two_hints": "pb://%s@fake:nowhere:9,fake:b:1/o1" % ids["B"], "B_ext": "pb://%sa@fake:nowhere:9/o2" % ids["B"],
                 "B_no_hints": "pb://%s@/o1" % ids["B"], "C_at_B": "pb://%s@fake:b:1/o1" % ids["C"], "C": "pb://%s@fake:c:1/o1" % ids["C"],
                 "B_upper": "pb://%s@fake:b:1/o1" % ids["B"].upper(),
                 # ids that differ from B's in ONE character (first / middle / last): other Tubs, which nobody here can prove to be
                 "Bx_first": "pb://%s@fake:b:1/o1" % (("a" if ids["B"][0] != "a" else "b") + ids["B"][1:]),
                 "Bx_mid": "pb://%s@fake:b:1/o1" % (ids["B"][:16] + ("a" if ids["B"][16] != "a" else "b") + ids["B"][17:]),
                 "Bx_last": "pb://%s@fake:b:1/o1" % (ids["B"][:31] + ("a" if ids["B"][31] != "a" else "b"))}
        for v in variants:
            furl = furls[v]
            res = []
            A.getReference(furl).addBoth(res.append)
            env.settle(res)
            got = res[0] if res else None
            ok = hasattr(got, "callRemote")
            named = url_tubid(furl)
            entry = None
            if ok:
                b = got.tracker.broker
                entry = [tr.getTubID() for tr, bb in A.brokers.items() if bb is b]
                cid = independent_tubid(b.transport.peer_cert) if isinstance(b.transport, E.End) else "loopback"
                if cid != named.lower() and cid != named:
                    problems.append(("reference-from-unproven-connection", "getReference(%s) was answered over a connection whose certificate hashes "
                                     "to %s" % (furl, cid)))
                if entry != [cid]:
                    problems.append(("reference-from-other-tubs-connection", "getReference(%s) was answered by the Broker stored under %r, certificate %s"
                                     % (furl, entry, cid)))
            n_b = len([1 for (n, k, ic, cid) in env.t.attached if n == "A" and k == ids["B"]])
            if n_b > 1:
                problems.append(("second-connection-for-same-tub", "A registered %d connections for B after asking for %s" % (n_b, furl)))
            rows.append(dict(variant=v, furl=furl, answered=ok, entry=entry, table=sorted(tr.getTubID() for tr in A.brokers)))
        problems += [(p[0], repr(p[1:])) for p in env.t.bad]
        return dict(a_pos=a_pos, variants=list(variants), rows=rows, problems=problems[:4], ids=ids)
    finally:
        env.close()


def tubref_facts(ids):
    """the REAL TubRef / SturdyRef key functions evaluated on a grid (for the correspondence with dict_match / getReference_key)"""
    from foolscap.referenceable import TubRef, SturdyRef
    flip = lambda t, i: t[:i] + ("a" if t[i] != "a" else "b") + t[i + 1:]
    tubs = [ids["B"], ids["C"], ids["B"].upper(), ids["B"][:31], flip(ids["B"], 0), flip(ids["B"], 31), "", None]
    hints = [[], ["tcp:x:1"], ["tcp:y:2", "tcp:x:1"]]
    refs = [(t, h) for t in tubs for h in hints]
    pairs = []
    for (t1, h1) in refs:
        for (t2, h2) in refs:
            a, b = TubRef(t1, list(h1)), TubRef(t2, list(h2))
            pairs.append(dict(a=(t1, h1), b=(t2, h2), eq=bool(a == b), ne=bool(a != b), same_hash=hash(a) == hash(b), found=(a in {b: 1})))
    furls = ["pb://%s@tcp:h:1/n" % ids["B"], "pb://%s@tcp:h:1,tcp:g:2/other" % ids["B"], "pb://%sxyz@tcp:q:9/n" % ids["B"],
             "pb://%s@/n" % ids["C"], "pb://%s@tcp:h:1/n" % ids["B"].upper(), "pb://%s@tcp:h:1/n" % ids["B"][:31], "pb://@tcp:h:1/n", "nonsense"]
    keys = []
    for f in furls:
        try:
            sr = SturdyRef(f)
            tr = sr.getTubRef()
            keys.append(dict(furl=f, s_tub=sr.tubID, s_hints=list(sr.locationHints), s_name=sr.name, tub=tr.getTubID(), hints=list(tr.getLocations()),
                             independent_tub=url_tubid(f)))
        except Exception as e:
            keys.append(dict(furl=f, error=type(e).__name__))
    return pairs, keys


def gift_trial(a_pos, target_honest):
    env = Env3(a_pos)
    A, B, C, ids = env.A, env.B, env.C, env.ids
    problems = []
    try:
        c_obj = T()
        furl_c = C.registerReference(c_obj, name="cobj")
        svc = T()
        furl_b = B.registerReference(svc, name="svc")
        r0 = []
        B.getReference(furl_c).addBoth(r0.append)
        env.settle(r0)
        if not r0 or not hasattr(r0[0], "callRemote"):
            return dict(delivered=False, problems=[("harness-setup", "B could not reach C: %r" % (r0,))])
        svc.gift = r0[0]
        if not target_honest:
            C.presented_cert = B.myCertificate      # whoever answers at C's location now proves B's identity, still claims C
        res = []
        A.getReference(furl_b).addCallback(lambda rr: rr.callRemote("give")).addCallback(
            lambda g: g.callRemote("hi")).addBoth(res.append)
        env.settle(res)
        delivered = res == [42]
        att_c = [(n, k, ic, cid) for (n, k, ic, cid) in env.t.attached if n == "A" and k == ids["C"]]
        if delivered and not any(cid == ids["C"] for (_, _, _, cid) in att_c):
            problems.append(("gift-used-without-proof", "A used a reference naming C without a connection proven to be C: %r" % (env.t.attached,)))
        for (n, k, ic, cid) in env.t.attached:
            if cid != "loopback" and (cid is None or cid != k):
                problems.append(("attached-unproven", "Tub %s registered %s over a connection whose certificate hashes to %s" % (n, k, cid)))
        if target_honest and not delivered:
            problems.append(("honest-gift-refused", "gift naming honest C was not delivered: %r" % (res,)))
        if not target_honest and delivered:
            problems.append(("gift-used-without-proof", "gift delivered although C's location proved another identity"))
        problems += [(p[0], repr(p[1:])) for p in env.t.bad]
        return dict(delivered=delivered, result=[getattr(x, "type", x).__name__ if hasattr(x, "type") else x for x in res],
                    problems=problems)
    finally:
        env.close()


# ------------------------------------------------------------------------------------------ histories on Tub A
def history_trial(rng, length):
    a_pos = rng.choice(["hi", "lo"])
    env = Env3(a_pos)
    env.t.keep_sending = True       # bytes under way reach an end that has already hung up, until connectionLost
    A, ids, net = env.A, env.ids, env.net
    tubs = env.tubs
    cert_r = Tub(certData=E.pem(3)).myCertificate     # the raw peers' own identity R: no Tub of this network has it
    id_r = independent_tubid(cert_r)
    nraw = [0]
    problems, ops, model_ops, tables = [], [], [], []
    asked = []
    cur = dict(first_link=10 ** 9, side=None, claim=None)

    def mangle(link, side, d):
        idx = net.links.index(link)
        if idx < cur["first_link"] or side != cur["side"] or cur["claim"] is None:
            return d
        return rewrite_claim(d, cur["claim"][0], ids, cur["claim"][1], [])
    net.mangle = mangle
    try:
        for name in "ABC":
            tubs[name].registerReference(T(), name="svc")
        for i in range(length):
            kind = rng.choice(["out", "out", "in", "in", "detach", "loopback", "raw-out", "raw-in"])
            if kind in ("raw-out", "raw-in"):
                # a scripted peer that authenticates as R, shows Tub x's public certificate as an extra, and sends header
                # blocks of every kind (claiming R or x) without stopping; it hangs up at the end of the operation.
                x = rng.choice(["B", "C"])
                n = rng.choice([1, 2, 3])
                blocks = [rng.choice(BLOCK_KINDS) for _ in range(n)]
                cuts = {j for j in range(n - 1) if rng.random() < 0.6}
                extras = rng.choice([[], [env.t.certs[x]]])
                data = [block_bytes(k, id_r, ids[x]) for k in blocks]
                chunks, curb = [], b""
                for j, d in enumerate(data):
                    curb += d
                    if j in cuts or j == n - 1:
                        chunks.append(curb)
                        curb = b""
                res = []
                if kind == "raw-out":
                    nraw[0] += 1
                    raw = RawServer(cert_r, extras, chunks)
                    net.tubs["raw%d" % nraw[0]] = raw
                    A.getReference("pb://%s@fake:raw%d:1/svc" % (ids[x], nraw[0])).addBoth(res.append)
                    env.settle(res)
                    protos = raw.protos
                else:
                    link = E.Link(net, "L%d" % len(net.links))
                    cend, send_ = link.ends
                    ps = A.getListeners()[0].buildProtocol(E.Addr())
                    pc = RawProto("client", chunks, get_id=ids["A"])
                    cend.protocol, send_.protocol = pc, ps
                    send_.peer_cert, send_.peer_extra = cert_r, extras
                    cend.peer_cert = A.myCertificate
                    link.client_tub, link.server_tub = None, A
                    ps.makeConnection(send_)
                    pc.makeConnection(cend)
                    env.settle()
                    protos = [pc]
                for pr in protos:
                    pr.transport.loseConnection()
                env.settle()
                ops.append((kind, x, blocks, sorted(cuts), bool(extras)))
                model_ops.append(("detach", "R"))      # a no-op of the table model (R is never a key of it)
                # no model event: R is nobody's key in this table; whatever such a peer achieves must leave the table alone
            elif kind in ("out", "in"):
                x = rng.choice(["B", "C"])
                other = "C" if x == "B" else "B"
                cert = rng.choice([x, x, x, "none", other, "A"])
                claim = rng.choice([None, None, None, "absent", other, "garbage", "upper", "empty", "A"])
                if cert != x and claim == cert:
                    claim = None              # keep impersonation-with-proof out of histories (see matrix cells for those)
                claim_s = ids[x] if claim is None else claim_value(claim, ids, ids[x])
                cur.update(first_link=len(net.links), side=1 if kind == "out" else 0, claim=None if claim is None else (claim, ids[x]))
                if cert != x:
                    tubs[x].presented_cert = env.t.certs[cert]
                res = []
                if kind == "out":
                    asked.append(("pb://%s@fake:%s:1/svc" % (ids[x], x.lower()), res))
                    A.getReference("pb://%s@fake:%s:1/svc" % (ids[x], x.lower())).addBoth(res.append)
                    model_ops.append(("neg", "Client", x, cert, claim_s, True, False))
                else:
                    tubs[x].getReference("pb://%s@fake:a:1/svc" % ids["A"]).addBoth(res.append)
                    model_ops.append(("neg", "Server", None, cert, claim_s, True, False))
                env.settle(res)
                if cert != x:
                    del tubs[x].presented_cert
                cur.update(first_link=10 ** 9)
                ops.append((kind, x, cert, claim))
            elif kind == "detach":
                x = rng.choice(["B", "C"])
                for tr, b in list(A.brokers.items()):
                    if tr.getTubID() == ids[x]:
                        b.transport.loseConnection()
                env.settle()
                ops.append(("detach", x))
                model_ops.append(("detach", x))
            else:
                res = []
                A.getReference("pb://%s@fake:a:1/svc" % ids["A"]).addBoth(res.append)
                env.settle(res)
                ops.append(("loopback",))
                model_ops.append(("loopback",))
            tab = []
            for tr, b in A.brokers.items():
                if tr.getTubID() == id_r:
                    continue
                if isinstance(b.transport, E.End):
                    tab.append((tr.getTubID(), independent_tubid(b.transport.peer_cert), False))
                else:
                    tab.append((tr.getTubID(), None, True))
            tables.append(sorted(tab, key=repr))
        for (n, k, ic, cid) in env.t.attached:
            if cid == "loopback":
                if k != tubs[n].tubID:
                    problems.append(("loopback-under-foreign-id", "Tub %s registered a loopback under %s" % (n, k)))
            elif cid is None or cid != k:
                problems.append(("attached-unproven", "Tub %s registered %s over a connection whose certificate hashes to %s" % (n, k, cid)))
        for (furl, res) in asked:
            for r_ in res:
                problems += reference_problems(A, furl, r_)
        problems += [(p[0], repr(p[1:])) for p in env.t.bad]
        return dict(a_pos=a_pos, ops=ops, model_ops=model_ops, tables=tables, problems=problems)
    finally:
        env.close()


# ------------------------------------------------------------------------------------------ a peer that keeps sending
# A scripted raw peer (not a Tub) talks to one real Tub ("the victim", Tub A) and sends header blocks of every kind in
# any chunking, no matter what the victim answers.  Bytes that are already under way are delivered to the victim even
# after it called transport.loseConnection() (as on a real socket), until connectionLost is delivered, which comes last.
from twisted.internet.error import ConnectionDone as _ConnectionDone
from twisted.python import failure as _failure

BLOCK_KINDS = ["Hleaf", "Hx", "Habsent", "D", "Dbad", "E", "J"]


def block_bytes(kind, leaf_id, x_id):
    from foolscap import vocab
    N = neg.Negotiation

    def hello(claim):
        lines = ["banana-negotiation-range: %d %d" % (N.minVersion, N.maxVersion),
                 "initial-vocab-table-range: %d %d" % tuple(N.initialVocabTableRange),
                 "my-incarnation: 0123456789abcdef"]
        if claim is not None:
            lines.append("my-tub-id: %s" % claim)
        return ("\r\n".join(lines) + "\r\n\r\n").encode()
    if kind == "Hleaf":
        return hello(leaf_id)
    if kind == "Hx":
        return hello(x_id)
    if kind == "Habsent":
        return hello(None)
    if kind == "D":
        idx = N.initialVocabTableRange[1]
        return ("banana-decision-version: %d\r\ncurrent-connection: 0123456789abcdef 1\r\n"
                "initial-vocab-table-index: %d %s\r\n\r\n" % (N.maxVersion, idx, vocab.hashVocabTable(idx))).encode()
    if kind == "Dbad":
        return b"banana-decision-version: 99\r\n\r\n"
    if kind == "E":
        return b"error: go away\r\n\r\n"
    if kind == "J":
        return b"this line has no colon\r\n\r\n"
    if kind == "B":                      # RPC-protocol bytes (a PING and a short string token), no header terminator
        return b"\x00\x85\x03\x82abc"
    raise ValueError(kind)


class RawProto:
    def __init__(self, role, chunks, get_id=None):
        self.role, self.chunks, self.get_id = role, chunks, get_id
        self.buf = b""
        self.started = False
        self.lost = False
        self.received = []

    def makeConnection(self, transport):
        self.transport = transport
        if self.role == "client":
            transport.write(("GET /id/%s HTTP/1.1\r\nHost: fake\r\nUpgrade: TLS/1.0\r\nConnection: Upgrade\r\n\r\n" % self.get_id).encode())
            self.blast()

    def blast(self):
        self.started = True
        for c in self.chunks:
            self.transport.write(c)

    def dataReceived(self, d):
        self.received.append(d)
        self.buf += d
        if self.role == "server" and not self.started and b"\r\n\r\n" in self.buf:
            self.transport.write(b"HTTP/1.1 101 Switching Protocols\r\nUpgrade: TLS/1.0, PB/1.0\r\nConnection: Upgrade\r\n\r\n")
            self.blast()

    def connectionLost(self, why):
        self.lost = True


class RawServer:
    """stands where a Tub stands in harness.implenv.FakeEndpoint: a listener that builds the scripted protocol"""

    def __init__(self, leaf, extras, chunks):
        self.presented_cert = self.myCertificate = leaf
        self.presented_extra = extras
        self.chunks = chunks
        self.protos = []

    def getListeners(self):
        return [self]

    def buildProtocol(self, addr):
        p = RawProto("server", self.chunks)
        self.protos.append(p)
        return p


PHASE_NAMES = None


def phase_name(n):
    global PHASE_NAMES
    if PHASE_NAMES is None:
        PHASE_NAMES = {neg.PLAINTEXT: "PhPlaintext", neg.ENCRYPTED: "PhEncrypted", neg.DECIDING: "PhDeciding",
                       neg.BANANA: "PhBanana", neg.ABANDONED: "PhAbandoned"}
    if "dataReceived" in n.__dict__:      # switchToBanana redirected the transport's input to the Broker
        return "PhBanana"
    return PHASE_NAMES[n.receive_phase]


def pump_keep_sending(net, delivered=None, after_each=None):
    """deliver everything that is under way.  Unlike implenv.Net.step, bytes are handed to a protocol that has already
    called transport.loseConnection() (they were in flight; a real transport keeps delivering until connectionLost), and
    local connectionLost notifications come last."""
    for _ in range(100000):
        items = net.deliverable()
        if not items:
            return
        dat = [c for c in items if not isinstance(c[1], tuple)]
        l, what = (dat or items)[0]
        if isinstance(what, tuple):
            e = what[1]
            l.pending_local_close.remove(e)
            if e.protocol and not e.lost:
                e.lost = True
                e.protocol.connectionLost(_failure.Failure(_ConnectionDone()))
        else:
            d = l.q[what].pop(0)
            dst = l.ends[1 - what]
            if d is None:
                if not dst.lost:
                    dst.lost = dst.closed = True
                    dst.protocol.connectionLost(_failure.Failure(_ConnectionDone()))
            elif not dst.lost:
                if net.mangle:
                    d = net.mangle(l, what, d)
                if d:
                    dst.protocol.dataReceived(d)
                    E.turn()
                    if delivered:
                        delivered(dst, d)
        E.turn()
        if after_each:
            after_each()
    raise RuntimeError("no quiescence")


def raw_trial(role, a_pos, leaf, x, extras, blocks, cuts):
    """role: what the victim (Tub A) is ('Client' dials a FURL naming Tub x at the raw peer's location; 'Server' is
    connected to).  The raw peer authenticates with `leaf`'s certificate, sends `extras` along, and sends `blocks`
    (kinds) cut into chunks after the positions in `cuts`.  -> observations after every chunk + oracle problems."""
    reset()
    net = Net()
    arr = arrangement(a_pos)
    ids = {k: v[0] for k, v in arr.items()}
    negs = []
    neglog = []

    class RecNeg(neg.Negotiation):
        def __init__(self, *a, **kw):
            neg.Negotiation.__init__(self, *a, **kw)
            negs.append(self)

        def negotiationFailed(self):
            r = self.failureReason
            neglog.append(r.type.__name__ if r is not None else None)
            return neg.Negotiation.negotiationFailed(self)
    A = make_tub(net, "a", arr["A"][1], RecNeg)
    certs = {}
    for k in "BC":
        certs[k] = Tub(certData=arr[k][1]).myCertificate
    certs["A"] = A.myCertificate
    attached = []
    orig = A.brokerAttached

    def brokerAttached(tubref, broker, isClient):
        tr = broker.transport
        attached.append((tubref.getTubID(), bool(isClient), independent_tubid(tr.peer_cert) if isinstance(tr, E.End) else "loopback"))
        return orig(tubref, broker, isClient)
    A.brokerAttached = brokerAttached
    leaf_id, x_id = ids[leaf], ids[x]
    data = [block_bytes(k, leaf_id, x_id) for k in blocks]
    chunks, cur = [], b""
    for i, d in enumerate(data):
        cur += d
        if i in cuts or i == len(data) - 1:
            chunks.append(cur)
            cur = b""
    res = []
    try:
        A.registerReference(T(), name="svc")
        if role == "Client":
            raw = RawServer(certs[leaf], [certs[e] for e in extras], chunks)
            net.tubs["raw"] = raw
            A.getReference("pb://%s@fake:raw:1/svc" % x_id).addBoth(res.append)
            E.turn()
            victim_side = 0
        else:
            link = E.Link(net, "L%d" % len(net.links))
            cend, send_ = link.ends
            ps = A.getListeners()[0].buildProtocol(E.Addr())
            pc = RawProto("client", chunks, get_id=ids["A"])
            cend.protocol, send_.protocol = pc, ps
            send_.peer_cert, send_.peer_extra = certs[leaf], [certs[e] for e in extras]
            cend.peer_cert = A.myCertificate
            link.client_tub, link.server_tub = None, A
            ps.makeConnection(send_)
            pc.makeConnection(cend)
            E.turn()
            victim_side = 1
        obs = []
        script_left = list(chunks)

        def delivered(dst, d):
            if dst.side == victim_side and script_left and d == script_left[0]:
                script_left.pop(0)
                n = negs[0]
                their = getattr(n, "theirTubRef", None)
                obs.append((phase_name(n), their.getTubID() if their is not None else None, [k for (k, ic, cid) in attached]))
        pump_keep_sending(net, delivered)
        problems = []
        for (k, ic, cid) in attached:
            if cid is None or k is None or cid != k:
                problems.append(("attached-unproven", "Tub A registered a connection under %s; the peer authenticated with the certificate of %s" % (k, cid)))
            if role == "Client" and k != x_id:
                problems.append(("client-attached-other-than-dialled", "Tub A dialled %s and registered %s" % (x_id, k)))
        for tubref, b in A.brokers.items():
            if isinstance(b.transport, E.End) and independent_tubid(b.transport.peer_cert) != tubref.getTubID():
                problems.append(("table-entry-unproven", "Tub A keeps %s for a transport authenticated as %s"
                                 % (tubref.getTubID(), independent_tubid(b.transport.peer_cert))))
        for r_ in res:
            if hasattr(r_, "callRemote"):
                if leaf_id != x_id:
                    problems.append(("getReference-succeeded-without-proof", "getReference(FURL naming %s) returned a reference over a "
                                     "connection authenticated as %s" % (x_id, leaf_id)))
        return dict(role=role, a_pos=a_pos, leaf=leaf, x=x, extras=extras, blocks=blocks, cuts=sorted(cuts), obs=obs,
                    n_chunks=len(chunks), attached=attached, neglog=neglog, problems=problems,
                    claims=dict(Hleaf=leaf_id, Hx=x_id))
    finally:
        A.stopService()
        E.turn()


# ------------------------------------------------------------------------------------------ raw BYTES, from the first byte
def hello_bytes(lines):
    return ("\r\n".join(lines) + "\r\n\r\n").encode("latin-1")


def byte_blocks(ids, leaf, x):
    """name -> bytes: the block library of the byte-level scripts (everything the raw peer can put on the wire after or instead
    of the plaintext exchange)."""
    from foolscap import vocab
    N = neg.Negotiation
    rng = "banana-negotiation-range: %d %d" % (N.minVersion, N.maxVersion)
    voc = "initial-vocab-table-range: %d %d" % tuple(N.initialVocabTableRange)
    idx = N.initialVocabTableRange[1]
    good_dec = ["banana-decision-version: %d" % N.maxVersion, "current-connection: 0123456789abcdef 1",
                "initial-vocab-table-index: %d %s" % (idx, vocab.hashVocabTable(idx))]
    L, X = ids[leaf], ids[x]
    b = {
        "Hleaf": hello_bytes([rng, voc, "my-incarnation: 00", "my-tub-id: " + L]),
        "Hx": hello_bytes([rng, voc, "my-tub-id: " + X]),
        "Habsent": hello_bytes([rng, voc]),
        "Hempty": hello_bytes([rng, voc, "my-tub-id: "]),
        "Hx_then_leaf": hello_bytes([rng, "my-tub-id: " + X, voc, "my-tub-id: " + L]),
        "Hleaf_then_x": hello_bytes([rng, "my-tub-id: " + L, voc, "my-tub-id: " + X]),
        "Hupper_key": hello_bytes([rng, voc, "MY-TUB-ID:    " + L]),
        "Hupper_val": hello_bytes([rng, voc, "my-tub-id: " + L.upper()]),
        "Hleaf_error": hello_bytes([rng, voc, "my-tub-id: " + L, "error: no"]),
        "Hleaf_range_low": hello_bytes(["banana-negotiation-range: 1 %d" % N.maxVersion, voc, "my-tub-id: " + L]),
        "Hleaf_range_none": hello_bytes(["banana-negotiation-range: %d %d" % (N.maxVersion + 1, N.maxVersion + 6), voc, "my-tub-id: " + L]),
        "Hleaf_range_junk": hello_bytes(["banana-negotiation-range: x y", voc, "my-tub-id: " + L]),
        "Hleaf_range_one": hello_bytes(["banana-negotiation-range: 3", voc, "my-tub-id: " + L]),
        "Hleaf_norange": hello_bytes([voc, "my-tub-id: " + L]),
        "Hleaf_forced": hello_bytes([rng, voc, "my-tub-id: " + L, "negotiation-forced: TRUE"]),
        "Hleaf_notforced": hello_bytes([rng, voc, "my-tub-id: " + L, "negotiation-forced: no"]),
        "Hleaf_vocab_bad": hello_bytes([rng, "initial-vocab-table-range: 7 9", "my-tub-id: " + L]),
        "Hleaf_vocab_default": hello_bytes([rng, "my-tub-id: " + L]),
        "Hleaf_and_decision": hello_bytes([rng, voc, "my-tub-id: " + L] + good_dec),
        "Hx_and_decision": hello_bytes([rng, voc, "my-tub-id: " + X] + good_dec),
        "D": hello_bytes(good_dec),
        "D2": hello_bytes(["banana-decision-version: 2"]),
        "D99": hello_bytes(["banana-decision-version: 99"]),
        "Dnover": hello_bytes(["x: y"]),
        "Dempty_ver": hello_bytes(["banana-decision-version:"]),
        "Derror": hello_bytes(good_dec + ["error: no"]),
        "Dbadhash": hello_bytes(["banana-decision-version: %d" % N.maxVersion, "initial-vocab-table-index: %d %s" % (idx, "0" * 4)]),
        "Dbadindex": hello_bytes(["banana-decision-version: %d" % N.maxVersion, "initial-vocab-table-index: 9 abcd"]),
        "Dclaims_x": hello_bytes(good_dec + ["my-tub-id: " + X]),
        "E": b"error: go away\r\n\r\n",
        "J": b"this line has no colon\r\n\r\n",
        "Jff": b"\xff\xfe: 1\r\n\r\n",
        "Jffval": hello_bytes([rng, voc]).replace(b"\r\n\r\n", b"\r\nmy-tub-id: \xff\r\n\r\n"),
        "Jblank": b"\r\n\r\n",
        "Long": b"x: " + b"A" * 4200 + b"\r\n\r\n",
        "Pad4000": b"x: " + b"A" * 4000 + b"\r\n\r\n",
        # plaintext blocks a raw CLIENT can send to a listener
        "GETA": ("GET /id/%s HTTP/1.1\r\nHost: fake\r\nUpgrade: TLS/1.0\r\nConnection: Upgrade\r\n\r\n" % ids["A"]).encode(),
        "GETA_noupgrade": ("GET /id/%s HTTP/1.1\r\n\r\n" % ids["A"]).encode(),
        "GETC": ("GET /id/%s HTTP/1.1\r\nUpgrade: TLS/1.0\r\n\r\n" % ids["C"]).encode(),
        "GETempty": b"GET /id/ HTTP/1.1\r\nUpgrade: TLS/1.0\r\n\r\n",
        "GET2tok": ("GET /id/%s\r\n\r\n" % ids["A"]).encode(),
        "GET4tok": ("GET /id/%s HTTP/1.1 extra\r\n\r\n" % ids["A"]).encode(),
        "GETtabs": ("GET \t/id/%s\x0b HTTP/1.1\r\n\r\n" % ids["A"]).encode(),
        "GETlower": ("get /id/%s HTTP/1.1\r\n\r\n" % ids["A"]).encode(),
        "GETindex": b"GET /index.html HTTP/1.1\r\n\r\n",
        "GETff": b"GET /id/\xff HTTP/1.1\r\n\r\n",
        "GETAupper": ("GET /id/%s HTTP/1.1\r\n\r\n" % ids["A"].upper()).encode(),
        "POST": ("POST /id/%s HTTP/1.1\r\n\r\n" % ids["A"]).encode(),
        # plaintext blocks a raw SERVER can answer a dialling Tub with
        "R101": b"HTTP/1.1 101 Switching Protocols\r\nUpgrade: TLS/1.0, PB/1.0\r\nConnection: Upgrade\r\n\r\n",
        "R101_noupgrade": b"HTTP/1.1 101 Switching Protocols\r\nConnection: Upgrade\r\n\r\n",
        "R101_noupgrade_ff": b"HTTP/1.1 101 Switching\r\nX: \xff\r\n\r\n",
        "R200": b"HTTP/1.1 200 OK\r\nUpgrade: TLS/1.0\r\n\r\n",
        "R200ff": b"HTTP/1.1 200 \xff\r\n\r\n",
        "R1tok": b"HTTP/1.1\r\n\r\n",
        "Rblank": b"\r\n\r\n",
        "R500": b"HTTP/1.1 500 Internal Server Error: unknown TubID\r\n\r\n",
    }
    # arbitrary bytes in header keys / values / the GET id: well-formed UTF-8 (2, 3, 4 byte forms) and every kind of malformed
    # sequence (lone continuation, truncated, overlong, surrogate, above U+10FFFF); integer fields stay ASCII (NegCodec.py_int)
    def with_note(note, claim=L):
        return hello_bytes([rng, voc]).replace(b"\r\n\r\n", b"\r\nx-note: " + note + b"\r\nmy-tub-id: " + claim.encode() + b"\r\n\r\n")
    b.update({
        "Hleaf_u2": with_note("h\u00e9llo".encode()), "Hleaf_u3": with_note("\u20ac \u4e2d".encode()), "Hleaf_u4": with_note("\U0001F600".encode()),
        "Hleaf_umax": with_note(b"\xf4\x8f\xbf\xbf"), "Hleaf_ukey": hello_bytes([rng, voc, "my-tub-id: " + L]).replace(b"my-tub", "\u00e9: 1\r\nmy-tub".encode()),
        "Hx_u2": with_note("h\u00e9llo".encode(), X),
        "Hbad_cont": with_note(b"\x80"), "Hbad_trunc": with_note(b"\xe2\x82"), "Hbad_overlong": with_note(b"\xc0\xaf"),
        "Hbad_overlong3": with_note(b"\xe0\x80\xaf"), "Hbad_surrogate": with_note(b"\xed\xa0\x80"), "Hbad_above": with_note(b"\xf4\x90\x80\x80"),
        "Hbad_f5": with_note(b"\xf5\x80\x80\x80"),
        "Hclaim_u": hello_bytes([rng, voc]).replace(b"\r\n\r\n", b"\r\nmy-tub-id: " + L.encode()[:-2] + "\u00e9".encode() + b"\r\n\r\n"),
        "Hclaim_nbsp": hello_bytes([rng, voc]).replace(b"\r\n\r\n", b"\r\nmy-tub-id: " + L.encode() + b"\xc2\xa0\r\n\r\n"),
        "Hclaim_ws": hello_bytes([rng, voc]).replace(b"\r\n\r\n", b"\r\nmy-tub-id:\t \x0b" + L.encode() + b"\r\n\r\n"),
        "D_u": hello_bytes(good_dec).replace(b"\r\n\r\n", b"\r\nx: \xe4\xb8\xad\r\n\r\n"),
        "D_bad": hello_bytes(good_dec).replace(b"\r\n\r\n", b"\r\nx: \xe4\xb8\r\n\r\n"),
        "GETu": b"GET /id/\xc3\xa9 HTTP/1.1\r\n\r\n", "GETbad": b"GET /id/\xc3 HTTP/1.1\r\n\r\n",
        "R200u": b"HTTP/1.1 200 \xc3\xa9\r\n\r\n", "R200bad": b"HTTP/1.1 200 \xa9\r\n\r\n",
    })
    return b


class RawBytesProto(RawProto):
    """the raw peer of the byte scripts: writes exactly the scripted chunks, nothing of its own"""

    def makeConnection(self, transport):
        self.transport = transport
        if self.role == "client":
            self.blast()

    def dataReceived(self, d):
        self.received.append(d)
        self.buf += d
        if self.role == "server" and not self.started and b"\r\n\r\n" in self.buf:
            self.blast()


class RawBytesServer(RawServer):
    def buildProtocol(self, addr):
        p = RawBytesProto("server", self.chunks)
        self.protos.append(p)
        return p


def raw_bytes_trial(role, a_pos, leaf, x, extras, names, cuts, redirect_c=False):
    """like raw_trial, from the FIRST byte of the connection: `names` = block names (byte_blocks) forming the stream the raw peer
    sends (for a listener: instead of the GET; for a dialling Tub: instead of the 101 answer), `cuts` = byte offsets at which the
    stream is cut into chunks.  Observed after every chunk: receive phase, theirTubRef, keys given to brokerAttached, class of
    the exception dataReceived caught last."""
    reset()
    net = Net()
    arr = arrangement(a_pos)
    ids = {k: v[0] for k, v in arr.items()}
    negs = []

    class RecNeg(neg.Negotiation):
        def __init__(self, *a, **kw):
            neg.Negotiation.__init__(self, *a, **kw)
            negs.append(self)
    A = make_tub(net, "a", arr["A"][1], RecNeg)
    if redirect_c:
        A.getListeners()[0]._redirects[ids["C"]] = "tcp:elsewhere:1"
    certs = {}
    for k in "BC":
        certs[k] = Tub(certData=arr[k][1]).myCertificate
    certs["A"] = A.myCertificate
    attached = []
    orig = A.brokerAttached

    def brokerAttached(tubref, broker, isClient):
        tr = broker.transport
        attached.append((tubref.getTubID(), bool(isClient), independent_tubid(tr.peer_cert) if isinstance(tr, E.End) else "loopback"))
        return orig(tubref, broker, isClient)
    A.brokerAttached = brokerAttached
    lib = byte_blocks(ids, leaf, x)
    stream = b"".join(lib[n] for n in names)
    offs = sorted(set(c for c in cuts if 0 < c < len(stream)))
    chunks = [stream[a:b_] for a, b_ in zip([0] + offs, offs + [len(stream)])]
    res = []
    try:
        A.registerReference(T(), name="svc")
        if role == "Client":
            raw = RawBytesServer(certs[leaf], [certs[e] for e in extras], chunks)
            net.tubs["raw"] = raw
            A.getReference("pb://%s@fake:raw:1/svc" % ids[x]).addBoth(res.append)
            E.turn()
            victim_side = 0
        else:
            link = E.Link(net, "L%d" % len(net.links))
            cend, send_ = link.ends
            ps = A.getListeners()[0].buildProtocol(E.Addr())
            pc = RawBytesProto("client", chunks)
            cend.protocol, send_.protocol = pc, ps
            send_.peer_cert, send_.peer_extra = certs[leaf], [certs[e] for e in extras]
            cend.peer_cert = A.myCertificate
            link.client_tub, link.server_tub = None, A
            ps.makeConnection(send_)
            pc.makeConnection(cend)
            E.turn()
            victim_side = 1
        obs = []
        script_left = list(chunks)

        def delivered(dst, d):
            if dst.side == victim_side and script_left and d == script_left[0]:
                script_left.pop(0)
                n = negs[0]
                their = getattr(n, "theirTubRef", None)
                fr = n.failureReason
                obs.append((phase_name(n), their.getTubID() if their is not None else None, [k for (k, ic, cid) in attached],
                            fr.type.__name__ if fr is not None else None))
        pump_keep_sending(net, delivered)
        problems = []
        leaf_id, x_id = ids[leaf], ids[x]
        for (k, ic, cid) in attached:
            if cid is None or k is None or cid != k:
                problems.append(("attached-unproven", "Tub A registered a connection under %s; the peer authenticated with the certificate of %s" % (k, cid)))
            if role == "Client" and k != x_id:
                problems.append(("client-attached-other-than-dialled", "Tub A dialled %s and registered %s" % (x_id, k)))
        if len(attached) > 1:
            problems.append(("attached-twice", "one transport was registered %d times: %r" % (len(attached), [a[0] for a in attached])))
        for tubref, b in A.brokers.items():
            if isinstance(b.transport, E.End) and independent_tubid(b.transport.peer_cert) != tubref.getTubID():
                problems.append(("table-entry-unproven", "Tub A keeps %s for a transport authenticated as %s"
                                 % (tubref.getTubID(), independent_tubid(b.transport.peer_cert))))
        for r_ in res:
            if hasattr(r_, "callRemote") and leaf_id != x_id:
                problems.append(("getReference-succeeded-without-proof", "getReference(FURL naming %s) returned a reference over a "
                                 "connection authenticated as %s" % (x_id, leaf_id)))
        return dict(role=role, a_pos=a_pos, leaf=leaf, x=x, extras=extras, names=names, cuts=offs, lens=[len(c) for c in chunks],
                    obs=obs, n_chunks=len(chunks), attached=attached, problems=problems, redirect_c=redirect_c,
                    stream_len=len(stream))
    finally:
        A.stopService()
        E.turn()


# ------------------------------------------------------------------------------------------ getReference request histories
def make_tub_unstarted(net, name, pemdata):
    """harness.implenv.make_tub without startService(): requests made now are queued by the Tub"""
    import foolscap.pb as pb
    t = Tub(certData=pemdata)
    t.removeAllConnectionHintHandlers()
    t.addConnectionHintHandler("fake", E.FakeHandler(net))
    l = pb.Listener.__new__(pb.Listener)
    l._tub = t
    l._test_options = {}
    l._redirects = {}
    l._negotiationClass = t.negotiationClass
    l._lp = None
    l._ep = "fake"
    t.listeners.append(l)
    t.setLocation("fake:%s:1" % name)
    net.tubs[name] = t
    return t


GR_TARGETS = ["A", "B", "C", "Cimp"]      # Cimp: the FURL names Tub C but its hint leads to Tub B's listener
GR_NAMES = ["o1", "o2"]


def getref_trial(a_pos, ops):
    """ops: ('req', target, name) | ('start',).  Tub A makes the requests; those before 'start' are queued by the Tub.
    -> per request: what came back, judged by the per-reference oracle, and which object a call on it reaches."""
    reset()
    net = Net()
    arr = arrangement(a_pos)
    ids = {k: v[0] for k, v in arr.items()}
    A = make_tub_unstarted(net, "a", arr["A"][1])
    B = make_tub(net, "b", arr["B"][1])
    C = make_tub(net, "c", arr["C"][1])
    tubs = dict(A=A, B=B, C=C)
    attached = []
    for nm, t in tubs.items():
        orig = t.brokerAttached

        def brokerAttached(tubref, broker, isClient, orig=orig, nm=nm):
            tr = broker.transport
            attached.append((nm, tubref.getTubID(), bool(isClient), independent_tubid(tr.peer_cert) if isinstance(tr, E.End) else "loopback"))
            return orig(tubref, broker, isClient)
        t.brokerAttached = brokerAttached
    try:
        for nm, t in tubs.items():
            for on in GR_NAMES:
                o = T()
                o.who = [nm, on]
                t.registerReference(o, name=on)
        requests = []       # (furl, target, name, results, reached)
        started = False
        for op in ops:
            if op[0] == "start":
                if not started:
                    A.startService()
                    started = True
                E.turn()
                pump_keep_sending(net)
                continue
            _, target, name = op
            tid = ids["C"] if target == "Cimp" else ids[target]
            loc = "b" if target == "Cimp" else target.lower()
            furl = "pb://%s@fake:%s:1/%s" % (tid, loc, name)
            results, reached = [], []

            def got(rr, reached=reached):
                d = rr.callRemote("whoami")
                d.addBoth(lambda w: reached.append(w if isinstance(w, list) else getattr(w, "type", type(w)).__name__))
                return rr
            A.getReference(furl).addCallback(got).addBoth(results.append)
            requests.append((furl, target, name, results, reached))
            E.turn()
            pump_keep_sending(net)
        for i in range(3):
            if all(r[3] for r in requests):
                break
            E.clock.advance(130)
            E.turn()
            pump_keep_sending(net)
        problems, obs = [], []
        for (furl, target, name, results, reached) in requests:
            if not started:
                if results:
                    problems.append(("request-answered-before-start", "getReference(%s) fired before startService" % furl))
                obs.append(None)
                continue
            if len(results) != 1:
                problems.append(("getReference-fired-%d-times" % len(results), "getReference(%s)" % furl))
                obs.append(None)
                continue
            r_ = results[0]
            ok = hasattr(r_, "callRemote") and hasattr(r_, "tracker")
            if ok:
                problems += reference_problems(A, furl, r_)
                want = ["C" if target == "Cimp" else target, name]
                if reached and reached[0] != want:
                    problems.append(("reference-reaches-other-object", "getReference(%s) returned a reference on which a call reaches object %r "
                                     "(requested: %r)" % (furl, reached[0], want)))
                key = r_.tracker.broker.remote_tubref.getTubID()
                obs.append((key, reached[0][1] if reached and isinstance(reached[0], list) else None))
            else:
                # (TubRefs compare by tub id only: a request for C can share the fate of a pending connector to "C at B's location")
                if target != "Cimp" and not any(o[0] == "req" and o[1] == "Cimp" for o in ops):
                    problems.append(("honest-request-failed", "getReference(%s) failed: %r" % (furl, getattr(r_, "type", r_))))
                obs.append(None)
        for (n, k, ic, cid) in attached:
            if cid == "loopback":
                if k != tubs[n].tubID:
                    problems.append(("loopback-under-foreign-id", "Tub %s registered a loopback under %s" % (n, k)))
            elif cid is None or cid != k:
                problems.append(("attached-unproven", "Tub %s registered %s over a connection authenticated as %s" % (n, k, cid)))
        return dict(a_pos=a_pos, ops=[list(o) for o in ops], obs=obs, started=started, problems=problems, ids=ids)
    finally:
        for t in tubs.values():
            if t.running:
                t.stopService()
        E.turn()


# ------------------------------------------------------------------------------------------ crossed connections
# Four Tubs.  Tub A has several outbound lookups pending (each on its own held link) while some of the dialled Tubs connect
# to A themselves; the harness decides which link makes progress when, so every completion order can be produced.  Every
# call of A's getBrokerForTubRef / brokerAttached / connectionFailed / brokerDetached is logged as an event of the Coq
# model (lib/Identity.v: tstate/tstep) together with the state A is in afterwards.
def arrangement4(a_pos):
    ps = pems_sorted(4)
    if a_pos == "hi":
        a, rest = ps[3], ps[:3]
    else:
        a, rest = ps[0], ps[1:]
    return dict(A=a, B=rest[0], C=rest[1], D=rest[2])


def crossed_trial(a_pos, ops):
    """ops: ('out', X) A looks X up (getReference) | ('in', X) X looks A up | ('run', i) everything on the i-th link created |
    ('step', i, n) n deliveries on link i | ('runall',).  Links make no progress unless told to."""
    reset()
    net = Net()
    arr = arrangement4(a_pos)
    ids = {k: v[0] for k, v in arr.items()}
    tubs = {k: make_tub(net, k.lower(), arr[k][1]) for k in "ABCD"}
    A = tubs["A"]
    letter = {ids[k]: k for k in ids}
    problems, events, snaps, lookups, asked = [], [], [], [], []

    def cert_letter(cert):
        return None if cert is None else letter.get(independent_tubid(cert))

    def snapshot():
        tab = []
        for tr, b in A.brokers.items():
            if isinstance(b.transport, E.End):
                tab.append((tr.getTubID(), independent_tubid(b.transport.peer_cert), False))
            else:
                tab.append((tr.getTubID(), None, True))
        snaps.append((sorted(tab, key=repr), [tr.getTubID() for tr in A.tubConnectors.keys()]))

    def poll():
        for name, t in tubs.items():
            for tubref, b in list(t.brokers.items()):
                tr = b.transport
                if isinstance(tr, E.End):
                    cid = independent_tubid(tr.peer_cert)
                    if cid is None or cid != tubref.getTubID():
                        problems.append(("table-entry-unproven", "Tub %s keeps under %s (Tub %s) a connection whose peer authenticated as Tub %s"
                                         % (name, tubref.getTubID(), letter.get(tubref.getTubID()), letter.get(cid))))
                    if b.remote_tubref is None or b.remote_tubref.getTubID() != tubref.getTubID():
                        problems.append(("broker-tubref-differs-from-key", "Tub %s: entry %s holds a Broker for %s"
                                         % (name, tubref.getTubID(), b.remote_tubref and b.remote_tubref.getTubID())))
                elif tubref.getTubID() != t.tubID:
                    problems.append(("loopback-under-foreign-id", "Tub %s keeps a loopback under %s" % (name, tubref.getTubID())))
        for (furl, res) in asked:
            for r_ in res:
                for pr in reference_problems(A, furl, r_):
                    if pr not in problems:
                        problems.append(pr)

    o_get, o_att, o_det, o_fail = A.getBrokerForTubRef, A.brokerAttached, A.brokerDetached, A.connectionFailed
    in_lookup = [0]

    def getBrokerForTubRef(tubref):
        in_lookup[0] += 1
        try:
            d = o_get(tubref)
        finally:
            in_lookup[0] -= 1
        rec = []
        lookups.append((tubref.getTubID(), rec))
        d.addBoth(lambda r: (rec.append(r), r)[1])
        events.append(("lookup", tubref.getTubID()))
        snapshot()
        return d

    def brokerAttached(tubref, broker, isClient):
        tr = broker.transport
        try:
            return o_att(tubref, broker, isClient)
        finally:
            if isinstance(tr, E.End):
                l = tr.link
                peer = l.server_tub if tr.side == 0 else l.client_tub
                events.append(("neg", "Client" if isClient else "Server", getattr(l, "dialled", None) if isClient else None,
                               cert_letter(tr.peer_cert), peer.tubID, tubref.getTubID()))
                cid = independent_tubid(tr.peer_cert)
                if cid is None or cid != tubref.getTubID():
                    problems.append(("attached-unproven", "Tub A registered under %s (Tub %s) a connection whose peer authenticated as Tub %s"
                                     % (tubref.getTubID(), letter.get(tubref.getTubID()), letter.get(cid))))
                snapshot()

    def brokerDetached(broker, why):
        keys = [tr.getTubID() for tr, b in A.brokers.items() if b is broker]
        r = o_det(broker, why)
        for k in keys:
            events.append(("detach", k))
            snapshot()
        return r

    def connectionFailed(tubref, why):
        r = o_fail(tubref, why)
        events.append(("failed", tubref.getTubID()))
        snapshot()
        return r
    A.getBrokerForTubRef, A.brokerAttached, A.brokerDetached, A.connectionFailed = getBrokerForTubRef, brokerAttached, brokerDetached, connectionFailed

    def deliver_one(l):
        """one delivery on link l (data first, then closes), with in-flight bytes delivered after a hang-up; False if nothing to do"""
        for side in (0, 1):
            if l.q[side]:
                d = l.q[side].pop(0)
                dst = l.ends[1 - side]
                if d is None:
                    if not dst.lost:
                        dst.lost = dst.closed = True
                        dst.protocol.connectionLost(_failure.Failure(_ConnectionDone()))
                elif not dst.lost:
                    dst.protocol.dataReceived(d)
                E.turn()
                poll()
                return True
        if l.pending_local_close:
            e = l.pending_local_close.pop(0)
            if e.protocol and not e.lost:
                e.lost = True
                e.protocol.connectionLost(_failure.Failure(_ConnectionDone()))
            E.turn()
            poll()
            return True
        return False

    def run_link(l, limit=100000):
        n = 0
        while n < limit and deliver_one(l):
            n += 1
    try:
        for k, t in tubs.items():
            o = T()
            o.who = [k, "svc"]
            t.registerReference(o, name="svc")
        results = []
        for op in ops:
            if op[0] in ("out", "in"):
                x = op[1]
                n0 = len(net.links)
                res = []
                if op[0] == "out":
                    furl = "pb://%s@fake:%s:1/svc" % (ids[x], x.lower())
                    asked.append((furl, res))
                    A.getReference(furl).addBoth(res.append)
                else:
                    furl = "pb://%s@fake:a:1/svc" % ids["A"]
                    tubs[x].getReference(furl).addBoth(res.append)
                results.append((op, res))
                E.turn()
                for l in net.links[n0:]:
                    l.dialled = ids[x] if op[0] == "out" else ids["A"]
                poll()
            elif op[0] == "run":
                if op[1] < len(net.links):
                    run_link(net.links[op[1]])
            elif op[0] == "step":
                if op[1] < len(net.links):
                    run_link(net.links[op[1]], op[2])
            elif op[0] == "runall":
                progress = True
                while progress:
                    progress = False
                    for l in list(net.links):
                        if deliver_one(l):
                            progress = True
        # let everything finish (timeouts included)
        for i in range(4):
            progress = True
            while progress:
                progress = False
                for l in list(net.links):
                    if deliver_one(l):
                        progress = True
            if all(r for (_, r) in results):
                break
            E.clock.advance(130)
            E.turn()
            poll()
        for (op, res) in results:
            if len(res) > 1:
                problems.append(("getReference-fired-%d-times" % len(res), "%r" % (op,)))
        answers = []
        for (x, rec) in lookups:
            if not rec:
                answers.append((x, "pending"))
            elif hasattr(rec[0], "transport"):
                tr = rec[0].transport
                answers.append((x, independent_tubid(tr.peer_cert) if isinstance(tr, E.End) else "loopback"))
            else:
                answers.append((x, "failed"))
        uniq = []
        for p_ in problems:
            if p_ not in uniq:
                uniq.append(p_)
        outcome = ["ok" if (r and hasattr(r[0], "callRemote")) else ("none" if not r else "failed") for (_, r) in results]
        return dict(a_pos=a_pos, ops=[list(o) for o in ops], ids=ids, events=events, snaps=snaps, answers=answers,
                    problems=uniq, outcome=outcome)
    finally:
        for t in tubs.values():
            t.stopService()
        E.turn()
