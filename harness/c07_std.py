"""C07 / C11: the REAL standard unslicers (RootUnslicer + slicers/*.py) under REAL constraint objects, compared event by
event and snapshot by snapshot with the Coq model lib/StdUnsl.v (an instance of the generic receive logic lib/Unsl.v).
The constraint tree handed to the model is read from the live constraint objects (taster table, strictTaster, opentypes,
limits), so a change of a taster shows up as a different MODEL INPUT and is then judged by the theorems' bound."""
import struct
from harness import common
from harness.c07 import tok, S, enc_int, INT, STRING, NEG, FLOAT, LONGINT, LONGNEG, VOCAB, OPEN, CLOSE, ABORT, ERROR, PING, PONG, LIST, chunkings

OTCODE = {"list": 1, "tuple": 2, "set": 3, "immutable-set": 4, "dict": 5, "unicode": 6, "boolean": 7, "none": 8, "decimal": 9,
          "reference": 10, "copyable": 11, "set-vocab": 12, "add-vocab": 13}
UNMODELLED = [b"decimal", b"reference", b"copyable", b"set-vocab", b"add-vocab"]


# ------------------------------------------------------------------ real constraint object -> Coq term
def zopt(x):
    return "None" if x is None else "(Some %s)" % common.coq_Z(int(x))


def tinfo(c):
    t = getattr(c, "taster", {})
    rows = "; ".join("(%d, %s)" % (k[0] if isinstance(k, bytes) else int(k), zopt(v)) for k, v in sorted(t.items()))
    ot = getattr(c, "opentypes", None)
    if ot is None:
        opens = "None"
    else:
        codes = []
        for o in ot:
            o = tuple(o)
            codes.append(OTCODE.get(o[0], 99) if len(o) == 1 else 99)
        opens = "(Some [%s])" % "; ".join(str(k) for k in codes)
    return "{| t_taster := [%s]; t_strict := %s; t_opens := %s |}" % (rows, "true" if getattr(c, "strictTaster", False) else "false", opens)


def to_coq(c):
    """a live constraint object -> sctr term (raises ValueError for classes the model does not know)"""
    from foolscap import constraint as K, schema
    from foolscap.slicers.list import ListConstraint
    from foolscap.slicers.tuple import TupleConstraint
    from foolscap.slicers.dict import DictConstraint
    from foolscap.slicers.set import SetConstraint
    from foolscap.slicers.unicode import UnicodeConstraint
    from foolscap.slicers.bool import BooleanConstraint
    from foolscap.slicers.none import Nothing
    if isinstance(c, schema.PolyConstraint):
        return "(SChoice [%s])" % "; ".join(to_coq(a) for a in c.alternatives)
    if isinstance(c, K.Any):
        return "(SAny %s)" % tinfo(c)
    if isinstance(c, ListConstraint):
        return "(SList %s %s %s)" % (tinfo(c), to_coq(c.constraint), zopt(c.maxLength))
    if isinstance(c, TupleConstraint):
        return "(STuple %s [%s])" % (tinfo(c), "; ".join(to_coq(x) for x in c.constraints))
    if isinstance(c, DictConstraint):
        return "(SDict %s %s %s %s)" % (tinfo(c), to_coq(c.keyConstraint), to_coq(c.valueConstraint), zopt(c.maxKeys))
    if isinstance(c, SetConstraint):
        return "(SSet %s %s %s)" % (tinfo(c), to_coq(c.constraint), zopt(c.maxLength))
    if isinstance(c, UnicodeConstraint):
        return "(SText %s %s)" % (tinfo(c), zopt(c.maxLength))
    if isinstance(c, BooleanConstraint):
        return "(SBool %s %s)" % (tinfo(c), "None" if c.value is None else "(Some %s)" % ("true" if c.value else "false"))
    if isinstance(c, (K.ByteStringConstraint, K.IntegerConstraint, K.NumberConstraint, Nothing)):
        return "(SPrim %s)" % tinfo(c)
    raise ValueError("constraint class not modelled: %r" % type(c))


# ------------------------------------------------------------------ delivered objects -> codes (same layout as Unsl.uval_code)
def ucode(o):
    if isinstance(o, bool):
        return [4, 7, 1, 1 if o else 0, 0]
    if isinstance(o, int):
        return [1, o]
    if isinstance(o, float):
        b = struct.pack("!d", o)
        return [2, 8] + list(b)
    if isinstance(o, bytes):
        return [3, len(o)] + list(o)
    if isinstance(o, str):
        b = o.encode("utf-8")
        return [4, 6, len(b)] + list(b) + [0]
    if o is None:
        return [4, 8, 0, 0]
    if isinstance(o, list):
        return [4, 1, 0, len(o)] + [x for it in o for x in ucode(it)]
    if isinstance(o, tuple):
        return [4, 2, 0, len(o)] + [x for it in o for x in ucode(it)]
    if isinstance(o, (set, frozenset)):
        ms = sorted(ucode(it) for it in o)
        return [4, 3 if isinstance(o, set) else 4, 0, len(ms)] + [x for m in ms for x in m]
    if isinstance(o, dict):
        out = [4, 5, 0, 2 * len(o)]
        for k, v in o.items():
            out += ucode(k) + ucode(v)
        return out
    return [97, 0]


class Abstain(Exception):
    pass


def parse_uval(cs, i):
    """decode one uval_code at cs[i:]; returns (canonical code with set members sorted, next index)"""
    t = cs[i]
    if t == 1:
        return [1, cs[i + 1]], i + 2
    if t in (2, 3):
        n = cs[i + 1]
        return cs[i:i + 2 + n], i + 2 + n
    if t == 4:
        tag, nd = cs[i + 1], cs[i + 2]
        data = cs[i + 3:i + 3 + nd]
        if tag == 4 and data == [99]:
            raise Abstain()
        j = i + 3 + nd
        n = cs[j]
        j += 1
        items = []
        for _ in range(n):
            it, j = parse_uval(cs, j)
            items.append(it)
        if tag in (3, 4):
            items.sort()
        return [4, tag, nd] + data + [n] + [x for it in items for x in it], j
    raise ValueError("bad code %r at %d" % (t, i))


def canon_event(ev):
    if ev and ev[0] == 10:
        v, j = parse_uval(ev, 1)
        return [10] + v
    return ev


# ------------------------------------------------------------------ generators
class StdGen:
    def __init__(self, rng):
        self.r = rng
        self.oid = 0

    def leaf_constraint(self):
        from foolscap.constraint import ByteStringConstraint, IntegerConstraint, NumberConstraint, Any
        from foolscap.schema import UnicodeConstraint, BooleanConstraint, ChoiceOf
        from foolscap.slicers.none import Nothing
        r = self.r
        k = r.choice([0, 1, 3, 10])
        return r.choice([lambda: ByteStringConstraint(maxLength=k), lambda: IntegerConstraint(maxBytes=r.choice([-1, 4, 8, None])),
                         lambda: NumberConstraint(maxBytes=r.choice([4, 8])), lambda: UnicodeConstraint(maxLength=r.choice([k, None])),
                         lambda: BooleanConstraint(r.choice([None, True, False])), lambda: Nothing(), lambda: Any(),
                         lambda: ByteStringConstraint(maxLength=None),
                         lambda: ChoiceOf(ByteStringConstraint(maxLength=k), None),
                         lambda: ChoiceOf(IntegerConstraint(maxBytes=4), ByteStringConstraint(maxLength=k))])()

    def constraint(self, d):
        from foolscap.schema import ListOf, TupleOf, DictOf, SetOf
        r = self.r
        if d <= 0 or r.random() < 0.35:
            return self.leaf_constraint()
        k = r.choice(["list", "tuple", "dict", "set"])
        if k == "list":
            return ListOf(self.constraint(d - 1), maxLength=r.choice([0, 1, 2, 3, None]))
        if k == "tuple":
            return TupleOf(*[self.constraint(d - 1) for _ in range(r.choice([0, 1, 2, 3]))])
        if k == "dict":
            return DictOf(self.constraint(d - 1), self.constraint(d - 1), maxKeys=r.choice([0, 1, 2, None]))
        return SetOf(self.constraint(d - 1), maxLength=r.choice([0, 1, 2, None]), mutable=None)

    # ---- byte streams
    def prim(self):
        r = self.r
        k = r.random()
        if k < 0.35:
            return enc_int(r.choice([0, 1, 2, 3, 5, 127, 128, 2 ** 31 - 1, 2 ** 31, 2 ** 40, 2 ** 70, -1, -3, -2 ** 31, -2 ** 31 - 1, -2 ** 70]))
        if k < 0.7:
            return S(bytes(r.choice([97, 98, 99, 0, 255, 128]) for _ in range(r.choice([0, 1, 2, 3, 4, 10, 11, 30]))))
        if k < 0.8:
            return bytes([FLOAT]) + bytes(r.randrange(256) for _ in range(8))
        if k < 0.9:
            return tok(PING, r.choice([0, 7])) if r.random() < 0.6 else tok(PONG, 1)
        return enc_int(r.randrange(4))

    def obj(self, depth):
        r = self.r
        if depth <= 0 or r.random() < 0.4:
            return self.prim()
        oid = self.oid
        self.oid += 1
        kind = r.choice(["list", "list", "tuple", "tuple", "dict", "dict", "set", "immutable-set", "unicode", "unicode", "boolean", "none",
                         "bogus", "lis", ""])
        out = tok(OPEN, oid) + S(kind.encode())
        n = r.choice([0, 1, 2, 3, 4])
        if kind == "unicode":
            out += S(bytes(r.choice([97, 98, 122]) for _ in range(r.choice([0, 1, 3, 6, 7, 18, 19, 61])))) if r.random() < 0.9 else self.prim()
            if r.random() < 0.1:
                out += S(b"x")
        elif kind == "boolean":
            out += enc_int(r.choice([0, 1, 2])) if r.random() < 0.9 else self.prim()
            if r.random() < 0.1:
                out += enc_int(0)
        elif kind == "none":
            if r.random() < 0.1:
                out += self.prim()
        elif kind == "dict":
            for i in range(n):
                out += (S(b"k%d" % r.randrange(3)) if r.random() < 0.6 else self.obj(depth - 1)) + self.obj(depth - 1)
            if r.random() < 0.1:
                out += self.prim()
        else:
            for i in range(n):
                out += self.obj(depth - 1)
        if r.random() < 0.05:
            out += tok(ABORT, oid)
        out += tok(CLOSE, oid if r.random() < 0.96 else oid + 1)
        return out

    def stream(self):
        r = self.r
        self.oid = r.choice([0, 0, 2])
        out = b""
        for _ in range(r.choice([1, 2, 3, 4])):
            out += self.obj(r.choice([0, 1, 2, 3]))
        return out


def conforming(r, c, d=3):
    """bytes of one object aimed at satisfying (or just missing) the live constraint c"""
    from foolscap import constraint as K, schema
    from foolscap.slicers.list import ListConstraint
    from foolscap.slicers.tuple import TupleConstraint
    from foolscap.slicers.dict import DictConstraint
    from foolscap.slicers.set import SetConstraint
    from foolscap.slicers.unicode import UnicodeConstraint
    from foolscap.slicers.bool import BooleanConstraint
    from foolscap.slicers.none import Nothing
    st = conforming.state
    off = r.choice([0, 0, 0, 1])           # 1: overshoot a limit by one
    if isinstance(c, schema.PolyConstraint):
        return conforming(r, r.choice(c.alternatives), d)
    if isinstance(c, K.ByteStringConstraint):
        n = (c.maxLength if c.maxLength is not None else 5) + off
        return S(bytes(97 + i % 3 for i in range(max(0, n - r.choice([0, 0, 1])))))
    if isinstance(c, K.NumberConstraint) and r.random() < 0.3:
        return bytes([FLOAT]) + bytes(8)
    if isinstance(c, K.IntegerConstraint):
        mb = c.maxBytes
        if mb == -1:
            return enc_int(r.choice([0, 5, -7, 2 ** 31 - 1, -2 ** 31, 2 ** 31 if off else 3]))
        nb = (mb if mb is not None else 9) + off
        return enc_int(r.choice([1, -1]) * (256 ** nb - 1)) if r.random() < 0.5 else enc_int(r.randrange(100))
    if isinstance(c, Nothing):
        i = st[0]; st[0] += 1
        return tok(OPEN, i) + S(b"none") + tok(CLOSE, i)
    if isinstance(c, BooleanConstraint):
        i = st[0]; st[0] += 1
        return tok(OPEN, i) + S(b"boolean") + enc_int(r.choice([0, 1])) + tok(CLOSE, i)
    if isinstance(c, UnicodeConstraint):
        i = st[0]; st[0] += 1
        n = (6 * c.maxLength if c.maxLength is not None else 4) + off
        n = r.choice([n, min(n, (c.maxLength or 0))])
        return tok(OPEN, i) + S(b"unicode") + S(b"u" * n) + tok(CLOSE, i)
    if isinstance(c, K.Any) or d <= 0:
        return S(b"any") if r.random() < 0.5 else enc_int(3)
    i = st[0]; st[0] += 1
    if isinstance(c, ListConstraint):
        n = (c.maxLength if c.maxLength is not None else 2) + off
        return tok(OPEN, i) + S(b"list") + b"".join(conforming(r, c.constraint, d - 1) for _ in range(n)) + tok(CLOSE, i)
    if isinstance(c, TupleConstraint):
        items = [conforming(r, x, d - 1) for x in c.constraints] + ([enc_int(1)] if off else [])
        return tok(OPEN, i) + S(b"tuple") + b"".join(items) + tok(CLOSE, i)
    if isinstance(c, DictConstraint):
        n = (c.maxKeys if c.maxKeys is not None else 2) + off
        body = b""
        for j in range(n):
            kb = conforming(r, c.keyConstraint, d - 1)
            if isinstance(c.keyConstraint, K.ByteStringConstraint) and (c.keyConstraint.maxLength or 0) >= 1:
                kb = S(bytes([97 + j]))[:]
            elif isinstance(c.keyConstraint, K.IntegerConstraint):
                kb = enc_int(j if r.random() < 0.9 else 0)
            body += kb + conforming(r, c.valueConstraint, d - 1)
        return tok(OPEN, i) + S(b"dict") + body + tok(CLOSE, i)
    if isinstance(c, SetConstraint):
        n = (c.maxLength if c.maxLength is not None else 2) + off
        ot = r.choice([b"set", b"immutable-set"])
        items = []
        for j in range(n):
            if isinstance(c.constraint, K.IntegerConstraint):
                items.append(enc_int(j if r.random() < 0.85 else 0))
            elif isinstance(c.constraint, K.ByteStringConstraint) and (c.constraint.maxLength or 0) >= 1:
                items.append(S(bytes([97 + j])))
            else:
                items.append(conforming(r, c.constraint, d - 1))
        return tok(OPEN, i) + S(ot) + b"".join(items) + tok(CLOSE, i)
    return enc_int(0)


conforming.state = [0]


def has_unmodelled(s):
    return any(u in s for u in UNMODELLED)


# ------------------------------------------------------------------ the correspondence
def run_std(I, cobj, stream, cs):
    p = I.StdBanana()
    if cobj is not None:
        from foolscap.constraint import IConstraint
        p.receiveStack[-1].constraint = IConstraint(cobj)
    snaps, pos, esc = [], 0, None
    for n in cs:
        data = stream[pos:pos + n]
        pos += n
        try:
            p.dataReceived(data)
        except Exception as e:
            esc = "%s: %s" % (type(e).__name__, e)
            break
        snaps.append(dict(buf=len(p.buffer), skip=p.skipBytes, discard=p.discardCount, depth=len(p.receiveStack),
                          inopen=bool(p.inOpen), dead=bool(p.connectionAbandoned)))
    run_std.last_error = getattr(p, 'errmsg', None)
    return I.events_of(p.vlog), snaps, esc, p.rootUnslicer.maxIndexLength


def std_cases(ctx, n):
    """-> list of (constraint object or None, description, stream)"""
    r = ctx.rng
    g = StdGen(r)
    from harness.c07 import Gen
    mut = Gen(r)
    out = []
    for i in range(n):
        cobj = None if r.random() < 0.25 else g.constraint(r.choice([0, 1, 2, 3]))
        k = r.random()
        if cobj is not None and k < 0.6:
            conforming.state[0] = 0
            s = b"".join(conforming(r, cobj) for _ in range(r.choice([1, 2, 3])))
            kind = "std-aimed"
        else:
            s = g.stream()
            kind = "std-random"
        if r.random() < 0.25:
            # an oversize claim somewhere inside: header complete, body trickling in
            cut = r.randrange(len(s) + 1)
            s = s[:cut] + tok(r.choice([STRING, LONGINT, LONGNEG]), r.choice([1, 4, 11, 12, 61, 1001, 10 ** 6, 2 ** 448 - 1])) + bytes(r.choice([97, 0, 200]) for _ in range(r.choice([0, 1, 12, 70])))
            kind += "-oversize"
        elif r.random() < 0.3:
            s = mut.mutate(s)
            kind += "-mutated"
        if len(s) > 1200:
            s = s[:1200]
        out.append((cobj, kind, s))
    return out


def ev_code(e):
    k = e[0]
    if k == "deliver":
        return [10] + list(e[1])
    return {"violation": lambda: [11], "pong": lambda: [18, e[1]], "error-sent": lambda: [19], "lose": lambda: [20],
            "receive-error": lambda: [21, {"BananaError": 0, "KeyError": 1}.get(e[1], 2)]}.get(k, lambda: [96])()


def std_correspondence(ctx, I, n, label="C07_std"):
    """real standard unslicers under real constraints vs lib/StdUnsl.v; returns the number of compared traces.
    Also the direct oracle: chunk independence and no escaping exception for these runs."""
    r = ctx.rng
    cases = std_cases(ctx, n)
    runs = []
    for cobj, kind, s in cases:
        if has_unmodelled(s):
            continue
        try:
            cterm = "None" if cobj is None else "(Some %s)" % to_coq(cobj)
        except ValueError:
            continue
        ref = None
        for cs in chunkings(r, len(s), bytewise_limit=250)[:3]:
            ev, snaps, esc, mi = run_std(I, cobj, s, cs)
            ctx.case(["std", repr(cterm)[:2000], list(s), cs], nontrivial=len(ev) > 0)
            ctx.hist("kind", kind)
            if esc:
                ctx.fail("oracle/exception-escaped", "an exception escaped Banana.dataReceived (standard unslicers under constraint %s): %s; stream=%r chunks=%r"
                         % (cterm[:300], esc, list(s), cs[:20]), replay=dict(stream=list(s), chunks=cs, real=True, constraint=cterm))
                break
            last = snaps[-1] if snaps else None
            if last and last["dead"]:
                last = dict(last, buf=0, skip=0)
            final = (ev, last)
            if ref is None:
                ref = final
            elif final != ref:
                ctx.fail("oracle/chunk-dependent", "standard unslicers under constraint %s: behaviour depends on the chunking: whole %r vs %r -> %r; stream=%r"
                         % (cterm[:300], ref, cs[:30], final, list(s)), replay=dict(stream=list(s), chunks=cs, real=True, constraint=cterm))
                break
            runs.append((cterm, s, cs, ev, snaps, mi))
    runs += opentype_edge_runs(ctx, I)
    return model_compare(ctx, runs, label)


def opentype_edge_runs(ctx, I):
    """fixed witnesses (no random choice): OPEN sequences of the opentypes whose unslicers the model does NOT contain -- decimal,
    reference, copyable, set-vocab, add-vocab -- at top level and inside a list, under no constraint / Any / a bounded list / a
    ChoiceOf at the root / a ChoiceOf in a list slot.  What the real code does BEFORE such an unslicer exists is modelled (opentype
    check, registry lookup, the AssertionError of setConstraint) and compared here; where the model abstains the run is counted as
    abstained (marker event 99), never as an abandonment."""
    from foolscap.constraint import ByteStringConstraint, Any
    from foolscap.schema import ListOf, ChoiceOf, UnicodeConstraint
    mk = [("none", lambda: None), ("any", lambda: Any()), ("list-bytes3", lambda: ListOf(ByteStringConstraint(3), maxLength=3)),
          ("list-any", lambda: ListOf(Any(), maxLength=3)),
          ("root-choice", lambda: ChoiceOf(ByteStringConstraint(3), UnicodeConstraint(3))),
          ("list-choice", lambda: ListOf(ChoiceOf(ByteStringConstraint(3), UnicodeConstraint(3)), maxLength=3))]
    bodies = {b"decimal": S(b"1.5"), b"reference": enc_int(0), b"copyable": S(b"no.such.Class"), b"set-vocab": enc_int(3) + S(b"hello"),
              b"add-vocab": enc_int(3) + S(b"hello")}
    out = []
    for cname, f in mk:
        for ot, body in sorted(bodies.items()):
            for where in ("top", "in-list"):
                if where == "top":
                    s = tok(OPEN, 0) + S(ot) + body + tok(CLOSE, 0) + enc_int(7)
                else:
                    s = tok(OPEN, 0) + S(b"list") + tok(OPEN, 1) + S(ot) + body + tok(CLOSE, 1) + S(b"ab") + tok(CLOSE, 0) + enc_int(7)
                for cs in ([len(s)], [1] * len(s)):
                    cobj = f()
                    cterm = "None" if cobj is None else "(Some %s)" % to_coq(cobj)
                    ev, snaps, esc, mi = run_std(I, cobj, s, cs)
                    ctx.case(["std-opentype-edge", cname, ot.decode(), where, len(cs)], nontrivial=True)
                    ctx.hist("kind", "std-opentype-edge")
                    if esc:
                        ctx.fail("oracle/exception-escaped", "an exception escaped Banana.dataReceived (OPEN %s %s under %s): %s" % (ot.decode(), where, cname, esc),
                                 replay=dict(stream=list(s), chunks=cs, real=True, constraint=cterm))
                        continue
                    out.append((cterm, s, cs, ev, snaps, mi))
    return out


def model_compare(ctx, runs, label, sig="correspondence/std-recv"):
    shard = 200
    nbad = skipped = 0
    for si in range(0, len(runs), shard):
        part = runs[si:si + shard]
        lines = []
        for (cterm, s, cs, ev, snaps, mi) in part:
            chunks, pos = [], 0
            for n in cs:
                chunks.append("[" + ";".join(str(b) for b in s[pos:pos + n]) + "]")
                pos += n
            lines.append("strace %d 0 (init (sctx0 %s)) [%s]" % (mi, cterm, "; ".join(chunks)))
        body = "Local Open Scope Z_scope.\nEval vm_compute in [\n%s].\n" % ";\n".join(lines)
        try:
            (vals,) = ctx.coq_eval("%s_%d" % (label, si // shard), body,
                                   requires=["Verif.lib.PyLite", "Verif.gen.BananaGen", "Verif.lib.Token", "Verif.lib.Recv", "Verif.lib.Unsl",
                                             "Verif.lib.StdUnsl"])
        except common.CoqEvalError as e:
            ctx.fail("correspondence-broken", "the standard-unslicer model could not be evaluated: " + str(e)[-1500:], has_input=False)
            return 0
        for (cterm, s, cs, ev, snaps, mi), (mev, msnaps) in zip(part, vals):
            if [99] in mev:
                skipped += 1
                continue
            iev = [ev_code(e) for e in ev]
            try:
                mev = [canon_event(list(e)) for e in mev]
            except Abstain:
                skipped += 1
                continue
            isn = [[x["buf"], x["skip"], x["discard"], x["depth"], int(x["inopen"]), int(x["dead"])] for x in snaps]
            norm = lambda l: [x if not x[5] else [0, 0, 0, 0, 0, 1] for x in l]
            ctx.traces += 1
            if iev != mev or norm(isn) != norm([list(x) for x in msnaps]):
                nbad += 1
                if nbad <= 3:
                    ctx.fail(sig, "standard unslicers: model and implementation disagree under constraint %s: stream=%r chunks=%r\n impl events %r\n model events %r\n"
                             " impl snaps %r\n model snaps %r" % (cterm[:400], list(s), cs[:40], iev, mev, isn[-3:], msnaps[-3:]),
                             replay=dict(stream=list(s), chunks=cs, constraint=cterm, impl=[iev, isn], model=[mev, msnaps]), has_input=False)
    ctx.extra[label + "_traces"] = len(runs)
    ctx.extra[label + "_disagreements"] = nbad
    ctx.extra[label + "_model_abstained"] = skipped
    return len(runs)
