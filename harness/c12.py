"""C12 -- whatever the sender's schema check accepts, the receiver accepts."""
import glob, json, os
from harness import common
from harness.common import coq_list

REQ = ["Verif.lib.PyLite", "Verif.gen.BananaGen", "Verif.gen.SchemaGen", "Verif.lib.Schema"]

EQB = """Local Open Scope Z_scope.
Definition list_eqbw {A} (f : A -> A -> bool) : list A -> list A -> bool :=
  fix go xs ys := match xs, ys with [], [] => true | x :: xs', y :: ys' => f x y && go xs' ys' | _, _ => false end.
Definition zl_eqb := list_eqbw Z.eqb.
Fixpoint obj_eqf (fuel : nat) (a b : obj) {struct fuel} : bool :=
  match fuel with O => false | S fuel =>
  let eq := obj_eqf fuel in
  match a, b with
  | OInt x, OInt y => Z.eqb x y | OFloat x, OFloat y => Z.eqb x y | OBytes x, OBytes y => zl_eqb x y
  | OText x, OText y => zl_eqb x y | OBool x, OBool y => Bool.eqb x y | ONone, ONone => true
  | OPending x, OPending y => Nat.eqb x y
  | ORemote x, ORemote y => zl_eqb x y
  | OList x, OList y | OTuple x, OTuple y => list_eqbw eq x y
  | OSet x, OSet y | OFset x, OFset y =>          (* as sets *)
      forallb (fun e => existsb (eq e) y) x && forallb (fun e => existsb (fun e' => eq e' e) x) y
  | ODict k1 v1, ODict k2 v2 =>
      (List.length k1 =? List.length k2)%nat && (List.length v1 =? List.length v2)%nat &&
      forallb (fun kv => existsb (fun kv2 => eq (fst kv) (fst kv2) && eq (snd kv) (snd kv2)) (combine k2 v2)) (combine k1 v1)
  | _, _ => false
  end end.
Definition obj_eqb := obj_eqf 40.
Fixpoint wobj_eqf (fuel : nat) (a b : wobj) {struct fuel} : bool :=
  match fuel with O => false | S fuel =>
  match a, b with
  | WInt t1 s1 v1, WInt t2 s2 v2 => Z.eqb t1 t2 && Z.eqb s1 s2 && Z.eqb v1 v2
  | WFloat x, WFloat y => Z.eqb x y
  | WStr v1 s1 b1, WStr v2 s2 b2 => Bool.eqb v1 v2 && Z.eqb s1 s2 && zl_eqb b1 b2
  | WOpen o1 k1, WOpen o2 k2 => otype_eqb o1 o2 && list_eqbw (wobj_eqf fuel) k1 k2
  | WRef x, WRef y => obj_eqf 40 x y
  | _, _ => false
  end end.
(* is w a serialization of o (Schema.ser), as a boolean: used to validate the wire trees the harness computes for calls
   in which one container object occurs more than once *)
Fixpoint serf (fuel : nat) (voc : list (list Z)) (o : obj) (w : wobj) {struct fuel} : bool :=
  match fuel with O => false | S fuel =>
  match w with
  | WRef o' => refable o && obj_eqf 40 o o'
  | _ =>
    match o, w with
    | OList l, WOpen OtList ws | OTuple l, WOpen OtTuple ws | OSet l, WOpen OtSet ws | OFset l, WOpen OtFset ws =>
        (List.length l =? List.length ws)%nat && forallb (fun xw => serf fuel voc (fst xw) (snd xw)) (combine l ws)
    | ODict ks vs, WOpen OtDict kids =>
        (List.length kids =? 2 * List.length ks)%nat && (List.length ks =? List.length vs)%nat &&
        forallb (fun xw => serf fuel voc (fst xw) (snd xw)) (combine (interleave ks vs) kids)
    | _, _ => atom o && wobj_eqf 40 w (slice voc o)
    end
  end end.
Definition ser_args (voc : list (list Z)) (a : list obj) (kw : list (Z * obj)) (p : list wobj) (k : list (Z * wobj)) : bool :=
  (List.length a =? List.length p)%nat && forallb (fun xw => serf 40 voc (fst xw) (snd xw)) (combine a p) &&
  (List.length kw =? List.length k)%nat &&
  forallb (fun xw => Z.eqb (fst (fst xw)) (fst (snd xw)) && serf 40 voc (snd (fst xw)) (snd (snd xw))) (combine kw k).
Definition kw_eqb (a b : list (Z * obj)) : bool :=
  list_eqbw (fun x y => Z.eqb (fst x) (fst y) && obj_eqb (snd x) (snd y)) a b.
Definition ccode (r : cv) (a : list obj) (kw : list (Z * obj)) : Z :=
  match r with CInvoke a' kw' => if list_eqbw obj_eqb a a' && kw_eqb kw kw' then 1 else 4 | CViol => 2 | CAbort => 3 | CFail => 5 end.
Definition rcode (r : rv) (o : obj) : Z :=
  match r with RDeliver o' => if obj_eqb o o' then 1 else 4 | RViol => 2 | RAbort => 3 end.
Definition mk (l : list (Z * ctr * bool)) (resp : option ctr) (ign acc : bool) : mschema :=
  {| ms_args := map (fun x => {| a_name := fst (fst x); a_ctr := snd (fst x); a_opt := snd x |}) l; ms_resp := resp;
     ms_ignore := ign; ms_accept := acc |}.
Definition acode (r : av) (o : obj) : Z :=
  match r with Callback v => if obj_eqb v o then 1 else 4 | Errback => 2 | ConnLost => 3 end.
"""

NAMES = ["a", "b", "c"]


def nm(n):
    """an argument name as the model's identifier: Schema.name_code of its bytes (base 256 behind a leading 1)"""
    v = 1
    for b in n.encode():
        v = v * 256 + b
    return v


def tail(s, n=2500):
    return s[-n:]


def ms_term(S, ms):
    """REAL RemoteMethodSchema -> Coq mschema term (reads argumentNames / argConstraints / required; an argument is
    optional iff it is not in `required`; what is enforced on its value is the constraint an Optional wraps)"""
    from foolscap.constraint import Optional
    rows = []
    for n in ms.argumentNames:
        c = ms.argConstraints[n]
        if isinstance(c, Optional):
            c = c.constraint
        rows.append("(%d, %s, %s)" % (nm(n), S.to_ctr(c), "false" if n in ms.required else "true"))
    try:
        resp = "None" if ms.responseConstraint is None else "(Some %s)" % S.to_ctr(ms.responseConstraint)
    except ValueError:
        resp = "None"
    return "(mk [%s] %s %s %s)" % ("; ".join(rows), resp, "true" if ms.ignoreUnknown else "false", "true" if ms.acceptUnknown else "false")


def effective_argspec(inherit):
    """the declaration that governs inherit["meth"] for a target implementing interface number inherit["level"] of the
    chain (root first; a layer is a list of [method name, argspec]): the one of the most derived interface at or below
    that level that declares the name itself; None: no interface of the resolution order declares it"""
    for i in range(inherit["level"], -1, -1):
        for name, argspec in inherit["chain"][i]:
            if name == inherit["meth"]:
                return [tuple(x) for x in argspec]
    return None


def wrap_in_chain(S, argspec, irng):
    """the declaration argspec of method m placed in a chain of RemoteInterfaces in which ANOTHER declaration of m (every
    constraint perturbed) stands above or below it, so that argspec stays the declaration in force: it overrides the
    other one / it is the base of a sub-interface the target does not implement / it is inherited through a leaf that
    only adds a method.  -> inherit dict (chain, level, meth)"""
    other = [(n, S.perturb(cs, irng), opt) for n, cs, opt in argspec]
    how = irng.choice(["overrides", "base-of-unused-override", "inherited-through-leaf"])
    if how == "overrides":
        chain, level = [[["m", other]], [["m", argspec]]], 1
    elif how == "base-of-unused-override":
        chain, level = [[["m", argspec]], [["m", other]]], 0
    else:
        chain, level = [[["m", other]], [["m", argspec]], [["n", other]]], 2
    return dict(tag="gen-" + how, chain=chain, level=level, meth="m")


def run(ctx):
    ctx.rule = ("(method schema of 1-3 arguments built through the public vocabulary, argument values obtained by inverting "
                "checkObject and sitting on the 2^31 / 2^(8*maxBytes) / maxLength / maxKeys / arity boundaries, plus "
                "near-misses generated for a perturbed constraint), plus text that every UnicodeConstraint accepts but that has no "
                "UTF-8 form (lone surrogates) and its encodable neighbours in every kind of slot, as argument and as result, plus "
                "RemoteInterfaces that derive from one another (re-declared / inherited / added methods, every level); each is a real "
                "callRemote over a loopback Broker pair "
                "sharing the RemoteInterface; non-trivial = the sender's check accepted and something crossed the wire")
    ctx.assumptions = ["text without a UTF-8 form (a str holding a lone surrogate) passes the schema check but has no serialized form: "
                       "'refused locally by the sender' = a Violation for that one call while it is serialized, nothing delivered, "
                       "connection usable (Schema.send_call = None; C12_unencodable_*)",
                       "sharing: repeats of one list/tuple/set/dict object inside a call travel as references (Schema.ser, "
                       "C12_every_serialization); cyclic values are outside the honest-sender theorems",
                       "vocabulary: the model's slice takes the connection's vocabulary as a parameter (VOCAB tokens carry the index)",
                       "regexp constraints, Copyable constraints, Shared and the OUTBOUND side of RemoteInterface constraints "
                       "(live Referenceables) are outside the model",
                       "TLS/negotiation replaced by a loopback Broker pair (foolscap.test.common.Loopback)"]
    ok, log = ctx.coq_build(["props/C12.vo"])
    known = common.load_known()

    def unknown_failures():
        return [f for f in ctx.failures if not ((ctx.pid, f["sig"]) in known and known[(ctx.pid, f["sig"])]["status"] == "known"
                                                and f["has_input"])]
    from harness import schema_impl as S
    from harness import implenv as E
    with E.quiet():
        cases = oracle(ctx, S, E)
        try:
            results = result_cases(ctx, S, E)
        except Exception as e:
            import traceback
            results = []
            ctx.fail("oracle/implementation-raised", "returning text through a result constraint raised %s: %s" % (type(e).__name__, str(e)[:300]),
                     replay=dict(traceback=traceback.format_exc()[-1500:]))
        diff = differential(ctx, S, E)
    model_ok = ok
    if not ok:
        ok2, _ = ctx.coq_build(["lib/Schema.vo"])
        model_ok = ok2
    if model_ok:
        correspond(ctx, S, cases, diff, results)
    else:
        ctx.note("model does not build: correspondence skipped")
    if not ok and not unknown_failures():
        ctx.fail("proof-broken", "theorem closure props/C12.vo no longer builds against the regenerated gen/SchemaGen.v: "
                 + tail(log), replay=dict(log=tail(log, 6000)), has_input=False)


# ---------------------------------------------------------------------------------------------------------------
def one_call(S, E, argspec, args_vs, kwargs_vs, vocab=0, direct=False, per_instance=False, echo=False, preamble=False, flag=None,
             inherit=None):
    """argspec: [(name, cs, optional?)]; -> dict(sender_ok, outcome, delivered, ms term, region set)
    flag: "__ignoreUnknown__" | "__acceptUnknown__" given to RemoteMethodSchema( **constraints ) as True
    inherit: dict(chain, level, meth) -- both ends share interface number `level` of a chain of RemoteInterfaces deriving from
    one another (root first; a layer is a list of [method name, argspec]); argspec is the declaration in force for meth"""
    def build_args(spec):
        cons_ = []
        for n, cs, opt in spec:
            c = S.build(cs)
            cons_.append(S.schema.Optional(c, None) if opt else c)
        return [n for n, _, _ in spec], cons_
    names_, cons = build_args(argspec)
    if flag:
        names_, cons, direct = names_ + [flag], cons + [True], True
    world_kw = {}
    if inherit:
        world_kw = dict(chain=[{name: build_args([tuple(x) for x in spec]) + (None,) for name, spec in layer} for layer in inherit["chain"]],
                        level=inherit["level"], meth=inherit["meth"])
    # echo: the method returns its (single) argument and the interface declares the argument's constraint as the
    # result constraint too: "and symmetrically for results"
    w = S.World(names_, cons, cons[0] if echo else None, vocab=vocab, direct=direct,
                per_instance=per_instance, echo=echo, **world_kw)
    memo = {}
    args = tuple(S.to_py(v, memo) for v in args_vs)
    kwargs = {n: S.to_py(v, memo) for n, v in kwargs_vs}
    sender_exc = None
    try:
        w.ms.checkAllArgs(args, kwargs, False)
        sender_ok = True
    except S.Violation:
        sender_ok = False
    except AttributeError as e:
        # an undeclared keyword under __ignoreUnknown__ / __acceptUnknown__: None.checkObject (C02's finding
        # oracle/unknown-flag-attributeerror); for C12 the sender's check simply did not accept
        if not flag:
            raise
        sender_ok, sender_exc = False, "AttributeError"
    if preamble:
        # history on this connection: a call that the receiver refuses in the middle and whose remaining tokens it
        # discards.  What follows on the connection must be treated exactly as on a fresh one.
        pre = w.refused_call()
        if not (pre[0][0].startswith("violation") and pre[1] == 0):
            raise RuntimeError("the history call was not refused with a Violation: %r" % (pre,))
    sent = []
    real_write = w.cb.transport.write

    def spy(data):
        sent.append(len(data))
        real_write(data)
    w.cb.transport.write = spy
    res = w.call(args, kwargs)
    out = S.outcome_of(res)
    calls = w.target.calls
    r = dict(sender_ok=sender_ok, sent=bool(sent), alive=w.alive(), ncalls=len(calls), detail=out[1] if out[0] != "ok" else None)
    r["echo"] = None
    if echo and len(calls) == 1:
        r["echo"] = ("ok", S.canon(out[1])) if out[0] == "ok" else (out[0], out[1])
    if (out[0] == "ok" or echo) and len(calls) == 1 and w.alive() | echo:
        r["outcome"] = "delivered"
        r["delivered"] = ([S.canon(x) for x in calls[0][1]], sorted([n, S.canon(v)] for n, v in calls[0][2].items()))
    elif out[0] == "dead" or not w.alive():
        r["outcome"] = "dead"
    elif out[0] == "violation-local" and not S.is_remote_failure(res[0]):
        # raised locally (not a CopiedFailure): by callRemote's own schema check, or -- when that check accepted -- while
        # the arguments were being serialized (the slicer of one object refused it: the sequence is ABORTed)
        r["outcome"] = "sender-rejects" if not sender_ok else "serialization-refused"
        if sender_ok:
            r["usable_after"] = w.probe()            # a sibling call on the same connection still works
    elif sender_exc and out[0] == "exc" and sender_exc in str(out[1]) and not sent:
        r["outcome"] = "sender-rejects"          # ... with the AttributeError of the unknown-argument flags; nothing was sent
    elif out[0] in ("violation-local", "violation-remote"):
        r["outcome"] = "receiver-rejects"
    else:
        r["outcome"] = "other:%s" % (out,)
    r["ms"] = ms_term(S, w.ms)
    r["vocab"] = vocab
    r["flag"] = flag
    return r


def judge(ctx, S, tag, argspec, args_vs, kwargs_vs, r, inherit=None):
    """the property, on the real code only"""
    reg = set()
    byname = {n: cs for n, cs, _ in argspec}
    for (n, cs, _), v in zip(argspec, args_vs):
        reg |= S.regions(cs, S.canon_vs(v))
    for n, v in kwargs_vs:
        if n in byname:
            reg |= S.regions(byname[n], S.canon_vs(v))
    if any(S.unencodable(v) for v in args_vs) or any(S.unencodable(v) for _, v in kwargs_vs):
        reg.add("unencodable-text")
    case = dict(argspec=argspec, args=args_vs, kwargs=kwargs_vs)
    if inherit:
        case["inherit"] = inherit
    want_args = ([S.canon_vs(v) for v in args_vs], sorted([n, S.canon_vs(v)] for n, v in kwargs_vs))
    if r["sender_ok"] and r["outcome"] == "delivered" and r.get("echo") is not None and r["delivered"] == want_args:
        # symmetric direction: the target's outbound result check accepted the very same value under the very same
        # constraint (it just passed the inbound one): the caller must get it
        if r["echo"] != ("ok", want_args[0][0]):
            ctx.fail("oracle/result-not-delivered", "the argument was delivered and returned unchanged under the same constraint, "
                     "but the caller got %r: %r" % (r["echo"], str(case)[:800]), replay=case)
        ctx.hist("echoed_result", "ok" if r["echo"][0] == "ok" else str(r["echo"][0]))
    if r["sender_ok"]:
        if r["outcome"] == "delivered":
            if r["delivered"] != want_args:
                ctx.fail("oracle/delivered-differs", "the call was delivered with other arguments than were sent: %r -> %r (%s)"
                         % (want_args, r["delivered"], tag), replay=case)
        elif r["outcome"] == "dead":
            if "choice-opener" in reg:
                ctx.fail("oracle/choiceof-container-drops-connection",
                         "sender's check accepted, the connection was lost: %r" % (case,), replay=case)
            elif "opt-opener" in reg:
                ctx.fail("oracle/optional-container-drops-connection",
                         "sender's check accepted, the connection was lost: %r" % (case,), replay=case)
            else:
                ctx.fail("oracle/receiver-drops-connection", "the sender's schema check accepted the arguments but the "
                         "connection was lost while the receiver decoded them: %r (%s)" % (case, r["detail"]), replay=case)
        elif r["outcome"] == "serialization-refused" and "unencodable-text" in reg:
            # text holding a lone surrogate has no UTF-8 form, hence no serialized form: "refused locally by the sender" --
            # with a Violation for that one call, nothing delivered, the connection still usable
            if r["ncalls"] or not r.get("usable_after"):
                ctx.fail("oracle/serialization-refusal-not-clean", "text without a UTF-8 form was refused while the call was being "
                         "serialized, but %s: %r" % ("the method ran %d time(s)" % r["ncalls"] if r["ncalls"] else
                                                     "the connection no longer serves other calls", case), replay=case)
        elif r["outcome"] == "receiver-rejects":
            if "any-huge-int" in reg:
                ctx.fail("oracle/any-rejects-huge-int", "sender's check accepted, receiver raised %s: %r"
                         % (r["detail"], str(case)[:300]), replay=dict(note="int >= 2**8000 under Any"))
            else:
                ctx.fail("oracle/receiver-rejects", "the sender's schema check accepted the arguments but the receiver "
                         "answered with a Violation: %r: %s" % (case, r["detail"]), replay=case)
        else:
            ctx.fail("oracle/not-delivered", "sender's check accepted but the outcome is %s: %r" % (r["outcome"], case), replay=case)
    else:
        if r["outcome"] != "sender-rejects":
            ctx.fail("oracle/sender-check-not-applied", "checkAllArgs(outbound) rejects but callRemote produced %s: %r"
                     % (r["outcome"], case), replay=case)
    ctx.hist("outcome", r["outcome"])
    ctx.hist("regions", ",".join(sorted(reg)) or "-")


_copy_counter = [0]


def late_registration(ctx, S, E):
    """registrations that happen while a connection is already up: a RemoteCopy class registered before / after the
    Broker pair was connected, whose type name is shorter than, as long as, one longer than and much longer than every
    name registered so far; the Copyable travels under Any() (bare, in a list, as a dict value).  The sender's check
    accepts it, so it must be delivered whenever the class was registered by the time the value arrives.
    (Copyables are outside the Coq model: oracle only.)"""
    from foolscap import copyable, schema
    for when in ("before", "after"):
        longest = max(len(n) for n in copyable.CopyableRegistry)
        for length in (10, longest, longest + 1, longest + 17):
            for shape in ("bare", "list", "dict"):
                _copy_counter[0] += 1
                name = ("verif.copy%03d." % _copy_counter[0]).ljust(length, "x")[:max(length, 14)]

                class C(copyable.Copyable):
                    typeToCopy = name

                    def __init__(self, v):
                        self.v = v

                class RC(copyable.RemoteCopy):
                    copytype = None

                    def setCopyableState(self, state):
                        self.__dict__.update(state)
                cs = {"bare": ["any"], "list": ["list", ["any"], None, 0], "dict": ["dict", ["py", "bytes"], ["any"], None]}[shape]
                if when == "before":
                    copyable.registerRemoteCopy(name, RC)
                w = S.World(["a"], [S.build(cs)], None, vocab=1)
                if when == "after":
                    copyable.registerRemoteCopy(name, RC)
                val = {"bare": C(7), "list": [C(7)], "dict": {b"k": C(7)}}[shape]
                try:
                    w.ms.checkAllArgs((val,), {}, False)
                    sender_ok = True
                except S.Violation:
                    sender_ok = False
                res = w.call((val,), {})
                out = S.outcome_of(res)
                got = w.target.calls[0][1][0] if w.target.calls else None
                inner = got if shape == "bare" else (got[0] if shape == "list" and got else (got.get(b"k") if shape == "dict" and got else None))
                ok = isinstance(inner, RC) and getattr(inner, "v", None) == 7
                case = dict(registered=when + " the connection was made", type_name=name, name_length=len(name), constraint=cs)
                ctx.case(["late-registration", when, length, shape], nontrivial=True)
                ctx.hist("late_registration", "delivered" if ok else str(out[0]))
                if sender_ok and not ok:
                    ctx.fail("oracle/receiver-rejects" if w.alive() else "oracle/receiver-drops-connection",
                             "the sender's check accepted a Copyable whose RemoteCopy class was registered %s the connection was made "
                             "(type name of %d bytes) but it was not delivered: %r; %r" % (when, len(name), out, case), replay=case)


FIXED = [
    # (tag, argspec, args, kwargs)
    ("d7a", [("a", ["choice", [["list", ["py", "int"], None, 0], ["tuple", [["py", "int"], ["py", "int"]]]]], False)],
     [["l", [["i", 1], ["i", 2]]]], []),
    ("anystring-text", [("a", ["choice", [["bytes", None, 0], ["text", None, 0]]], False)], [["t", [97, 98]]], []),
    ("optional-container", [("a", ["list", ["opt", ["py", "int"]], None, 0], False)], [["l", [["l", [["i", 1]]]]]], []),
    ("any-huge-int", [("a", ["any"], False)], [["i", 2 ** 8001]], []),
    ("any-huge-neg", [("a", ["list", ["any"], None, 0], False)], [["l", [["i", -(2 ** 8001)]]]], []),
    ("d7b-frozenset-fixed", [("a", ["set", ["py", "int"], 3, None], False)], [["fs", [["i", 1], ["i", 2]]]], []),
    ("d7c-bool-under-int-fixed", [("a", ["py", "int"], False)], [["B", True]], []),
    ("int32-top", [("a", ["int", -1], False)], [["i", 2 ** 31 - 1]], []),
    ("int32-bottom", [("a", ["int", -1], False)], [["i", -2 ** 31]], []),
    ("int32-over", [("a", ["int", -1], False)], [["i", 2 ** 31]], []),
    ("int4-top", [("a", ["int", 4], False)], [["i", 2 ** 32 - 1]], []),
    ("int4-bottom", [("a", ["int", 4], False)], [["i", -(2 ** 32 - 1)]], []),
    ("int1024-top", [("a", ["py", "int"], False)], [["i", 2 ** 8192 - 1]], []),
    ("int1024-over", [("a", ["py", "int"], False)], [["i", 2 ** 8192]], []),
    ("choice-none", [("a", ["choice", [["py", "int"], ["none"]]], False)], [["N"]], []),
    ("choice-int", [("a", ["choice", [["py", "int"], ["none"]]], False)], [["i", 2 ** 40]], []),
    ("kw-optional-omitted", [("a", ["py", "int"], False), ("b", ["py", "str"], True)], [["i", 1]], []),
    ("kw-optional-given", [("a", ["py", "int"], False), ("b", ["py", "str"], True)], [["i", 1]], [["b", ["t", [233]]]]),
    ("text-chars-not-bytes", [("a", ["text", 3, 0], False)], [["t", [8364, 8364, 8364]]], []),
    ("dict-maxkeys", [("a", ["dict", ["py", "int"], ["py", "str"], 2], False)], [["d", [[["i", 1], ["t", []]], [["i", 2], ["t", [97]]]]]], []),
    ("tuple-arity", [("a", ["tuple", [["py", "int"], ["py", "bytes"]]], False)], [["T", [["i", 1], ["b", [0]]]]], []),
    ("set-maxlen", [("a", ["set", ["py", "int"], 2, True], False)], [["s", [["i", 1], ["i", 2]]]], []),
]


def remote_outbound(ctx, S, E):
    """RemoteInterface arguments with the REAL sender: both ends share m(a=<declared>), the caller passes a live
    Referenceable implementing <implemented>, over the family RIVBase <- RIVDerived <- RIVSub, RIVOther, RemoteInterface.
    (The Coq model has the receiver's view of such values only: oracle only.)"""
    S.family()
    for decl in ("RIVBase", "RIVDerived", "RIVSub", "RIVOther"):
        for impl in ("RIVBase", "RIVDerived", "RIVSub", "RIVOther", None):
            w = S.World(["a"], [S.build(["remote", decl])], None, shared_iface=True)
            obj = S.referenceable_claiming(impl)
            try:
                w.ms.checkAllArgs((obj,), {}, False)
                sender_ok = True
            except S.Violation:
                sender_ok = False
            res = w.call((obj,), {})
            out = S.outcome_of(res)
            delivered = len(w.target.calls) == 1 and out[0] == "ok"
            case = dict(declared=decl, implemented=impl, sender="callRemote through the shared RemoteInterface")
            ctx.case(["remote-outbound", decl, impl], nontrivial=sender_ok)
            ctx.hist("remote_outbound", "%s/%s" % ("sender-accepts" if sender_ok else "sender-rejects", "delivered" if delivered else out[0]))
            if sender_ok and not delivered:
                sub = impl is not None and impl != decl and decl in S.FAMILY_PARENTS.get(impl, [])
                if not w.alive():
                    sig = "oracle/receiver-drops-connection"
                elif sub and out[0].startswith("violation"):
                    sig = "oracle/remote-subinterface-rejected"
                else:
                    sig = "oracle/receiver-rejects"
                ctx.fail(sig, "the sender's check accepted a Referenceable implementing %s for an argument declared %s (shared "
                         "RemoteInterface), but the call was not delivered: %r" % (impl, decl, out), replay=case)
            if not sender_ok and (w.target.calls or out[0] != "violation-local"):
                ctx.fail("oracle/sender-check-not-applied", "checkAllArgs(outbound) rejects but callRemote produced %r: %r" % (out, case), replay=case)


# text that every UnicodeConstraint accepts (checkObject counts code points) but that has no UTF-8 form: 'caf\udce9.t' as
# os.fsdecode / surrogateescape produce it for a latin-1 file name, a lone high / low surrogate at either end of the
# range, two lone surrogates in "pair" order (python does not join them), two escaped bytes in a row ...
UNENCODABLE = [[99, 97, 102, 0xDCE9, 46, 116], [0xD800], [0xDFFF], [97, 0xDBFF, 0xDC00], [0xDC80, 0xDC81, 122]]
# ... and their encodable neighbours, which must be delivered: U+D7FF, U+E000, U+FFFF, U+10000, U+10FFFF
ENCODABLE_EDGE = [[0xD7FF, 0xE000], [0xFFFF, 0x10000, 0x10FFFF], [233, 8364, 0x1F600]]


def text_slots(cps):
    """one text in every kind of slot a UnicodeConstraint can govern: bare (str, exactly maxLength, exactly minLength), under
    Any, as first / middle / last member of a list, in a tuple, as dict value and dict key, in a mutable and an immutable
    set, two levels down, by keyword, as an Optional argument.  -> [(argspec, args, kwargs)]"""
    t, n = ["t", cps], len(cps)
    ok, i1 = ["t", [111, 107]], ["i", 1]
    A = lambda cs, opt=False: [("a", cs, opt)]
    st = ["py", "str"]
    return [
        (A(st), [t], []), (A(["text", n, 0]), [t], []), (A(["text", None, n]), [t], []), (A(["any"]), [t], []),
        (A(["list", st, 3, 0]), [["l", [t, ok, ok]]], []), (A(["list", st, None, 0]), [["l", [ok, t, ok]]], []),
        (A(["list", ["text", n, 0], None, 0]), [["l", [ok, t]]], []),
        (A(["tuple", [["py", "int"], st]]), [["T", [i1, t]]], []),
        (A(["dict", ["py", "bytes"], st, None]), [["d", [[["b", [107]], t]]]], []),
        (A(["dict", st, ["py", "int"], 2]), [["d", [[t, i1]]]], []),
        (A(["set", st, None, True]), [["s", [t]]], []), (A(["set", st, 2, False]), [["fs", [t, ok]]], []),
        (A(["dict", ["py", "bytes"], ["tuple", [["py", "int"], ["list", st, None, 0]]], None]), [["d", [[["b", [107]], ["T", [i1, ["l", [t]]]]]]]], []),
        (A(["any"]), [["l", [["d", [[t, ["l", [t]]]]]]]], []),
        ([("a", ["py", "int"], False), ("b", st, False)], [i1], [["b", t]]),
        ([("a", ["py", "int"], False), ("b", ["list", st, None, 0], True)], [i1], [["b", ["l", [t]]]]),
        ([("a", ["py", "int"], False), ("b", st, True)], [i1, t], []),
    ]


INHERIT_CALLS = [
    # (tag, chain (root first; what each RemoteInterface declares itself), [(method, args, kwargs)..]): honest calls that conform
    # to the declaration in force at SOME level; each is made at every level, where the sender's check decides
    ("looser", [[["m", [("a", ["int", -1], False)]]], [["m", [("a", ["int", 8], False)]]]],
     [("m", [["i", 2 ** 39]], []), ("m", [["i", 5]], []), ("m", [], [["a", ["i", -(2 ** 63)]]])]),
    ("retyped", [[["m", [("a", ["py", "int"], False)]]], [["m", [("a", ["list", ["py", "int"], 2, 0], False)]]]],
     [("m", [["l", [["i", 5], ["i", 2 ** 40]]]], []), ("m", [["i", 5]], [])]),
    ("argument-added", [[["m", [("a", ["py", "int"], False)]]], [["m", [("a", ["py", "int"], False), ("b", ["py", "bytes"], False)]]]],
     [("m", [["i", 5], ["b", [1]]], []), ("m", [["i", 5]], [["b", ["b", [1]]]]), ("m", [["i", 5]], [])]),
    ("argument-removed", [[["m", [("a", ["py", "int"], False), ("b", ["py", "int"], False)]]], [["m", [("a", ["py", "int"], False)]]]],
     [("m", [["i", 5]], []), ("m", [["i", 5], ["i", 6]], [])]),
    ("optional-loosened", [[["m", [("a", ["py", "int"], False), ("b", ["bytes", 1, 0], True)]]],
                           [["m", [("a", ["py", "int"], False), ("b", ["bytes", 3, 0], True)]]]],
     [("m", [["i", 5]], [["b", ["b", [1, 2, 3]]]]), ("m", [["i", 5], ["b", [1, 2]]], []), ("m", [["i", 5]], [])]),
    ("inherited-and-added", [[["m", [("a", ["bytes", 3, 0], False)]]], [["n", [("a", ["bytes", 20, 0], False)]]]],
     [("m", [["b", [1, 2, 3]]], []), ("n", [["b", [7] * 20]], [])]),
    ("override-in-the-middle", [[["m", [("a", ["bytes", 3, 0], False)]]], [["m", [("a", ["bytes", 20, 0], False)]]], [["n", [("a", ["py", "int"], False)]]]],
     [("m", [["b", [7] * 20]], []), ("m", [["b", [7] * 3]], []), ("n", [["i", 5]], [])]),
    ("override-at-the-leaf", [[["m", [("a", ["bytes", 3, 0], False)]], ["n", [("a", ["int", -1], False)]]], [], [["m", [("a", ["list", ["py", "str"], 2, 0], False)]]]],
     [("m", [["l", [["t", [233]], ["t", []]]]], []), ("m", [["b", [1]]], []), ("n", [["i", -2 ** 31]], [])]),
]


def inject_surrogate(vs, rng):
    """-> a copy of the value spec in which one text got a lone surrogate in place of / next to one of its characters, or
    None when the value holds no text"""
    import copy
    vs = copy.deepcopy(vs)
    texts = []

    def walk(x):
        if x[0] == "t":
            texts.append(x)
        elif x[0] in ("l", "T", "s", "fs"):
            for y in x[1]:
                walk(y)
        elif x[0] == "d":
            for a, b in x[1]:
                walk(a)
                walk(b)
        elif x[0] == "sh":
            walk(x[2])
    walk(vs)
    if not texts:
        return None
    t = rng.choice(texts)
    sur = rng.choice([0xD800, 0xDBFF, 0xDC00, 0xDCE9, 0xDFFF])
    if t[1]:
        t[1][rng.randrange(len(t[1]))] = sur            # same number of characters: the length limits still hold
    else:
        return None
    return vs


def result_cases(ctx, S, E):
    """"and symmetrically for results": the target returns text that its result constraint accepts -- without a UTF-8
    form, and the encodable neighbours -- bare, in a list, as a dict value, under Any.  Encodable: the callback gets it.
    Not encodable: that one answer is refused on the target's side (the caller's Deferred fails with a Violation), the
    connection stays usable.  -> records for the correspondence (send_answer / recv_answer)"""
    from foolscap.constraint import IConstraint
    recs = []
    for cps in UNENCODABLE + ENCODABLE_EDGE:
        t, n = ["t", cps], len(cps)
        for cs, vs in [(["py", "str"], t), (["text", n, 0], t), (["list", ["py", "str"], None, 0], ["l", [["t", [111]], t]]),
                       (["dict", ["py", "bytes"], ["py", "str"], None], ["d", [[["b", [107]], t]]]), (["any"], ["T", [t, ["i", 1]]])]:
            val = S.to_py(vs)
            resp = S.build(cs)
            w = S.World([], [], resp, result=val, vocab=ctx.rng.choice([0, 1]))
            try:
                w.ms.checkResults(val, False)
                sender_ok = True
            except S.Violation:
                sender_ok = False
            res = w.call((), {})
            out = S.outcome_of(res)
            bad = S.unencodable(vs)
            case = dict(direction="result", result_constraint=cs, value=vs)
            ctx.case(["c12-result", cs, vs], nontrivial=sender_ok)
            ctx.hist("result_text", "%s/%s" % ("unencodable" if bad else "encodable", out[0] if w.alive() else "dead"))
            if not sender_ok:
                ctx.fail("oracle/checkObject-vs-documented-meaning", "checkResults refuses text within the length limits: %r" % (case,), replay=case)
                continue
            if not w.alive() or out[0] == "dead":
                code = 3
                ctx.fail("oracle/receiver-drops-connection", "the target's result check accepted the value but the connection was lost "
                         "while the caller decoded the answer: %r (%s; receive errors %r)" % (case, out[1], w.recv_errors), replay=case)
            elif out[0] == "ok":
                code = 1 if S.canon(out[1]) == S.canon_vs(vs) else 4
                if code == 4:
                    ctx.fail("oracle/delivered-differs", "the callback got another value than the method returned: %r -> %r"
                             % (case, S.canon(out[1])), replay=case)
            elif out[0] in ("violation-local", "violation-remote"):
                code = "V"
                if not bad:
                    ctx.fail("oracle/result-not-delivered", "the target's result check accepted the value but the caller got %r: %r"
                             % (out, case), replay=case)
                elif not w.probe():
                    ctx.fail("oracle/serialization-refusal-not-clean", "an answer holding text without a UTF-8 form was refused, but the "
                             "connection no longer serves other calls: %r" % (case,), replay=case)
            else:
                code = 0
                ctx.fail("oracle/result-not-delivered", "the target's result check accepted the value but the caller got %r: %r"
                         % (out, case), replay=case)
            recs.append(dict(case=case, ms=ms_term(S, w.ms), obj=S.to_obj(S.canon_vs(vs)), vocab=w.vocab, code=code))
    return recs


def oracle(ctx, S, E):
    cases = []
    rng = ctx.rng

    def do(tag, argspec, args_vs, kwargs_vs, vocab=None, direct=None, per_instance=None, flag=None, inherit=None):
        if vocab is None:
            vocab = ctx.rng.choice([0, 1, 1])          # both initial vocab tables a negotiated connection can have
        if direct is None:
            direct = ctx.rng.random() < 0.4            # both public ways of declaring the method schema
        if per_instance is None:                       # interface declared on the instance; one python class per group
            per_instance = ("c%d" % ctx.rng.randrange(6)) if ctx.rng.random() < 0.3 else False
        echo = len(argspec) == 1 and len(args_vs) == 1 and not argspec[0][2] and ctx.rng.random() < 0.5 and not inherit
        preamble = ctx.rng.random() < (0.6 if tag == "shared" else 0.25)
        ctx.hist("after_a_refused_call", preamble)
        ctx.hist("vocab_table", vocab)
        ctx.hist("schema_declared_by", "RemoteMethodSchema(**kwargs)" if direct else "prototype function")
        ctx.hist("interface_declared_on", "instance" if per_instance else "class")
        ctx.hist("interface_inheritance", "%s, level %d of %d" % (inherit["tag"], inherit["level"], len(inherit["chain"])) if inherit else "-")
        try:
            r = one_call(S, E, argspec, args_vs, kwargs_vs, vocab, direct, per_instance, echo, preamble, flag, inherit)
        except Exception as e:
            import traceback
            ctx.fail("oracle/implementation-raised", "building the schema or calling through it raised %s: %r; case %s"
                     % (type(e).__name__, str(e)[:300], str(dict(argspec=argspec, args=args_vs, kwargs=kwargs_vs))[:600]),
                     replay=dict(argspec=argspec, args=args_vs, kwargs=kwargs_vs, traceback=traceback.format_exc()[-1500:]))
            cases.append(None)
            return
        judge(ctx, S, tag, argspec, args_vs, kwargs_vs, r, inherit)
        nontriv = r["sender_ok"] and r["sent"]
        ctx.case(["c12", argspec, args_vs, kwargs_vs, flag, inherit], nontrivial=nontriv)
        ctx.sample(dict(argspec=argspec, args=str(args_vs)[:200], kwargs=str(kwargs_vs)[:100], outcome=r["outcome"]))
        cases.append(dict(tag=tag, argspec=argspec, args=args_vs, kwargs=kwargs_vs, r=r))
    # corpus (regression witnesses) first
    for p in sorted(glob.glob(os.path.join(common.VERIF, "corpus", "C12", "*.json"))):
        w = json.load(open(p))
        for voc_ in (0, 1):                          # both initial vocab tables
            do("corpus:" + os.path.basename(p), [tuple(x) for x in w["argspec"]], w["args"], w["kwargs"], voc_)
            want = w.get("expect")
            if want and cases[-1] is not None and cases[-1]["r"]["outcome"] != want:
                ctx.fail("oracle/regression-" + os.path.basename(p)[:-5], "corpus witness %s (vocab table %d): expected %s, got %s"
                         % (p, voc_, want, cases[-1]["r"]["outcome"]), replay=w)
    for tag, argspec, a, kw in FIXED:
        do(tag, argspec, a, kw, 0)
        do(tag, argspec, a, kw, 1)
    # every word of the negotiated vocabulary under byte-string limits below / at / above its table index and its length
    words = S.vocab_words(1)
    for i, wd in enumerate(words):
        for lim in sorted({len(wd), max(len(wd), i) , max(len(wd), i - 1), 20, 10}):
            if lim >= len(wd):
                do("vocab-word", [("a", ["bytes", lim, 0], False), ("b", ["list", ["bytes", lim, 0], 30, 0], True)],
                   [["b", list(wd)]], [["b", ["l", [["b", list(wd)], ["b", [120]]]]]], 1)
    do("vocab-text", [("a", ["text", 4, 0], False), ("b", ["dict", ["bytes", 8, 0], ["bytes", 8, 0], None], False)],
       [["t", list(b"list")], ["d", [[["b", list(b"call")], ["b", list(b"function")]]]]], [], 1)
    # ChoiceOf: every ordered pair of alternatives, a value of each alternative that the guard region covers (a single
    # token or None): tasting must reach the alternative that accepts it whatever stands before or after it (strict
    # tasters of str/bool/None included), bare and as a list item
    alts = [(["py", "str"], None), (["py", "bool"], None), (["none"], ["N"]), (["py", "int"], ["i", 2 ** 40]), (["int", -1], ["i", -5]),
            (["py", "bytes"], ["b", [1, 2]]), (["bytes", 10, 0], ["b", list(b"call")]), (["py", "float"], ["f", S.bits_of_f(1.5)]),
            (["number", None], ["i", 2 ** 70]), (["list", ["py", "int"], None, 0], None), (["any"], ["i", 7])]
    for ca, va in alts:
        for cb, vb in alts:
            if ca is cb:
                continue
            for v in (va, vb):
                if v is None:
                    continue
                ch = ["choice", [ca, cb]]
                do("choice-order", [("a", ch, False), ("b", ["list", ch, None, 0], True)], [v], [["b", ["l", [v, v]]]], 1)
    # Optional arguments of every container / leaf kind, given and omitted, by position and by keyword, with the method
    # schema declared through BOTH constructor paths
    for kind in S.CONTAINER_KINDS + ["text", "bool", "none", "int"]:
        x = S.gen_container_cs(rng, kind) if kind in S.CONTAINER_KINDS else {"text": ["py", "str"], "bool": ["py", "bool"],
                                                                               "none": ["none"], "int": ["int", -1]}[kind]
        v = S.gen_value(x, rng)
        for direct in (False, True):
            spec = [("a", ["py", "int"], False), ("b", x, True)]
            do("optional-arg", spec, [["i", 1], v], [], None, direct)
            do("optional-arg", spec, [["i", 1]], [["b", v]], None, direct)
            do("optional-arg", spec, [["i", 1]], [], None, direct)
            do("optional-arg", [("a", x, True)], [], [["a", v]], None, direct)
    # method schemas carrying __ignoreUnknown__ / __acceptUnknown__: declared arguments go through as always (positional,
    # keyword, Optional omitted); an undeclared keyword never passes the SENDER's check (it raises), so nothing is sent
    for flag in ("__ignoreUnknown__", "__acceptUnknown__"):
        spec = [("a", ["py", "int"], False), ("b", ["list", ["py", "bytes"], 2, 0], True)]
        do("unknown-flag", spec, [["i", 2 ** 40]], [], None, True, None, flag)
        do("unknown-flag", spec, [], [["a", ["i", -1]], ["b", ["l", [["b", [1]]]]]], None, True, None, flag)
        do("unknown-flag", spec, [["i", 1], ["l", []]], [], None, True, None, flag)
        do("unknown-flag", spec, [["i", 1]], [["z", ["i", 5]]], None, True, None, flag)
        do("unknown-flag", spec, [], [["a", ["i", 1]], ["z", ["l", [["i", 5]]]]], None, True, None, flag)
        do("unknown-flag", spec, [["t", [120]]], [], None, True, None, flag)
    # text without a UTF-8 form (and its encodable neighbours) in every kind of slot a UnicodeConstraint governs
    for i, cps in enumerate(UNENCODABLE + ENCODABLE_EDGE):
        for j, (spec, a, kw) in enumerate(text_slots(cps)):
            do("text-form", spec, a, kw, (i + j) % 2)
    # both ends share a RemoteInterface that derives from another one and re-declares / inherits / adds methods
    for tag, chain, calls_ in INHERIT_CALLS:
        for level in range(len(chain)):
            for meth, a, kw in calls_:
                inh = dict(tag=tag, chain=chain, level=level, meth=meth)
                spec = effective_argspec(inh)
                if spec is not None:
                    do("inherit:" + tag, spec, a, kw, None, None, None, None, inh)
    late_registration(ctx, S, E)
    remote_outbound(ctx, S, E)
    # one container object occurring twice in a call, under every container constraint kind: a fixed sweep (every kind,
    # frozensets included, in every position pattern; its own random stream so that it is the same in every run) ...
    import random
    frng = random.Random(20260926)
    for kind in S.CONTAINER_KINDS:
        for shape in S.SHARED_SHAPES:
            g = S.gen_shared_call(frng, kind, shape)
            if g is not None:
                do("shared", g[0], g[1], g[2])
    # ... and generated ones
    for i in range(ctx.n(120, 1500)):
        g = S.gen_shared_call(rng)
        if g is None:
            continue
        do("shared", g[0], g[1], g[2])
    # sharing inside one call: the same list passed twice (second occurrence travels as a reference)
    w = S.World(["a", "b"], [S.build(["list", ["py", "int"], None, 0])] * 2, None)
    l = [1, 2]
    res = w.call((l, l), {})
    if S.outcome_of(res)[0] != "ok" or len(w.target.calls) != 1:
        ctx.fail("oracle/shared-argument-rejected", "m(l, l) with one list object was not delivered: %r" % (S.outcome_of(res),),
                 replay=dict(args="l=[1,2]; m(l,l)"))
    n = ctx.n(420, 6000)
    irng = random.Random(977 * ctx.seed + 12)          # its own stream: which generated calls go through a derived interface
    for i in range(n):
        nargs = rng.choice([1, 1, 1, 2, 3])
        depth = rng.choice([1, 2, 2, 3])
        argspec, args_vs, kwargs_vs = [], [], []
        for j in range(nargs):
            cs = S.gen_cs(rng, depth)
            opt = j > 0 and rng.random() < 0.3
            argspec.append((NAMES[j], cs, opt))
        npos = rng.randint(0, nargs)
        for j, (nm, cs, opt) in enumerate(argspec):
            src = cs if rng.random() < 0.7 else S.perturb(cs, rng)
            v = S.gen_value(src, rng)
            if j < npos:
                args_vs.append(v)
            elif opt and rng.random() < 0.5:
                continue
            elif rng.random() < 0.04:
                continue                        # a required argument left out: the sender must refuse
            else:
                kwargs_vs.append([nm, v])
        kwargs_vs.sort()
        if str(args_vs + kwargs_vs).count("['T', []]") > 1:
            # CPython has ONE empty tuple: its second occurrence inside a call travels as a back-reference, which the
            # tree-valued model does not describe (and which hides D7a there); keep such inputs out of the generated family
            ctx.hist("skipped", "shared-empty-tuple")
            continue
        known_region = set()
        for (n_, cs_, _), v_ in list(zip(argspec, args_vs)) + [(sp_, v_) for sp_ in argspec for n2_, v_ in kwargs_vs if n2_ == sp_[0]]:
            known_region |= S.regions(cs_, S.canon_vs(v_))
        if rng.random() < 0.04 and not known_region:
            # one text of the call gets a lone surrogate: still accepted by every length limit, but it has no UTF-8 form.
            # (Not where the call also touches a known defective region: there the receiver has already dropped the
            # connection on the tokens sent BEFORE the slicer reaches the text, which the model's atomic send_call does not
            # describe.)
            pool = [("a", k) for k in range(len(args_vs))] + [("k", k) for k in range(len(kwargs_vs))]
            rng.shuffle(pool)
            for where, k in pool:
                v2 = inject_surrogate(args_vs[k] if where == "a" else kwargs_vs[k][1], rng)
                if v2 is not None:
                    if where == "a":
                        args_vs[k] = v2
                    else:
                        kwargs_vs[k] = [kwargs_vs[k][0], v2]
                    ctx.hist("injected", "lone-surrogate")
                    break
        inh = wrap_in_chain(S, argspec, irng) if irng.random() < 0.1 else None
        do("gen", argspec, args_vs, kwargs_vs, None, None, None, None, inh)
    return [c for c in cases if c is not None]


# ---------------------------------------------------------------------------------------------------------------
def differential(ctx, S, E):
    """cheap broker-less runs of the real checkObject / checkToken / sendToken, to be compared with the model"""
    from foolscap.constraint import IConstraint
    rng = ctx.rng
    obj_cases, tok_cases, int_cases = [], [], []
    for i in range(ctx.n(900, 20000)):
        cs = S.gen_cs(rng, rng.choice([0, 1, 2, 3]))
        src = cs if rng.random() < 0.5 else S.perturb(cs, rng)
        vs = S.gen_value(src, rng)
        vs = S.canon_vs(vs)
        try:
            c = IConstraint(S.build(cs))
            acc = S.real_accepts(c, S.to_py(vs))
            acc_in = S.real_accepts(c, S.to_py(vs), True)
        except Exception as e:
            ctx.fail("oracle/implementation-raised", "constructing %r or checking %s against it raised %s: %s"
                     % (cs, str(vs)[:300], type(e).__name__, str(e)[:300]), replay=dict(cs=cs, vs=vs))
            continue
        if acc != S.py_satisfies(cs, S.to_py(vs)):
            ctx.fail("oracle/checkObject-vs-documented-meaning", "checkObject %s a value that the documented meaning of the "
                     "constraint %s: %r %r" % (("accepts", "excludes", cs, str(vs)[:300]) if acc else ("rejects", "includes", cs, str(vs)[:300])),
                     replay=dict(cs=cs, vs=vs))
        if acc != acc_in:
            ctx.fail("oracle/inbound-outbound-differ", "checkObject(inbound) and (outbound) disagree on %r %r" % (cs, vs),
                     replay=dict(cs=cs, vs=vs))
        obj_cases.append((S.to_ctr(c), S.to_obj(vs), acc))
        ctx.case(["co", cs, vs], nontrivial=True)
        ctx.hist("checkObject", "accept" if acc else "reject")
    sizes = [0, 1, 2, 3, 4, 5, 8, 9, 999, 1000, 1001, 1024, 1025, 2 ** 31]
    tbs = ["INT", "NEG", "LONGINT", "LONGNEG", "FLOAT", "STRING", "VOCAB", "OPEN"]
    for i in range(ctx.n(260, 3000)):
        cs = S.gen_cs(rng, rng.choice([0, 0, 1, 2]))
        tb = rng.choice(tbs)
        size = rng.choice(sizes)
        try:
            c = IConstraint(S.build(cs))
            c.checkToken(S.TB[tb], size)
            v = 0
        except S.Violation:
            v = 1
        except S.BananaError:
            v = 2
        except Exception as e:
            ctx.fail("oracle/implementation-raised", "checkToken(%s, %d) of %r raised %s: %s" % (tb, size, cs, type(e).__name__, e),
                     replay=dict(cs=cs, tb=tb, size=size))
            continue
        tok_cases.append((S.to_ctr(c), S.TB[tb][0], size, v))
        ctx.case(["tok", cs, tb, size], nontrivial=True)
    tb_, cb_ = E.broker_pair()
    buf = []
    tb_.transport.write = buf.append
    for n in [0, 1, -1, 127, 128, 2 ** 31 - 1, 2 ** 31, 2 ** 31 + 1, -2 ** 31, -2 ** 31 - 1, -2 ** 31 + 1, 2 ** 32 - 1, 2 ** 32,
              -(2 ** 32), 2 ** 64, 256 ** 7, 256 ** 7 - 1, -(256 ** 9), 2 ** 8000, 2 ** 8000 - 1] + \
             [rng.randint(-2 ** 80, 2 ** 80) for _ in range(30)]:
        del buf[:]
        tb_.sendToken(n)
        data = b"".join(buf)
        pos = 0
        while data[pos] < 0x80:
            pos += 1
        header = sum(d << (7 * k) for k, d in enumerate(data[:pos]))
        int_cases.append((n, data[pos], header))
        if S.int_ws(n)[1:3] != [{0x81: "INT", 0x83: "NEG", 0x85: "LONGINT", 0x86: "LONGNEG"}[data[pos]], header]:
            ctx.fail("harness/int_ws", "harness encoder disagrees with Banana.sendToken on %d" % n, has_input=False)
    return dict(obj=obj_cases, tok=tok_cases, ints=int_cases)


def canon_keep_sh(S, vs):
    """canonical order of the tree value, keeping the sharing marks (shared objects sit in lists/tuples/arguments or in
    single-entry dicts only, so canonicalising the other containers does not move them)"""
    k = vs[0]
    if k == "sh":
        return ["sh", vs[1], canon_keep_sh(S, vs[2])]
    if k in ("l", "T"):
        return [k, [canon_keep_sh(S, x) for x in vs[1]]]
    if k == "d" and len(vs[1]) == 1:
        return ["d", [[canon_keep_sh(S, vs[1][0][0]), canon_keep_sh(S, vs[1][0][1])]]]
    return S.canon_vs(vs)


def correspond(ctx, S, cases, diff, results=()):
    nbad = 0

    def bad(kind, what, replay):
        nonlocal nbad
        nbad += 1
        ctx.fail("correspondence/" + kind, what, replay=replay, has_input=False)
    # 1. call level: sender (checkAllArgs + slice) then receiver (recv_call), against the real callRemote
    CODE = {"delivered": 1, "receiver-rejects": 2, "dead": 3, "sender-rejects": 9, "serialization-refused": 8}
    for lo in range(0, len(cases), 250):
        chunk = cases[lo:lo + 250]
        rows = []
        for c in chunk:
            a = coq_list([S.to_obj(S.canon_vs(v)) for v in c["args"]])
            kw = coq_list(["(%d, %s)" % (nm(n), S.to_obj(S.canon_vs(v))) for n, v in c["kwargs"]])
            shared = any(S.has_sharing(v) for v in c["args"]) or any(S.has_sharing(v) for _, v in c["kwargs"])
            pw = kwv = "[]"
            if shared:
                # the wire the real sender produces: repeats of one object are references (slicing order: positional
                # arguments, then keywords by name); values are written in canonical order, as in `a`
                voc = S.vocab_words(c["r"]["vocab"]) if c["r"]["vocab"] else None
                seen = set()
                pw = coq_list([S.to_wobj(S.slice_vs(canon_keep_sh(S, v), voc, seen)) for v in c["args"]])
                kwv = coq_list(["(%d, %s)" % (nm(n), S.to_wobj(S.slice_vs(canon_keep_sh(S, v), voc, seen)))
                                for n, v in c["kwargs"]])
            rows.append("(%s, %s, %s, vocab_table %d, %s, %s, %s)" % (c["r"]["ms"], a, kw, c["r"]["vocab"],
                                                                  "true" if shared else "false", pw, kwv))
        body = EQB + "Definition cases : list (mschema * list obj * list (Z * obj) * list (list Z) * bool * list wobj * list (Z * wobj)) := " + \
            coq_list(rows) + ".\n" + """
Eval vm_compute in map (fun x => let '(ms, a, kw, voc, shared, p, k) := x in
   match checkAllArgs ms a kw return Z with
   | Exc _ => 9
   | Ok _ => match send_call voc ms a kw return Z with
             | None => 8                                 (* refused locally while serializing: text without a UTF-8 form *)
             | Some pk => if (shared : bool) then (if ser_args voc a kw p k then ccode (recv_call ms p k) a kw else 7)
                          else ccode (recv_call ms (fst pk) (snd pk)) a kw
             end
   end) cases.
"""
        try:
            (vals,) = ctx.coq_eval("C12_calls_%d" % (lo // 250), body, requires=REQ)
        except common.CoqEvalError as e:
            bad("broken", "the model could not be evaluated: " + str(e)[-1500:], None)
            return
        for c, m in zip(chunk, vals):
            ctx.traces += 1
            want = CODE.get(c["r"]["outcome"], -1)
            if m != want:
                bad("call", "model and implementation disagree on %r: model code %r, implementation %s(%r)"
                    % (str(dict(argspec=c["argspec"], args=c["args"], kwargs=c["kwargs"]))[:1500], m, c["r"]["outcome"], want),
                    dict(argspec=c["argspec"], args=c["args"], kwargs=c["kwargs"], model=m, impl=c["r"]["outcome"]))
    # 1b. "symmetrically for results": the echoed value under the same constraint as RESULT constraint -- the target's
    # outbound checkResults + slice (send_answer), the caller's AnswerUnslicer (recv_answer) -- against what callRemote got
    ECODE = {"ok": 1, "violation-local": 2, "dead": 3, "violation-remote": 9}
    echoes = [c for c in cases if c["r"].get("echo") is not None and c["r"]["outcome"] == "delivered" and c["r"]["echo"][0] in ECODE
              and not any(S.has_sharing(v) for v in c["args"])]
    for lo in range(0, len(echoes), 250):
        chunk = echoes[lo:lo + 250]
        rows = ["(%s, %s, vocab_table %d)" % (c["r"]["ms"], S.to_obj(S.canon_vs(c["args"][0])), c["r"]["vocab"]) for c in chunk]
        body = EQB + "Definition cases : list (mschema * obj * list (list Z)) := " + coq_list(rows) + ".\n" + """
Eval vm_compute in map (fun x => let '(ms, o, voc) := x in
   match send_answer voc ms o return Z with None => 9 | Some w => acode (recv_answer (ms_resp ms) w) o end) cases.
"""
        try:
            (vals,) = ctx.coq_eval("C12_results_%d" % (lo // 250), body, requires=REQ)
        except common.CoqEvalError as e:
            bad("broken", "the model could not be evaluated: " + str(e)[-1500:], None)
            return
        for c, m in zip(chunk, vals):
            ctx.traces += 1
            if m != ECODE[c["r"]["echo"][0]]:
                bad("result", "model and implementation disagree on the RESULT direction for %r: model code %r (1 callback with the "
                    "value, 2 errback at the caller, 3 connection lost, 9 refused by the target's outbound check), implementation %r"
                    % (str(dict(argspec=c["argspec"], value=c["args"]))[:1200], m, c["r"]["echo"]),
                    dict(argspec=c["argspec"], args=c["args"], model=m, impl=list(c["r"]["echo"])))
    # 1c. results that are / hold text with and without a UTF-8 form: send_answer (None: refused on the target's side) and
    # the caller's recv_answer against what the callRemote Deferred fired with
    results = list(results)
    if results:
        rows = ["(%s, %s, vocab_table %d)" % (r["ms"], r["obj"], r["vocab"]) for r in results]
        body = EQB + "Definition cases : list (mschema * obj * list (list Z)) := " + coq_list(rows) + ".\n" + """
Eval vm_compute in map (fun x => let '(ms, o, voc) := x in
   match send_answer voc ms o return Z with None => 9 | Some w => acode (recv_answer (ms_resp ms) w) o end) cases.
"""
        try:
            (vals,) = ctx.coq_eval("C12_result_text", body, requires=REQ)
        except common.CoqEvalError as e:
            bad("broken", "the model could not be evaluated: " + str(e)[-1500:], None)
            return
        for r, m in zip(results, vals):
            ctx.traces += 1
            if not (m == r["code"] or (r["code"] == "V" and m in (2, 9))):
                bad("result", "model and implementation disagree on the RESULT direction for %r: model code %r (1 callback with the "
                    "value, 2 errback at the caller, 3 connection lost, 9 refused on the target's side), implementation %r "
                    "(V: the caller's Deferred failed with a Violation, the connection stayed up)" % (r["case"], m, r["code"]),
                    dict(case=r["case"], model=m, impl=r["code"]))
    ctx.extra["result_direction_cases"] = len(echoes) + len(results)
    # 2. checkObject
    oc = diff["obj"]
    for lo in range(0, len(oc), 450):
        chunk = oc[lo:lo + 450]
        body = "Local Open Scope Z_scope.\nDefinition cases : list (ctr * obj) := " + coq_list(["(%s, %s)" % (c, o) for c, o, _ in chunk]) + \
               ".\nEval vm_compute in map (fun x => checkObject (fst x) (snd x)) cases.\n"
        try:
            (vals,) = ctx.coq_eval("C12_obj_%d" % (lo // 450), body, requires=REQ)
        except common.CoqEvalError as e:
            bad("broken", "the model could not be evaluated: " + str(e)[-1500:], None)
            return
        for (c, o, acc), m in zip(chunk, vals):
            ctx.traces += 1
            if m != acc:
                bad("checkObject", "model checkObject = %r, real checkObject accepts = %r on %s / %s" % (m, acc, c, o[:300]),
                    dict(ctr=c, obj=o))
    # 3. tasters
    tc = diff["tok"]
    body = "Local Open Scope Z_scope.\nDefinition cases : list (ctr * Z * Z) := " + coq_list(["(%s, %d, %d)" % (c, tb, sz) for c, tb, sz, _ in tc]) + \
           ".\nEval vm_compute in map (fun x => match taste (fst (fst x)) (snd (fst x)) (snd x) with TOk => 0 | TViol => 1 | TBanana => 2 end) cases.\n"
    body += "Definition ints : list Z := " + coq_list([S.coq_int(n) for n, _, _ in diff["ints"]]) + \
            ".\nEval vm_compute in map (fun z => let '(tb, size) := int_token z in [tb; size]) ints.\n"
    try:
        vals, ivals = ctx.coq_eval("C12_tok", body, requires=REQ)
    except common.CoqEvalError as e:
        bad("broken", "the model could not be evaluated: " + str(e)[-1500:], None)
        return
    for (c, tb, sz, v), m in zip(tc, vals):
        ctx.traces += 1
        if m != v:
            bad("taste", "model taste = %r, real checkToken = %r on %s typebyte %d size %d" % (m, v, c, tb, sz),
                dict(ctr=c, tb=tb, size=sz))
    for (n, tb, hd), m in zip(diff["ints"], ivals):
        ctx.traces += 1
        if m != [tb, hd]:
            bad("int_token", "translated int_token(%d) = %r, Banana.sendToken wrote type byte %d header %d" % (n, m, tb, hd),
                dict(n=n))
    ctx.extra["correspondence_cases"] = len(cases) + len(oc) + len(tc) + len(diff["ints"])
    ctx.extra["correspondence_disagreements"] = nbad
