"""C10 -- a failure in one call stays in that call and is reported faithfully."""
import glob, inspect, json, os
from harness import common
from harness.common import coq_list, coq_Z, coq_bool

REQ_F = ["Verif.lib.PyLite", "Verif.lib.Utf8", "Verif.gen.FailureGen", "Verif.lib.Failure"]
REQ_S = ["Verif.lib.PyLite", "Verif.gen.SendGen", "Verif.lib.Send"]

# faults that belong to one call (the property's catalogue).  kind -> list of parameter dicts
MSGS = [["ascii", 0], ["ascii", 5], ["ascii", 999], ["ascii", 1000], ["ascii", 1001], ["ascii", 5000], ["latin", 1000],
        ["latin", 499], ["latin", 500], ["latin", 501], ["cjk", 400], ["astral", 300], ["astral", 249], ["astral", 250],
        ["mixed", 700], ["asciithen", 301], ["asciithen", 302], ["asciithen", 303], ["nul", 10], ["surrogate", 1],
        ["surrogate", 120], ["vocab", 14], ["vocab", 4], ["vocab", 0], ["vocab", 11], ["vocab+", 14], ["vocab", 7]]
CLASSES = ["ValueError", "KeyError", "MyError", "MyDeepError", "CafeError", "LongNameError", "OSError"]


def catalogue():
    cat = []
    for d in (0, 1, 2, 4):
        cat.append(dict(kind="unserializable", depth=d))
        cat.append(dict(kind="unserializable", depth=d, sibling=[7, 8]))
    for d, n in ((0, 0), (0, 2), (1, 1), (3, 2)):
        cat.append(dict(kind="slicer-raises", depth=d, n=n))
    for d in (0, 1, 2, 3):
        cat.append(dict(kind="illtyped", depth=d))
    cat.append(dict(kind="mixed-keys"))
    cat.append(dict(kind="ok-badrepr", v=77))       # fault-free call on a target that cannot be formatted with %s
    # dicts whose keys cannot be put in order (different types, one type but not mutually orderable, comparison raising an
    # ArithmeticError, combinations), as argument AND as result (echo), at depth d
    for i, v in enumerate(DICT_KEY_VARIANTS):
        cat.append(dict(kind="dict-keys", variant=v, depth=i % 3, r5=1))
    # exceptions that cannot be rendered (__str__ / __repr__ raising, __str__ not returning text, an unprintable argument,
    # a format error inside __str__)
    for i, c in enumerate(UNRENDERABLE):
        cat.append(dict(kind="raise", cls=c, msg=MSGS[(3 * i + 1) % len(MSGS)], r5=1))
    for d in (0, 2):
        cat.append(dict(kind="arg-surrogate", depth=d))
    for i, m in enumerate(MSGS):
        cat.append(dict(kind="raise", cls=CLASSES[i % len(CLASSES)], msg=m))
    for c in ("KeyError", "MyDeepError", "LongNameError"):
        cat.append(dict(kind="raise-noargs", cls=c))
    for k in ("unknown-method", "unknown-method-typed", "unknown-object", "result-violates-callee",
              "result-violates-caller", "wrong-arity"):
        cat.append(dict(kind=k))
    cat.append(dict(kind="unknown-method-typed", nested=True))
    for d in (0, 1, 3):
        cat.append(dict(kind="result-unsendable", depth=d))
    # targets WITH a RemoteInterface (known / unknown to the caller) that raise; messages are vocabulary words
    for i in (14, 3, 18):
        cat.append(dict(kind="typed-raise", i=i, known=True))
        cat.append(dict(kind="typed-raise", i=i, known=False))
    # foolscap's own exception classes raised by the callee's application code, directly and relayed through a middle party
    for i, c in enumerate(OWN_NAMES):
        cat.append(dict(kind="raise", cls=c, msg=MSGS[(2 * i + 1) % len(MSGS)]))
        cat.append(dict(kind="relay", cls=c, msg=MSGS[(2 * i + 4) % len(MSGS)]))
    # the relay path does not truncate again: fields that are exactly at / were cut to their byte limits
    for m in (["ascii", 1000], ["latin", 501], ["astral", 300], ["ascii", 5000]):
        cat.append(dict(kind="relay", cls="LongNameError", msg=m, r5=1))
    for i, c in enumerate(("ValueError", "MyDeepError", "CafeError", "Rejected@beta")):
        cat.append(dict(kind="relay", cls=c, msg=MSGS[(5 * i + 2) % len(MSGS)]))
    # arguments whose resolution fails asynchronously on the callee: a third-party reference (gift) that the callee's Tub
    # refuses, or whose home Tub it cannot reach; at nesting depth d
    for mode in ("refuse", "unresolvable"):
        for d in (0, 1, 3):
            cat.append(dict(kind="gift", mode=mode, depth=d))
    # exception classes that share their bare name with a class of another module
    for i, h in enumerate(sorted(HOMONYM_NAMES)):
        cat.append(dict(kind="raise", cls=h, msg=MSGS[(3 * i + 1) % len(MSGS)]))
    # the same per-call faults in FIRE-AND-FORGET calls (callRemoteOnly: request id 0, registered nowhere, answered by nobody)
    for inner in ONE_WAY_INNER:
        cat.append(dict(kind="only", inner=inner, r6=1))
    # exception classes with a long ancestry (layered hierarchies, many mixins), raised directly and relayed
    for i, c in enumerate(DEEP_NAMES):
        cat.append(dict(kind="raise", cls=c, msg=MSGS[(4 * i + 1) % len(MSGS)], r6=1))
        if i % 3 == 1:
            cat.append(dict(kind="relay", cls=c, msg=MSGS[(4 * i + 2) % len(MSGS)], r6=1))
    # exception classes that reflect.qual cannot name (the class itself / one of its ancestors has no module name): known finding
    # exception-class-without-module while the connection is dropped; judged like any raising method once it is not
    for i, c in enumerate(UNNAMEABLE):
        cat.append(dict(kind="raise", cls=c, msg=MSGS[(7 * i + 1) % len(MSGS)], r5=1))
    cat += choice_catalogue()
    return cat


CHOICE_TOKS = ["int", "neg", "float", "bytes", "longint", "longneg", "none"]


def choice_catalogue():
    """a parameter (or, on the caller, a result) governed by a ChoiceOf with a STRICT alternative (str / bool / None; alone they turn a
    wrong primitive token into a protocol error), any order / nesting of the alternatives, directly and inside list / dict / tuple /
    set / Optional: every primitive token kind none of the alternatives accepts (ill-typed: that call fails with a Violation) and
    every one that some alternative accepts (fault-free).  Sent by a peer that does not pre-check (no RemoteInterface on the caller)."""
    from harness import c10_impl as impl
    cat = []
    for si, (shape, c, w, acc) in enumerate(impl.CHOICE_SHAPES):
        n = 0
        for tok in CHOICE_TOKS:
            if tok in acc:
                cat.append(dict(kind="choice-ok", shape=shape, tok=tok, r7=1))
                continue
            cat.append(dict(kind="illtyped-choice", shape=shape, tok=tok, r7=1))
            # (Optional means something on a parameter only: RemoteMethodSchema unwraps it; as a result constraint it accepts anything)
            if (n + si) % 3 == 0 and not shape.startswith("optional"):
                cat.append(dict(kind="result-choice", shape=shape, tok=tok, r7=1))
            n += 1
    return cat


def base(s):
    """the call a spec issues, whichever way it is issued (callRemote / callRemoteOnly)"""
    return s["inner"] if s["kind"] == "only" else s


DICT_KEY_VARIANTS = ["int-str", "tuple-hetero", "bytes-str", "nan-decimals", "mixed-nan", "tuple-nested", "tuple-int", "str-tuple-str"]
UNRENDERABLE = ["BadStrError", "BadReprError", "NonStrError", "BadArgError", "FormatError"]
OWN_NAMES = ["foolscap:RemoteException", "foolscap:Violation", "foolscap:BananaError", "foolscap:DeadReferenceError",
             "foolscap:NegotiationError"]
HOMONYM_NAMES = ["Rejected@alpha", "Rejected@beta", "Rejected@beta.sub", "TimeoutError@builtins", "TimeoutError@twisted",
                 "ConnectionRefusedError@builtins", "ConnectionRefusedError@twisted", "ValueError@alpha", "ValueError"]
UNNAMEABLE = ["NoModError", "NoModBaseError"]
DEEP_NAMES = ["Mro29", "Mro30", "Mro31", "Mro32", "Mro33", "Mro35", "Mro64", "Mro65", "Mro129", "Mro257", "Mixins45"]
# what a one-way call can carry: every kind of fault the caller's serializer, the callee's CallUnslicer, the callee's schema, the
# method or the (never sent) answer can have -- and fault-free calls
ONE_WAY_INNER = [dict(kind="unserializable", depth=0), dict(kind="unserializable", depth=2, sibling=[7, 8]),
                 dict(kind="slicer-raises", depth=1, n=1), dict(kind="arg-surrogate", depth=1),
                 dict(kind="illtyped", depth=0), dict(kind="illtyped", depth=2), dict(kind="unknown-method"),
                 dict(kind="illtyped-choice", shape="None|bytes", tok="int"), dict(kind="illtyped-choice", shape="list of str|None", tok="bytes"),
                 dict(kind="unknown-method-typed", nested=True), dict(kind="unknown-object"),
                 dict(kind="raise", cls="ValueError", msg=["ascii", 5]), dict(kind="raise", cls="BadStrError", msg=["ascii", 3]),
                 dict(kind="raise", cls="NoModError", msg=["ascii", 4]),       # (no error is ever built for a one-way call: contained)
                 dict(kind="raise-badrepr", cls="MyError", msg=["latin", 10]), dict(kind="typed-raise", i=3, known=True),
                 dict(kind="wrong-arity"), dict(kind="result-unsendable", depth=1), dict(kind="result-violates-callee"),
                 dict(kind="ok", v=9), dict(kind="dict-keys", variant="tuple-int", depth=1),
                 dict(kind="multi", target="typed", known=True, slots=["ok", "unsendable", "illtyped"]),
                 dict(kind="multi", target="typed", known=False, slots=["illtyped", "ok", "ok"]),
                 dict(kind="gift", mode="refuse", depth=1)]
NONOK = ("illtyped", "illtyped-deep", "unsendable", "slicer-raises", "surrogate")
CALLER_SIDE = ("unsendable", "slicer-raises", "surrogate")


def multi_catalogue(thorough):
    """several faults in ONE call: every pair of argument positions x every pair of fault kinds (caller-side and
    callee-side combined), with a known / unknown method on the constrained target, and on the schema-less target"""
    vecs = [("ok", "ok", "ok")]
    for i in range(3):
        for k in NONOK:
            v = ["ok"] * 3
            v[i] = k
            vecs.append(tuple(v))
    for i in range(3):
        for j in range(i + 1, 3):
            for k1 in NONOK:
                for k2 in NONOK:
                    v = ["ok"] * 3
                    v[i], v[j] = k1, k2
                    vecs.append(tuple(v))
    if thorough:
        vecs += [(a, b, c) for a in NONOK for b in NONOK for c in NONOK]
    out = []
    for vi, v in enumerate(vecs):
        out.append(dict(kind="multi", target="typed", known=True, slots=list(v)))
        if thorough or vi % 2 == 0 or sum(k != "ok" for k in v) < 2:      # quick: the unknown-method variant for every other pair of faults
            out.append(dict(kind="multi", target="typed", known=False, slots=list(v)))
        if all(k in ("ok",) + CALLER_SIDE for k in v) or thorough:
            out.append(dict(kind="multi", target="plain", slots=list(v)))
    return out


def multi_expect(spec):
    """-> 'local' | 'remote' | ('ok', value)"""
    if any(k in CALLER_SIDE for k in spec["slots"]):
        return "local"
    if spec["target"] == "typed" and (not spec.get("known", True) or any(k != "ok" for k in spec["slots"])):
        return "remote"
    return ("ok", 3 if spec["target"] == "plain" else 6)


# inputs on which the current tree is known (or was known) to violate the property; each has its own signature
# 1-3 were repaired in /repo ("fix: a remote exception that cannot be rendered or encoded still fails only its call",
# "fix: text that has no UTF-8 form fails that one object, not the connection"): regression witnesses now.
SPECIAL = [
    ("str-raises", dict(kind="raise", cls="BadStrError", msg=["ascii", 3])),
    ("remote-message-not-utf8-encodable", dict(kind="raise", cls="ValueError", msg=["surrogate", 1])),
    ("argument-not-utf8-encodable", dict(kind="arg-surrogate", depth=1)),
    ("argument-nested-beyond-recursion-limit", dict(kind="arg-deep", depth=2000)),
    # repaired in /repo (fix eec6df0, "a failing call is reported to the caller even if logging it fails"): regression witness.
    # Broker.callFailed formats the target and the arguments for the local-failure log (InboundDelivery.logFailure, on when the
    # Tub has logLocalFailures or the Broker has no Tub) BEFORE it sends the error: lib/Callee.v unrenderable_delivery_answered
    ("local-failure-log-renders-target", dict(kind="raise-badrepr", cls="ValueError", msg=["ascii", 3])),
    # KNOWN FINDING (review 2), fixed witness: FailureSlicer.getStateToCopy calls reflect.qual(obj.type) -- and obj.parents, reflect.qual
    # of every class of the MRO -- unguarded; reflect.qual is __module__ + "." + __name__: TypeError inside Banana.produce for a class
    # (or an ancestor) whose __module__ is None -> sendFailed, both Brokers disconnected.  lib/Failure.v: nameable = false,
    # C10_failure_unnameable_refuted / C10_unnameable_error_drops_connection_refuted
    ("exception-class-without-module", dict(kind="raise", cls="NoModError", msg=["ascii", 3])),
    ("exception-class-without-module", dict(kind="raise", cls="NoModBaseError", msg=["ascii", 3])),
]


SPECIAL_NOTE = {
    "local-failure-log-renders-target":
        " -- the remote method raised ValueError on a target whose __repr__ raises, with the callee's local-failure log on (Broker "
        "without a Tub here; the same with Tub option logLocalFailures): Broker.callFailed calls InboundDelivery.logFailure, which formats "
        "the target and the arguments with %s BEFORE the error is sent; the exception ends in the delivery chain's log.err: no `error` is "
        "ever sent, the caller's Deferred never fires, the PendingRequest stays in waitingForAnswers and the entry in the callee's "
        "activeLocalCalls (repaired by fix eec6df0; lib/Callee.v: C10_unrenderable_delivery_answered)",
}


def run(ctx):
    ctx.rule = ("batches of 3-6 concurrent callRemote()s on a real Broker pair (loopback, virtual clock), one or two of them "
                "faulty, the faulty one at every position; faults from a catalogue (unsendable object at depth d, slicer "
                "raising Violation after n tokens at depth d, ill-typed argument at depth d against the callee's "
                "RemoteInterface, mixed-type dict keys, 7 exception classes x 19 message shapes (empty/ASCII/2-3-4-byte "
                "characters, lengths around the 1000-byte limit, cut inside a character), unknown method/object, result "
                "violating the callee's or the caller's schema, unsendable result at depth d; a target that cannot be formatted (fault-free call in the sweep; failing call = own signature); legal dicts whose keys cannot be ordered (8 shapes: mixed types, one type but not mutually "
                "orderable, comparison raising ArithmeticError) as argument and echoed result at depth 0-2; exceptions that cannot be "
                "rendered (__str__/__repr__ raising, non-text __str__, unprintable argument, format error); SEVERAL faults in one call: every "
                "pair of argument positions x every pair of {callee-schema-only, caller-unserializable} fault kinds x known/"
                "unknown method; exception classes sharing a bare name across modules, every ordered pair, within and across "
                "batches; foolscap's own exception classes (RemoteException, Violation, BananaError, DeadReferenceError, "
                "NegotiationError) raised by the callee and relayed A->B->C through a middle party that exposes or hides types; "
                "third-party references (gifts) the callee's Tub refuses or cannot resolve, at depth 0/1/3 and every position; "
                "every batch is followed by calls whose arguments share containers; targets with a RemoteInterface known / unknown "
                "to the caller; strings that are exactly words of the negotiated vocabulary table as exception messages, "
                "arguments, dict keys, method and keyword names; the same faults in FIRE-AND-FORGET calls (callRemoteOnly, request id 0: 21 kinds -- "
                "caller's ABORT, callee's rejection, raising / unknown method, unsendable result, refused gift, several faults, fault-free -- "
                "judged on the siblings, the connection, the methods that ran and the OPEN counters); exception classes with a long ancestry "
                "(layered hierarchies with an MRO of 29-35, 64, 65, 129, 257 classes, 40 mixins) raised directly and relayed: every class of the "
                "MRO must reach the caller and answer check()); exception classes reflect.qual cannot name (the class itself / an ancestor "
                "has __module__ None: known finding exception-class-without-module, fixed witnesses + catalogue + one-way); a parameter / a caller-side "
                "result constraint that is a ChoiceOf with a STRICT alternative (None / str / bool, 14 shapes: either order, three alternatives, "
                "nested ChoiceOf, Optional, inside list / list of list / dict value / tuple / set; + a control without strict alternative) hit by "
                "each of the 7 primitive token kinds (INT NEG FLOAT STRING LONGINT LONGNEG, none) by a peer that does not pre-check: ill-typed "
                "ones must fail that call only (remote / local Violation), accepted ones must run (fixed witnesses at every position + one-way in "
                "the corpus, a ninth of the family per quick run, all of it in thorough), every batch under one of 17 settings of the four Tub logging "
                "options (logLocalFailures / logRemoteFailures on caller and callee, or no Tub) and with / without the "
                "negotiated vocabulary table, both settings of "
                "unsafeTracebacks and expose-remote-exception-types; non-trivial = distinct batch in which every Deferred "
                "fired and the faulty call really failed (or, for mixed keys, really round-tripped)")
    ctx.assumptions = [
        "Twisted Deferred/Failure and the Loopback transport of foolscap.test.common are used as they are",
        "lib/Send.v has two receivers of its own: a framing checker that is stricter than Banana.handleData (it compares the numbers "
        "of ABORT and of discarded CLOSE tokens, the real receiver only counts them) and a counting receiver (cstate); the counting "
        "receiver is compared with the real Banana.handleData + PB unslicers token by token in both directions of every batch "
        "(vm_compute correspondence, real Violations as its `viol` flags); the sender is also composed with the C07 transcription of "
        "handleData (lib/BananaRecv.v): those two theorems keep the hypothesis that the receiving Banana did not drop the connection",
        "the slicers' token *values* are abstracted (TData) on the send side; the send correspondence compares the OPEN/CLOSE/ABORT "
        "skeleton with its numbers and the count of primitive tokens; the composition with BananaRecv quantifies over every wire form "
        "of the primitive tokens instead",
        "the delivery-queue model (drain), the wrap / check model (deliver, delivered_check, delivered_type), fail_request and requal are "
        "hand-written; each is compared with the real code by vm_compute (Broker.scheduleCall/_doCall/callFailed instrumented in every "
        "batch; ErrorUnslicer.receiveClose + wrap_remote_failure + Failure.check, PendingRequest.fail and CopiedFailure.setCopyableState "
        "run directly) in addition to the translated shape facts",
        "get_state IS the translation of FailureSlicer.getStateToCopy (symbolic execution of its statements in source order into one "
        "Gallina term over the translated truncate); taken as given: obj.value is not itself a Failure and obj.type is a class (python3), so "
        "the last branch of its three-way test runs; reflect.qual(obj.type) and obj.parents are partial (res) fields of the exception "
        "record, getTraceback is total once qual(type) returned (twisted renders qual(type) into it); compared byte for byte with the real "
        "FailureSlicer, including the classes for which it raises",
        "the callee's answer-or-error path (lib/Callee.v) interprets the statement-by-statement translations of Broker.callFailed, "
        "Broker._callFinished, the Deferred chain of Broker.doNextCall and CallUnslicer.reportViolation; what the application and the "
        "serializer do (method raises, result rejected, answer not serializable, target not formattable ...) are parameters of each "
        "delivery, observed on the real objects for the correspondence; Broker._doCall is one outcome bit (shape checked); Twisted's "
        "Deferred chaining (a callback's exception goes to the next errback) is the interpreter's semantics; a history (the list "
        "handle_all folds over) lists the calls in the order the callee CONCLUDES them -- a rejected call while it is parsed, a delivery "
        "when its chain reaches _callFinished / callFailed (later turns: queue order, stalls on gifts, methods whose Deferred fires later) "
        "-- which the theorems quantify over (every list) and the correspondence observes (DeliveryLog.history; the messages are "
        "compared in order); entering a request id in activeLocalCalls is folded into the same step (it happens on arrival: "
        "unobservable for distinct ids); "
        "after the callee's own sendFailed the model stops -- the real callee may still run calls that had already arrived, what it hands "
        "to send() then never reaches the wire (DeliveryLog.sent_after_crash, excluded from the comparison)",
        "utf8_decode_ignore is exact only on prefixes of well-formed UTF-8 (proved to be the only inputs truncate gives it)",
        "Tub.setOption('expose-remote-exception-types') -> Broker._expose_remote_exception_types plumbing is checked on a "
        "real Tub/Broker once per run, the batches set the Broker attributes directly",
        "the receive trace hands each Broker its input one whole token at a time (chunk independence is C07's theorem)",
    ]
    ok, log = ctx.coq_build(["props/C10.vo"])
    from harness import c10_impl as impl
    before = len(ctx.failures)

    # 1. corpus (regression witnesses of repaired defects) + the option plumbing
    import time
    t0 = time.time()
    corpus(ctx, impl)
    plumbing(ctx, impl)
    # 2. sweep with the direct oracle; keeps what is needed for the correspondence
    batches = sweep(ctx, impl)
    # 3. inputs with their own signatures (genuine defects of the tree, or their regression witnesses once repaired)
    special_batches = special(ctx, impl)
    special_batches += answer_crash_path(ctx, impl)
    ctx.extra["oracle_s"] = round(time.time() - t0, 1)
    t0 = time.time()
    # 4. correspondence with the Coq models
    model_ok = ok
    if not ok:
        ok2, _ = ctx.coq_build(["lib/Failure.vo", "lib/Send.vo", "lib/Relay.vo", "lib/Callee.vo"])
        model_ok = ok2
    if model_ok:
        corr_send(ctx, impl, batches)
        ctx.extra["corr_send_s"] = round(time.time() - t0, 1)
        t0 = time.time()
        corr_failure(ctx, impl)
        ctx.extra["corr_failure_s"] = round(time.time() - t0, 1)
        t0 = time.time()
        corr_recv(ctx, impl, batches)
        corr_callee(ctx, impl, batches + special_batches)
        corr_small(ctx, impl)
        ctx.extra["corr_recv_small_s"] = round(time.time() - t0, 1)
    if not ok:
        # reported even when a failing input was found as well: a known finding must not mask a broken proof
        ctx.fail("proof-broken", "theorem closure props/C10.vo no longer builds against the regenerated gen/FailureGen.v, "
                 "gen/SendGen.v:\n" + log[-2500:], replay=dict(log=log[-6000:]), has_input=False)


# ------------------------------------------------------------------------------------------------ expectations
def qual(c):
    from twisted.python import reflect
    return reflect.qual(c)


def trunc_expect(text, limit):
    """what the property allows for a field with byte limit `limit`: the text itself, or a maximal whole-character
    prefix followed by '..' that fits (text that has no UTF-8 form arrives with \\udXXX escapes)"""
    text = text.encode("utf-8", "backslashreplace").decode("utf-8")
    if len(text.encode("utf-8")) <= limit:
        return lambda got: got == text
    def chk(got):
        if not got.endswith("..") or len(got.encode("utf-8")) > limit:
            return False
        p = got[:-2]
        return text.startswith(p) and len(p.encode("utf-8")) > limit - 3 - 4
    return chk


REMOTE_VIOLATION = ("illtyped", "illtyped-choice", "unknown-method-typed", "unknown-object", "result-violates-callee")
LOCAL_VIOLATION = ("unserializable", "slicer-raises", "result-violates-caller", "result-choice", "arg-surrogate")


def judge_faulty(impl, spec, d, opts):
    """-> None if the faulty call's outcome is what the property demands, else a description"""
    k = spec["kind"]
    if d is None:
        return "the faulty call's Deferred never fired"
    if k == "multi":
        want = multi_expect(spec)
        if isinstance(want, tuple):
            return None if d["ok"] and d["value"] == want[1] else "a fault-free call got %r" % (short(d),)
        if d["ok"]:
            return "the faulty call succeeded with %r" % (d["value"],)
        if want == "local":
            if d["wrapped"] or d["copied"] or d["type"] != "foolscap.tokens.Violation":
                return "expected the caller's own Violation (an argument could not be serialized), got %r" % (short(d),)
            return None
        if d["wrapped"] != (not opts["expose"]) or not d["copied"] or d["type"] != "foolscap.tokens.Violation":
            return "expected the callee's Violation (wrapped=%s), got %r" % (not opts["expose"], short(d))
        return None
    if k == "mixed-keys":
        return None if d["ok"] and d["value"] == {1: 2, 'a': 3} else "a dict with keys of mixed types did not round-trip: %r" % (short(d),)
    if k == "ok-badrepr":
        return None if d["ok"] and d["value"] == spec["v"] else "a fault-free call on a target whose repr raises got %r" % (short(d),)
    if k == "dict-keys":
        want = impl.nest(spec["depth"], impl.dict_keys_value(spec["variant"]))
        if d["ok"] and impl.canon_dict(d["value"]) == impl.canon_dict(want):
            return None
        return "a legal dict argument whose keys cannot be ordered (%s) did not round-trip: %r" % (spec["variant"], short(d))
    if d["ok"]:
        return "the faulty call succeeded with %r" % (d["value"],)
    expose = opts["expose"]
    if k in LOCAL_VIOLATION or k == "result-unsendable":
        if d["wrapped"] or d["copied"]:
            return "a local problem was reported as a remote one: %r" % (short(d),)
        if d["type"] != "foolscap.tokens.Violation":
            return "expected a local Violation, got %s" % d["type"]
        return None
    # everything else is an exception on the far side
    if d["wrapped"] != (not expose):
        return "expose-remote-exception-types=%s but wrapped=%s" % (expose, d["wrapped"])
    if not d["copied"]:
        return "a remote exception arrived as a local %s: %s" % (d["type"], d["value"][:200])
    if not opts["unsafe"] and d["traceback"] != "Traceback unavailable\n":
        return "unsafeTracebacks is off but a traceback was sent"
    if k in REMOTE_VIOLATION or (k == "gift" and spec["mode"] == "refuse"):
        return None if d["type"] == "foolscap.tokens.Violation" else "expected a remote Violation, got %s" % d["type"]
    if k == "gift":
        return None          # the callee could not resolve the reference: any remote exception
    if k == "relay" and not opts.get("middle_expose", True):
        # the middle party hides exception types: what it raises towards us is its own RemoteException
        from foolscap.tokens import RemoteException
        want = [qual(c) for c in inspect.getmro(RemoteException)]
        if d["type"] != want[0] or d["parents"] != want:
            return "relayed through a party that hides types: expected %s, got %s %r" % (want[0], d["type"], d["parents"])
        return None
    if k == "unknown-method":
        return None if d["type"] in ("builtins.AttributeError", "builtins.NameError") else "unknown method reported as %s" % d["type"]
    if k == "wrong-arity":
        return None if d["type"] == "builtins.TypeError" else "wrong arity reported as %s" % d["type"]
    if k == "typed-raise":
        spec = dict(spec, cls="MyError", msg=["vocab", spec["i"]])
        k = "raise"
    if k == "raise-badrepr":        # the same expectations as for any raising method: the target's repr is none of the caller's business
        k = "raise"
    if k in ("raise", "raise-noargs", "relay") and spec["cls"] in UNNAMEABLE:
        # no qualified name exists that could be demanded: the call must fail with a remote, non-Violation failure
        if d["type"] == "foolscap.tokens.Violation":
            return "the remote %s was reported as a Violation: %s" % (spec["cls"], d["value"][:200])
        return None
    if k in ("raise", "raise-noargs", "relay"):
        cls = impl.EXC_CLASSES[spec["cls"]]
        if d["type"] == "foolscap.tokens.Violation" and qual(cls) != "foolscap.tokens.Violation":
            return "the remote %s was reported as a Violation: %s" % (spec["cls"], d["value"][:200])
        if not trunc_expect(qual(cls), 200)(d["type"]):
            return "type name %r does not identify %s" % (d["type"], qual(cls))
        if len(qual(cls).encode()) <= 200:
            v = d["type_views"]
            # (repr/str of the stand-in class show its __qualname__, which never was the remote name)
            if "%s.%s" % (v["module"], v["name"]) != qual(cls) or v["reforwarded"] != qual(cls):
                return "f.type does not identify %s: __module__=%r __name__=%r, forwarded on to a third party as %r" % (
                    qual(cls), v["module"], v["name"], v["reforwarded"])
        want_parents = [qual(c) for c in inspect.getmro(cls)]
        if len(want_parents) != len(d["parents"]) or not all(trunc_expect(w, 200)(g) for w, g in zip(want_parents, d["parents"])):
            return "ancestry (%d entries: %r%s) is not that of %s (%d entries, root-most %r)" % (
                len(d["parents"]), d["parents"][:2], " .. %r" % d["parents"][-2:] if len(d["parents"]) > 2 else "", qual(cls),
                len(want_parents), want_parents[-3:])
        f = d["failure"]
        if len(qual(cls).encode()) <= 200 and (f.check(cls) is None or f.check(LookupError if issubclass(cls, LookupError) else Exception) is None):
            return "Failure.check() does not recognise %s" % qual(cls)
        # the whole ancestry, root-most classes included (they are what callers trap on)
        # (twisted's Failure.check maps a CLASS to its qualified name only for subclasses of Exception; BaseException / object /
        # mixins are asked for by name, which check() accepts as well)
        lost = [qual(c) for c in inspect.getmro(cls) if len(qual(c).encode()) <= 200 and
                f.check(c if issubclass(c, Exception) else qual(c)) is None]
        if lost:
            return "Failure.check() does not recognise the remote %s as %s (%d of its %d ancestors)" % (qual(cls), lost[-3:], len(lost), len(want_parents))
        if spec["cls"] in UNRENDERABLE:
            # reflect.safe_str's text names the instance by address: only that there IS a rendering can be compared
            return None if isinstance(d["value"], str) and d["value"] else "the unrenderable exception arrived without any text"
        text = str(cls(impl.message(spec["msg"]))) if k in ("raise", "relay") else str(cls())
        if not trunc_expect(text, 1000)(d["value"]):
            return "value (%d bytes) is not the message / a maximal prefix of it + '..' (message has %d bytes): %r" % (
                len(d["value"].encode()), len(text.encode()), d["value"][-30:])
        return None
    return "harness: no expectation for %s" % k


def short(d):
    if d is None:
        return None
    out = {k: v for k, v in d.items() if k not in ("failure", "traceback")}
    if not isinstance(out.get("value"), (int, float, str, type(None))):
        out["value"] = repr(out["value"])[:200]       # (bytes keys etc. are not JSON)
    if isinstance(out.get("value"), str) and len(out["value"]) > 120:
        out["value"] = out["value"][:60] + "...(%d chars)" % len(out["value"])
    if "parents" in out:
        out["parents"] = [p[:60] for p in out["parents"]]
    if "type" in out:
        out["type"] = out["type"][:80]
    return out


def judge_batch(ctx, impl, specs, opts, r, sigsuffix=""):
    """the property, evaluated directly on what the real Brokers did.  -> True if fine"""
    replay = dict(specs=specs, opts=opts, observed=[short(x) for x in r["results"]], disconnected=r["disconnected"])
    bad = []
    unn = [s for s in specs if s["kind"] in ("raise", "raise-noargs") and s.get("cls") in UNNAMEABLE]
    if unn and any(r["disconnected"]) and any(x[0] == 2 for x in r["deliveries"]["crashes"]):
        # the callee's FailureSlicer raised while an `error` was being written (known finding; what else the batch shows is a
        # consequence of the dropped connection)
        ctx.fail("oracle/sibling-affected/exception-class-without-module",
                 "a remote method raised an exception whose class cannot be named by reflect.qual (%s): FailureSlicer.getStateToCopy raised "
                 "inside Banana.produce on the callee, the connection was dropped (disconnected=%s), the calls of the batch got %s; batch %s "
                 "with options %s" % (unn[0]["cls"], r["disconnected"], [(x or {}).get("type") for x in r["results"]][:4], json.dumps(specs), opts),
                 replay=replay)
        return False
    if r["escaped"]:
        bad.append(("oracle/exception-escaped", r["escaped"]))
    if any(r["disconnected"]):
        bad.append(("oracle/sibling-affected", "the connection was dropped (caller disconnected=%s, callee disconnected=%s)" % r["disconnected"]))
    for i, (s, d) in enumerate(zip(specs, r["results"])):
        if r["fired"][i] > 1:
            bad.append(("oracle/sibling-affected", "call %d fired %d times" % (i, r["fired"][i])))
        if s["kind"] == "multi" and isinstance(multi_expect(s), tuple):
            if d is None or not d["ok"] or d["value"] != multi_expect(s)[1]:
                bad.append(("oracle/sibling-affected", "fault-free call %d got %r" % (i, short(d))))
        elif s["kind"] in ("ok", "ok-add"):
            want = s["v"] if s["kind"] == "ok" else s["v"] + 1
            if d is None or not d["ok"] or d["value"] != want:
                bad.append(("oracle/sibling-affected", "fault-free call %d (expects %r) got %r" % (i, want, short(d))))
        elif s["kind"] in ("ok-vocab", "vocab-method", "typed-ok", "choice-ok"):
            want = (impl.vocab_value(s) if s["kind"] == "ok-vocab" else 3 if s["kind"] == "typed-ok" else 1 if s["kind"] == "choice-ok" else
                    [s["i"], [(impl.message(["vocab", s["i"]]).replace("-", "_"), 1)]])
            if d is None or not d["ok"] or d["value"] != want:
                bad.append(("oracle/sibling-affected", "fault-free call %d (%s, expects %r) got %r" % (i, s["kind"], want, short(d))))
        elif s["kind"] == "only":
            # a one-way call has no Deferred: what it must not do is judged on the siblings, the connection, the methods that ran
            # and the OPEN counters below
            if d is not None or r["fired"][i]:
                bad.append(("oracle/sibling-affected", "one-way call %d delivered a result to somebody: %r" % (i, short(d))))
        elif s["kind"] == "shared":
            if d is None or not d["ok"] or not impl.shared_ok(s["variant"], d["value"]):
                bad.append(("oracle/later-call-affected", "fault-free call %d whose argument %r contains the same container more than "
                            "once was not delivered intact (value and sharing): got %r" % (i, impl.shared_value(s["variant"]), short(d))))
        else:
            why = judge_faulty(impl, s, d, opts)
            if why:
                sig = ("oracle/call-not-failed" if (d is None or d.get("ok")) and s["kind"] not in ("mixed-keys", "dict-keys", "ok-badrepr") else
                       "oracle/sibling-affected" if s["kind"] in ("mixed-keys", "dict-keys", "ok-badrepr") else "oracle/failure-misreported")
                bad.append((sig, "call %d (%s): %s" % (i, s["kind"], why)))
    lt = r["later"]
    if len(lt) != 2 or not lt[0]["ok"] or lt[0]["value"] != 42:
        bad.append(("oracle/sibling-affected", "a later call on the same connection got %r" % ([short(x) for x in lt[:1]],)))
    elif not lt[1]["ok"] or not impl.shared_ok(opts.get("later_shared", "mixed"), lt[1]["value"]):
        bad.append(("oracle/later-call-affected", "a later call on the same connection, whose argument %r contains the same containers "
                    "more than once, was not delivered intact (value and sharing): got %r"
                    % (impl.shared_value(opts.get("later_shared", "mixed")), short(lt[1]))))
    runs = {"ok": "echo", "ok-add": "add", "shared": "echo", "ok-vocab": "echo", "vocab-method": "call", "typed-ok": "ints",
            "typed-raise": "tboom", "mixed-keys": "echo", "dict-keys": "echo", "ok-badrepr": "echo", "raise-badrepr": "boom", "raise": "boom", "raise-noargs": "boom_noargs",
            "result-violates-callee": "wrongresult", "result-violates-caller": "text", "result-unsendable": "unsendable_result",
            "choice-ok": "choice", "result-choice": "echo"}
    want_exec = []
    for s in map(base, specs):
        if s["kind"] in runs:
            want_exec.append(runs[s["kind"]])
        elif s["kind"] == "multi" and isinstance(multi_expect(s), tuple):
            want_exec.append("echo3" if s["target"] == "plain" else "multi")
        elif s["kind"] == "relay":
            want_exec.append("relay")
    want_exec += ["add", "echo"]
    want_far = ["boom" for s in map(base, specs) if s["kind"] == "relay"]
    if r["far_executed"] != want_far and not any(r["disconnected"]):
        bad.append(("oracle/wrong-calls-executed", "the third party ran %s, the batch relays %s" % (r["far_executed"], want_far)))
    if r["executed"] != want_exec and not any(r["disconnected"]):
        bad.append(("oracle/wrong-calls-executed", "the callee ran %s, the batch asks for %s (a call whose arguments were aborted or "
                    "rejected must not run, every other call must run once, in order)" % (r["executed"], want_exec)))
    k = r["counters"]
    if not any(r["disconnected"]) and (k["caller_sent"] != k["callee_seen"] or k["callee_sent"] != k["caller_seen"]):
        bad.append(("oracle/open-counters-out-of-step", "after the batch the OPEN counters of the two ends differ (%r): `reference` "
                    "sequences of later calls resolve to the wrong object" % (k,)))
    if r["waiting"]:
        bad.append(("oracle/request-not-retired", "%d PendingRequests left in waitingForAnswers" % r["waiting"]))
    for sig, what in bad[:2]:
        ctx.fail(sig + sigsuffix, "%s; batch %s with options %s" % (what, json.dumps(specs), opts), replay=replay)
    return not bad


def run_one(ctx, impl, specs, opts, tag, sigsuffix=""):
    gifts = [base(s) for s in specs if base(s)["kind"] == "gift"]
    if gifts:       # one Tub on the callee per batch: every gift of the batch fails the same way
        mode = gifts[0]["mode"]
        specs[:] = [dict(s, mode=mode) if s["kind"] == "gift" else dict(s, inner=dict(s["inner"], mode=mode)) if base(s)["kind"] == "gift"
                    else s for s in specs]
        opts = dict(opts, gift_mode=mode)
    with impl.quiet():
        r = impl.run_batch(specs, opts)
    fine = judge_batch(ctx, impl, specs, opts, r, sigsuffix)
    nontrivial = all((s["kind"] == "only" and d is None) or
                     (f and d is not None and (not d["ok"] or s["kind"] in ("ok", "ok-add", "shared", "mixed-keys", "dict-keys", "ok-badrepr", "multi", "ok-vocab", "vocab-method", "typed-ok", "choice-ok")))
                     for s, d, f in zip(specs, r["results"], r["fired"]))
    ctx.case([tag, specs, opts], nontrivial=nontrivial and fine)
    for s, d in zip(specs, r["results"]):
        if s["kind"] not in ("ok", "ok-add", "shared", "ok-vocab", "vocab-method", "typed-ok", "choice-ok"):
            ctx.hist("fault_kind", s["kind"] if s["kind"] != "only" else "one-way " + s["inner"]["kind"])
            ctx.hist("faulty_outcome", "one-way" if s["kind"] == "only" and d is None else "not-fired" if d is None else "ok" if d["ok"] else
                     ("wrapped " if d["wrapped"] else "") + ("remote " if d["copied"] else "local ") +
                     (s.get("cls") or d["type"].split(".")[-1])[:30])
    return r


# ------------------------------------------------------------------------------------------------ parts
def corpus(ctx, impl):
    """fixed witnesses, run first: repaired defects and one batch (or short history) per family of seeded changes, so that
    their detection never depends on the generated stream.  File = {"specs":[..], "opts":[..]} or {"batches":[{"specs","opts"}..]}"""
    for p in sorted(glob.glob(os.path.join(common.VERIF, "corpus", "C10", "*.json"))):
        c = json.load(open(p))
        for b in c.get("batches", [c] if "specs" in c else []):
            for opts in b.get("opts", [dict(unsafe=True, expose=True)]):
                run_one(ctx, impl, [dict(x) for x in b["specs"]], dict(opts), "corpus:" + os.path.basename(p))
        ctx.hist("corpus", os.path.basename(p))


def plumbing(ctx, impl):
    """Tub option -> Broker attribute -> what ErrorUnslicer consults"""
    from harness import implenv as E
    from foolscap import broker
    from foolscap.referenceable import TubRef
    from foolscap.api import Tub
    for val in (True, False):
        t = Tub(certData=E.pem(0))
        t.setOption("expose-remote-exception-types", val)
        t.unsafeTracebacks = not val
        b = broker.Broker(TubRef("x"))
        b.setTub(t)
        if b._expose_remote_exception_types is not val or b.unsafeTracebacks is not (not val):
            ctx.fail("oracle/option-not-propagated", "Tub.setOption('expose-remote-exception-types', %s) / unsafeTracebacks=%s reach "
                     "the Broker as %r / %r" % (val, not val, b._expose_remote_exception_types, b.unsafeTracebacks),
                     replay=dict(value=val))
        ctx.case(["plumbing", val])


LOGS = [None] + [tuple(bool(n >> k & 1) for k in range(4)) for n in range(16)]     # no Tubs at all / the 16 settings


def dims(n):
    """the two extra dimensions of every batch, rotated: the four Tub logging options (caller logLocalFailures,
    caller logRemoteFailures, callee logLocalFailures, callee logRemoteFailures; None = Brokers without a Tub, as in the
    unit tests) and the negotiated vocabulary table (1, as on every real connection / none)"""
    lg = LOGS[(5 * n + 3) % 17]
    return dict(logs=list(lg) if lg is not None else None, vocab=1 if n % 3 != 1 else None)


def sweep(ctx, impl):
    cat = catalogue()
    kept = []
    allopts = [dict(unsafe=u, expose=x) for u in (True, False) for x in (True, False)]
    n = 0
    for ci, f in enumerate(cat):
        for pos in range(3):
            # quick: every fault at every position under one option set (rotating), thorough: all four
            for oi, opts in enumerate(allopts):
                if ctx.tier != "thorough" and oi != (ci + pos) % 4:
                    continue
                if ctx.tier != "thorough" and f.get("r5") and pos == (ci + 2) % 3:
                    continue        # quick: the catalogue entries of round 5 at two of the three positions (rotating)
                if ctx.tier != "thorough" and f.get("r6") and (pos != ci % 3 or (ci + ctx.seed) % 3):
                    continue        # quick: a third of those of round 6 (rotating with VERIF_SEED), each at one position (rotating);
                                    # a fixed witness of each family is in the corpus
                if f.get("r7") and ((pos != ci % 3 or (ci + ctx.seed) % 9) if ctx.tier != "thorough" else
                                    oi not in ((ci + pos) % 4, (ci + pos + 2) % 4)):
                    continue        # round 7 (ChoiceOf with a strict alternative): quick: a ninth (rotating with VERIF_SEED), each at one position
                                    # (rotating); thorough: every entry at every position under two of the four option sets (rotating);
                                    # fixed witnesses of the family (every position, both sides, one-way) are in the corpus
                specs = [dict(kind="ok", v=100 + i) if i % 2 == 0 else dict(kind="ok-add", v=200 + i) for i in range(3)]
                specs[pos] = f
                # after every per-call fault: calls whose arguments share a container, in the same batch and later
                specs.append(dict(kind="shared", variant=impl.SHARED_VARIANTS[(ci + pos) % 4]))
                opts = dict(opts, later_shared=impl.SHARED_VARIANTS[(ci + pos + 1 + oi) % 4], middle_expose=bool((ci + pos) % 2),
                            **dims(3 * ci + pos + 7 * oi))
                if pos == 1:        # fault-free neighbours that are vocabulary words / use the typed target
                    specs[0] = dict(kind="ok-vocab", i=ci, **{"as": ("bytes", "str", "key", "list")[ci % 4]})
                    specs[2] = dict(kind="vocab-method", i=ci + 5) if ci % 2 else dict(kind="typed-ok")
                r = run_one(ctx, impl, specs, opts, "sweep")
                kept.append((specs, opts, r))
                n += 1
    # several faults in one call
    mc = multi_catalogue(ctx.tier == "thorough")
    for mi, f in enumerate(mc):
        opts = dict(allopts[mi % 4], later_shared=impl.SHARED_VARIANTS[mi % 4], **dims(mi))
        specs = [dict(kind="ok", v=300 + mi), f, dict(kind="ok-add", v=mi), dict(kind="shared", variant=impl.SHARED_VARIANTS[(mi + 1) % 4])]
        if mi % 3 == 1:
            specs = [specs[1], specs[0]] + specs[2:]
        r = run_one(ctx, impl, specs, opts, "multi")
        kept.append((specs, opts, r))
        ctx.hist("multi_faults_in_one_call", "%d caller-side + %d callee-side%s" % (
            sum(k in CALLER_SIDE for k in f["slots"]), sum(k in ("illtyped", "illtyped-deep") for k in f["slots"]) if f["target"] == "typed" else 0,
            "" if f.get("known", True) else " + unknown method"))
    # histories of failing calls whose exception classes share a bare name but not a module: every ordered pair, in one
    # batch and across batches (what the caller keeps about remote types is process-wide state)
    groups = {}
    for h in HOMONYM_NAMES:
        groups.setdefault(h.split("@")[0], []).append(h)
    hi = 0
    for g in sorted(groups):
        for a in groups[g]:
            for b in groups[g]:
                if a == b:
                    continue
                hi += 1
                opts = dict(allopts[hi % 4], later_shared="twice", **dims(hi))
                m1, m2 = MSGS[hi % len(MSGS)], MSGS[(hi + 5) % len(MSGS)]
                for specs in ([dict(kind="raise", cls=a, msg=m1), dict(kind="ok", v=hi), dict(kind="raise", cls=b, msg=m2)],
                              [dict(kind="raise", cls=b, msg=m1)], [dict(kind="raise", cls=a, msg=m2), dict(kind="raise", cls=a, msg=m1)]):
                    r = run_one(ctx, impl, specs, opts, "homonym")
                    kept.append((specs, opts, r))
    ctx.sample(dict(kind="sweep", specs=kept[7][0], opts=kept[7][1], observed=[short(x) for x in kept[7][2]["results"]]))
    # random batches: 4-6 calls, each faulty with probability 0.4
    for i in range(ctx.n(40, 1500)):
        size = ctx.rng.choice([4, 5, 6])
        specs = []
        for j in range(size):
            if ctx.rng.random() < 0.4:
                specs.append(ctx.rng.choice(cat) if ctx.rng.random() < 0.7 else ctx.rng.choice(mc))
            else:
                u = ctx.rng.random()
                specs.append(dict(kind="ok", v=ctx.rng.randrange(-5, 10 ** 6)) if u < 0.35 else
                             dict(kind="ok-add", v=ctx.rng.randrange(0, 2 ** 40)) if u < 0.7 else
                             dict(kind="shared", variant=ctx.rng.choice(impl.SHARED_VARIANTS)))
        opts = dict(ctx.rng.choice(allopts), later_shared=ctx.rng.choice(impl.SHARED_VARIANTS), middle_expose=ctx.rng.random() < 0.5,
                    **dims(ctx.rng.randrange(51)))
        r = run_one(ctx, impl, specs, opts, "random")
        kept.append((specs, opts, r))
        ctx.hist("faults_per_batch", sum(1 for s in specs if s["kind"] not in ("ok", "ok-add", "shared", "ok-vocab", "vocab-method", "typed-ok", "choice-ok")
                                         and not (s["kind"] == "multi" and isinstance(multi_expect(s), tuple))))
    ctx.sample(dict(kind="random", specs=kept[-1][0], opts=kept[-1][1], observed=[short(x) for x in kept[-1][2]["results"]]))
    ctx.extra["batches"] = len(kept)
    return kept


def special(ctx, impl):
    kept = []
    for name, f in SPECIAL:
        for pos in (0, 1):
            specs = [dict(kind="ok", v=1), dict(kind="ok", v=2), dict(kind="ok", v=3)]
            specs[pos] = f
            opts = dict(unsafe=bool(pos), expose=True)
            with impl.quiet():
                r = impl.run_batch(specs, opts)
            kept.append((specs, opts, r))
            ctx.case(["special", name, pos], nontrivial=all(r["fired"]))
            ctx.hist("special_outcome", name + (": connection dropped" if any(r["disconnected"]) else ": connection kept"))
            # these are per-call faults: the call must fail (or succeed), siblings and the connection must not notice
            replay = dict(specs=specs, opts=opts, observed=[short(x) for x in r["results"]], disconnected=r["disconnected"])
            sib_bad = [i for i, (s, d) in enumerate(zip(specs, r["results"])) if s["kind"] == "ok" and (d is None or not d["ok"] or d["value"] != s["v"])]
            lt = r["later"]
            if any(r["disconnected"]) or sib_bad or r["escaped"] or len(lt) != 2 or not lt[0]["ok"] or not lt[1]["ok"]:
                ctx.fail("oracle/sibling-affected/" + name,
                         "a fault that belongs to one call (%s%s) took the connection down: disconnected=%s, sibling calls %s got %s; "
                         "batch %s" % (name, ": the remote method raises type('NoMod', (Exception,), {'__module__': None})()" if
                                       name == "exception-class-without-module" else "", r["disconnected"], sib_bad,
                                       [short(r["results"][i]) for i in sib_bad][:2], json.dumps(specs)),
                         replay=replay)
            else:
                d = r["results"][pos]
                if d is None or d["ok"]:
                    ctx.fail("oracle/call-not-failed/" + name, "the faulty call did not fail: %r%s" % (short(d), SPECIAL_NOTE.get(name, "")), replay=replay)
                elif f["kind"] == "raise" and (d["type"] == "foolscap.tokens.Violation" or not d["copied"]):
                    ctx.fail("oracle/failure-misreported/" + name, "the remote exception arrived as %r" % (short(d),), replay=replay)
    return kept


def answer_crash_path(ctx, impl):
    """batches for the crash path of lib/Callee.v when an ANSWER is due (d_answer = SCrash, C10_answer_crash_drops_connection): the
    method returns a list nested deeper than the interpreter's recursion limit, the AnswerSlicer hits RecursionError inside produce.
    Correspondence input only (corr_callee); the same defect as the known finding argument-nested-beyond-recursion-limit, met on the
    result: not a signature of known_findings.json, so it is a note, not a failure."""
    kept = []
    for pos in (0, 2):
        specs = [dict(kind="ok", v=1), dict(kind="ok", v=2), dict(kind="ok", v=3)]
        specs[pos] = dict(kind="result-deep", depth=2000)
        opts = dict(unsafe=False, expose=True)
        with impl.quiet():
            r = impl.run_batch(specs, opts)
        kept.append((specs, opts, r))
        ctx.case(["answer-crash", pos], nontrivial=all(r["fired"]))
        if any(r["disconnected"]) and pos == 0:
            ctx.note("C10: a RESULT nested deeper than the interpreter's recursion limit raises RecursionError in the AnswerSlicer inside "
                     "Banana.produce: connection dropped, siblings get DeadReferenceError (candidate signature "
                     "oracle/sibling-affected/result-nested-beyond-recursion-limit; same cause as the known finding "
                     "argument-nested-beyond-recursion-limit); used as input of the crash-path correspondence of lib/Callee.v")
    return kept


# ------------------------------------------------------------------------------------------------ correspondence: send side
def tree_of(impl, v, seen):
    """Python value -> Coq `item` term (token values abstracted to 0).  `seen`: ids of the containers already begun in
    this call's scope -- a second occurrence is sent as a `reference` sequence"""
    if isinstance(v, impl.Unsendable):
        return "Unsendable"
    if v == "@gift":
        return "Sub [Tok 0; Tok 0; Tok 0]"      # their-reference, giftID, url
    if isinstance(v, impl.RaisingSlicer):
        return "Sub " + coq_list(["Tok 0"] * (1 + v.n) + ["RaiseV"])
    if isinstance(v, bool):
        return "Sub [Tok 0; Tok 0]"
    if isinstance(v, (int, float, bytes)):
        return "Tok 0"
    if type(v).__name__ == "Decimal":
        return "Sub [Tok 0; Tok 0]"            # 'decimal', text
    if isinstance(v, str):
        try:
            v.encode("utf-8")
        except UnicodeEncodeError:
            return "Sub [Tok 0; RaiseV]"       # UnicodeSlicer: 'unicode', then sliceBody raises Violation
        return "Sub [Tok 0; Tok 0]"
    if v is None:
        return "Sub [Tok 0]"
    if isinstance(v, (list, tuple, dict, set)):
        if id(v) in seen:
            return "Sub [Tok 0; Tok 0]"        # ReferenceSlicer: 'reference', refid
        seen.add(id(v))
    if isinstance(v, (list, tuple, set)):
        return "Sub " + coq_list(["Tok 0"] + ["(%s)" % tree_of(impl, x, seen) for x in v])
    if isinstance(v, dict):
        items = []
        for k in v:          # order is irrelevant for the skeleton when keys are primitive and there is one value
            items += ["(%s)" % tree_of(impl, k, seen), "(%s)" % tree_of(impl, v[k], seen)]
        return "Sub " + coq_list(["Tok 0"] + items)
    raise ValueError("no tree for %r" % (v,))


def call_tree(impl, spec):
    """the CallSlicer of one callRemote as an `item`; None if the call never reaches Broker.send"""
    spec = base(spec)       # (a one-way call is the same `call` sequence with request id 0)
    k = spec["kind"]
    kw = {}
    if k == "ok":
        args = [spec["v"]]
    elif k == "multi":
        a = impl.multi_args(spec)
        if spec["target"] == "plain":
            args, kw = [a[0], a[1]], {"c": a[2]}
        else:
            args, kw = [a[0]], {"b": a[1], "c": a[2]}
    elif k == "ok-vocab":
        args = [impl.vocab_value(spec)]
    elif k == "vocab-method":
        args, kw = [], {"x": spec["i"], impl.message(["vocab", spec["i"]]).replace("-", "_"): 1}
    elif k == "typed-ok":
        args = [[1, 2, 3]]
    elif k == "typed-raise":
        args = [spec["i"]]
    elif k == "relay":
        args = [spec["cls"], spec["msg"][0], spec["msg"][1]]
    elif k == "gift":
        args = [impl.nest(spec["depth"], "@gift")]
    elif k == "shared":
        args = [impl.shared_value(spec["variant"])]
    elif k == "ok-add":
        args, kw = [spec["v"]], {"b": 1}
    elif k == "unserializable":
        args = [impl.nest(spec["depth"], impl.Unsendable(), spec.get("sibling"))]
    elif k == "slicer-raises":
        args = [impl.nest(spec["depth"], impl.RaisingSlicer(spec["n"]))]
    elif k in ("illtyped-choice", "choice-ok", "result-choice"):
        args = [impl.choice_arg(spec)]
    elif k == "illtyped":
        args = [{0: "notalist", 1: [1, "x", 3], 2: [[[1]], "x"], 3: [[[1]], [["x"]], [[2]]]}[spec["depth"]]]
    elif k == "mixed-keys":
        args = [{1: 2, 'a': 3}]
    elif k == "ok-badrepr":
        args = [spec["v"]]
    elif k == "raise-badrepr":
        args = [spec["cls"], spec["msg"][0], spec["msg"][1]]
    elif k == "dict-keys":
        args = [impl.nest(spec["depth"], impl.dict_keys_value(spec["variant"]))]
    elif k == "arg-surrogate":
        args = [impl.nest(spec["depth"], u"ab\udcffcd")]
    elif k == "raise":
        args = [spec["cls"], spec["msg"][0], spec["msg"][1]]
    elif k == "raise-noargs":
        args = [spec["cls"]]
    elif k == "unknown-method-typed" and spec.get("nested"):
        args = [["one list", ["nested"]], {"k": ("v", [1, 2])}]
    elif k in ("unknown-method", "unknown-method-typed", "unknown-object", "result-violates-callee"):
        args = [1]
    elif k == "result-violates-caller":
        args = []
    elif k == "result-unsendable":
        args = [spec["depth"]]
    elif k == "wrong-arity":
        args = [1, 2, 3]
    else:
        raise ValueError(k)
    seen = set()
    argitems = ["Tok 0", "Tok 0"] + ["(%s)" % tree_of(impl, a, seen) for a in args]
    for name in sorted(kw):
        argitems += ["Tok 0", "(%s)" % tree_of(impl, kw[name], seen)]
    return "Sub [Tok 0; Tok 0; Tok 0; Tok 0; Sub %s]" % coq_list(argitems)


def corr_send(ctx, impl, batches):
    """caller side of every batch: the OPEN/CLOSE/ABORT skeleton (with numbers) and the count of primitive tokens written by
    the real Banana.produce vs `run` of lib/Send.v on the trees of the CallSlicers; and which objectSentDeferreds failed"""
    later_add = call_tree(impl, dict(kind="ok-add", v=40))
    # with a gift in the batch the callee calls back (decgift) and the caller writes answers of its own: oracle only
    batches = [b for b in batches if not any(base(s)["kind"] == "gift" for s in b[0])]
    # the callee dropped the connection while writing a reply (known findings): lib/Send.v models the caller's own writes, it has no
    # event "the peer went away"; those batches are compared with lib/Callee.v (corr_callee, crash path)
    batches = [b for b in batches if not b[2]["deliveries"]["crashes"]]
    shard = 150
    nbad = 0
    total = 0
    for si in range(0, len(batches), shard):
        part = batches[si:si + shard]
        lines = []
        for specs, opts, r in part:
            trees = [call_tree(impl, s) for s in specs] + [later_add, call_tree(impl, dict(kind="shared", variant=opts.get("later_shared", "mixed")))]
            lines.append("(%s, %s)" % (coq_Z(r["open0"]), coq_list(trees)))
        body = """
Definition code (t : tok) : Z * Z := match t with TOpen n => (0, n) | TClose n => (1, n) | TAbort n => (2, n) | TData _ => (3, 0) end%Z.
Definition lcode (o : outcome) : Z := match o with OSent _ => 0 | OAborted => 1 | ONotStarted => 2 end%Z.
Definition cases : list (Z * list item) := """ + coq_list(lines) + """.
Eval vm_compute in map (fun c => let s := run (init (fst c)) (flat_map events_of_top (snd c)) in
                                 (map code (out s), map lcode (log s), up s, cnt s)) cases.
"""
        try:
            (vals,) = ctx.coq_eval("C10_send_%d" % (si // shard), body, requires=REQ_S)
        except common.CoqEvalError as e:
            ctx.fail("correspondence-broken", "lib/Send.v could not be evaluated: " + str(e)[-1500:], has_input=False)
            return
        for (specs, opts, r), (mout, mlog, mup, mcnt) in zip(part, vals):
            total += 1
            ctx.traces += 1
            real = []
            for t in impl.tokenize(r["caller_bytes"]):
                real.append({"OPEN": (0, t[1]), "CLOSE": (1, t[1]), "ABORT": (2, t[1])}.get(t[0], (3, 0)) if len(t) > 1 else (3, 0))
            # which calls' sends were aborted on the real side: the caller saw a local, uncopied Violation that is not about the answer
            real_log = []
            for s, d in zip(specs, r["results"]):
                caller_fault = (base(s)["kind"] in ("unserializable", "slicer-raises", "arg-surrogate") or
                                (base(s)["kind"] == "multi" and multi_expect(base(s)) == "local"))
                # (a one-way call has no Deferred to consult: the written tokens, compared below, show the ABORT)
                aborted = caller_fault and (s["kind"] == "only" or (d is not None and not d["ok"] and not d["copied"]))
                real_log.append(1 if aborted else 0)
            real_log += [0, 0]
            real_up = not r["disconnected"][0]
            if mup and real_up and not r["disconnected"][1] and (mcnt != r["counters"]["caller_sent"] or mcnt != r["counters"]["callee_seen"]):
                nbad += 1
                ctx.fail("correspondence/open-counter", "lib/Send.v numbers the next OPEN %d; the caller's openCount is %d and the callee's "
                         "objectCounter is %d after batch %s" % (mcnt, r["counters"]["caller_sent"], r["counters"]["callee_seen"], json.dumps(specs)),
                         replay=dict(specs=specs, opts=opts, model=mcnt, impl=r["counters"]), has_input=False)
            if [tuple(x) for x in mout] != real or mlog != real_log or mup != real_up:
                nbad += 1
                if nbad <= 2:
                    ctx.fail("correspondence/send", "lib/Send.v and Banana.produce disagree on batch %s: model wrote %s log %s up %s, "
                             "implementation wrote %s log %s up %s" % (json.dumps(specs), render(mout), mlog, mup, render(real), real_log, real_up),
                             replay=dict(specs=specs, opts=opts, model=[mout, mlog, mup], impl=[real, real_log, real_up]), has_input=False)
    ctx.extra["send_correspondence_cases"] = total
    ctx.extra["send_correspondence_disagreements"] = nbad


def render(toks):
    return " ".join("%s%s" % ("OCAT"[int(k)], n if int(k) < 3 else "") for k, n in toks)


# ------------------------------------------------------------------------------------------------ correspondence: Failure fields
def cps(s):
    """str -> Coq term of type list Z (code points), run-length compressed: `tx [(unit, repetitions); ...]`
    (coqc is slow on literals with 10^5 numerals)"""
    chunks = []
    lit = []
    i, n = 0, len(s)
    while i < n:
        best = None
        for p in (1, 2, 3, 4, 8):
            u = s[i:i + p]
            if len(u) < p:
                break
            k = 1
            while s[i + k * p:i + (k + 1) * p] == u:
                k += 1
            if k * p >= 16 and (best is None or k * p > best[0] * best[1]):
                best = (k, p)
        if best:
            if lit:
                chunks.append((lit, 1))
                lit = []
            k, p = best
            chunks.append(([ord(c) for c in s[i:i + p]], k))
            i += k * p
        else:
            lit.append(ord(s[i]))
            i += 1
    if lit:
        chunks.append((lit, 1))
    return "(tx [" + ";".join("([%s],%d)" % (";".join(str(x) for x in u), k) for u, k in chunks) + "])"


TX = "Definition tx (l : list (list Z * Z)) : list Z := flat_map (fun c => List.concat (List.repeat (fst c) (Z.to_nat (snd c)))) l.\n"


def failure_cases(ctx, impl):
    cases = []
    # (class, message, unsafe, parents override, traceback override)
    for i, m in enumerate(MSGS + [["latin", 1500], ["astral", 3000], ["cjk", 333], ["cjk", 334], ["mixed", 5000]]):
        for ci in ((i, i + 3) if ctx.tier == "thorough" or i % 3 == 0 else (i,)):
            cases.append((CLASSES[ci % len(CLASSES)], impl.message(m), bool((i + ci) % 2), None, None))
    # byte lengths around every limit, with the cut at each offset inside 2-, 3- and 4-byte characters
    for pad in range(0, 5):
        for ch in (u"é", u"中", u"\U0001F600"):
            cases.append(("ValueError", "x" * pad + ch * 400, False, None, None))
    # parents / type: long names with multi-byte characters
    for n in (190, 198, 199, 200, 201, 250):
        cases.append(("MyError", "m", False, ["p" * n, u"é" * (n // 2), u"m." + u"中" * (n // 3), "builtins.object"], None))
    # traceback: elision threshold (characters) and truncation (bytes)
    for n in (10, 1899, 1900, 1901, 1926, 2500):
        for ch in ("t", u"é", u"\U0001F600"):
            tb = (ch * 7 + "\n") * (n // 8) + ch * (n % 8)
            cases.append(("KeyError", "k", True, None, tb))
    cases.append(("ValueError", u"ab\udcffcd", False, None, None))        # text without a UTF-8 form: escaped
    cases.append(("ValueError", u"\udcff" * 600, True, None, None))
    cases.append(("OSError", u"x" * 990 + u"\ud800\udfff" * 3, False, None, None))   # the cut falls inside an escape
    cases.append(("MyError", "m", False, [u"p\udc80" * 40, "builtins.object"], None))
    # long ancestries: real layered hierarchies / many mixins, and substituted lists around the customary list limits
    for c in DEEP_NAMES[(0 if ctx.tier == "thorough" else 2)::(1 if ctx.tier == "thorough" else 4)]:
        cases.append((c, "deep", False, None, None))
    for n in ((0, 1, 29, 30, 31, 32, 63, 64, 65, 128, 129, 300) if ctx.tier == "thorough" else (30, 31, 129)):
        cases.append(("MyError", "m", bool(n % 2), ["app.layer%d.E%d" % (i, i) for i in range(n)], None))
    # classes reflect.qual cannot name: getStateToCopy raises (model: e_type / e_parents = Exc); with a substituted parents list only
    # the type raises
    cases.append(("NoModError", "x", False, None, None))
    cases.append(("NoModBaseError", "x", True, None, None))
    cases.append(("NoModError", "x", True, ["app.E", "builtins.object"], None))
    cases.append(("BadStrError", "x", False, None, None))                  # str() raises: reflect.safe_str's text
    cases.append(("BadStrError", "x", True, None, None))
    for c in UNRENDERABLE[1:]:
        cases.append((c, "x", False, None, None))
    for i in range(ctx.n(12, 600)):
        k = ctx.rng.choice(["ascii", "latin", "cjk", "astral", "mixed", "asciithen"])
        n = ctx.rng.choice([ctx.rng.randrange(0, 40), ctx.rng.randrange(240, 260), ctx.rng.randrange(320, 340), ctx.rng.randrange(490, 510),
                            ctx.rng.randrange(990, 1010), ctx.rng.randrange(1000, 4000)])
        cases.append((ctx.rng.choice(CLASSES), impl.message([k, n]), ctx.rng.random() < 0.5, None, None))
    return cases


def corr_failure(ctx, impl):
    """FailureSlicer.getStateToCopy on real Failures vs get_state of lib/Failure.v: every field, byte for byte (compared
    through length and a polynomial hash), including the cases where both raise"""
    cases = failure_cases(ctx, impl)
    H = 1000000007

    def h(b):
        acc = 0
        for x in b:
            acc = (acc * 257 + x + 1) % H
        return acc
    obs = []
    lines = []
    for cls, msg, unsafe, parents, tb in cases:
        c = impl.EXC_CLASSES[cls]
        st, inp = impl.failure_state(c, msg, unsafe, parents, tb)
        if isinstance(st, dict) and inp["parents"] is not None and (len(st["parents"]) != len(inp["parents"]) or not all(
                trunc_expect(w, 200)(g.decode("utf-8", "replace")) for w, g in zip(inp["parents"], st["parents"]))):
            # "identifies the remote exception's type by class name AND ancestry": one entry per class of the MRO, in order
            ctx.fail("oracle/failure-misreported", "getStateToCopy sends %d of the %d classes of the ancestry of %s (kept: %s .. %s; the MRO "
                     "ends in %s): the caller's Failure.check()/trap() no longer recognise the dropped ancestors" % (
                         len(st["parents"]), len(inp["parents"]), inp["type"], ascii(st["parents"][:1]), ascii(st["parents"][-1:]), inp["parents"][-3:]),
                     replay=dict(cls=cls, n_parents=len(inp["parents"]), sent=len(st["parents"]), unsafe=unsafe, parents_tail=inp["parents"][-4:]))
        if isinstance(st, dict):
            o = [1, [len(st["type"]), h(st["type"])], [len(st["value"]), h(st["value"])], [len(st["traceback"]), h(st["traceback"])],
                 [[len(p), h(p)] for p in st["parents"]]]
            if not (len(st["type"]) <= 200 and len(st["value"]) <= 1000 and len(st["traceback"]) <= 2000 and all(len(p) <= 200 for p in st["parents"])):
                ctx.fail("oracle/failure-misreported", "getStateToCopy produced a field that the peer's FailureConstraint rejects: type %d value %d "
                         "traceback %d parents %s bytes for %s(%d chars)" % (len(st["type"]), len(st["value"]), len(st["traceback"]),
                                                                             [len(p) for p in st["parents"]], cls, len(msg)),
                         replay=dict(cls=cls, msg=ascii(msg[:50]), n=len(msg), unsafe=unsafe))
        else:
            o = [0, st]
            ctx.fail("oracle/sibling-affected/" + ("exception-class-without-module" if cls in UNNAMEABLE else "getStateToCopy-raises"),
                     "FailureSlicer.getStateToCopy raised %s for %s(%s.. %d chars): inside "
                     "Banana.produce this drops the connection" % (st, cls, ascii(msg[:10]), len(msg)),
                     replay=dict(cls=cls, msg=ascii(msg[:50]), n=len(msg), unsafe=unsafe))
        obs.append(o)
        estr = "(Ok %s)" % cps(inp["str"][1]) if inp["str"][0] == "ok" else '(Exc "%s"%%string)' % inp["str"][1]
        tstr = "(Ok %s)" % cps(inp["type_res"][1]) if inp["type_res"][0] == "ok" else '(Exc "%s"%%string)' % inp["type_res"][1]
        pstr = ("(Ok %s)" % coq_list([cps(p) for p in inp["parents_res"][1]]) if inp["parents_res"][0] == "ok" else
                '(Exc "%s"%%string)' % inp["parents_res"][1])
        lines.append("(%s, Build_exc %s %s %s %s %s)" % (coq_bool(unsafe), tstr, estr, cps(inp["fallback"]), cps(inp["stack"]), pstr))
        ctx.case(["failure", cls, len(msg), ascii(msg[:3]), unsafe, parents is not None, tb is not None and len(tb)], nontrivial=True)
        ctx.hist("failure_case", "unnameable-class-raises" if o[0] == 0 and cls in UNNAMEABLE else "raises" if o[0] == 0 else "str-raises" if inp["str"][0] != "ok" else
                 "escaped" if any(0xD800 <= ord(ch) < 0xE000 for ch in msg) else
                 "truncated-value" if len(msg.encode("utf-8", "replace")) > 1000 else "fits")
    shard = 60
    nbad = 0
    for si in range(0, len(lines), shard):
        body = """
Local Open Scope Z_scope.
""" + TX + """Definition h (b : list Z) : Z := fold_left (fun acc x => (acc * 257 + x + 1) mod 1000000007) b 0.
Definition lh (b : list Z) : list Z := [Z.of_nat (List.length b); h b].
Inductive o := Good (t v tb : list Z) (ps : list (list Z)) (fits : bool) | Raised (e : string).
Definition cases : list (bool * exc) := """ + coq_list(lines[si:si + shard]) + """.
Eval vm_compute in map (fun c => match get_state (fst c) (snd c) with
   | Ok s => Good (lh (s_type s)) (lh (s_value s)) (lh (s_traceback s)) (map lh (s_parents s)) (failure_constraint_ok s)
   | Exc e => Raised e end) cases.
Eval vm_compute in map (fun c => nameable (snd c)) cases.
"""
        try:
            vals, nvals = ctx.coq_eval("C10_failure_%d" % (si // shard), body, requires=REQ_F)
        except common.CoqEvalError as e:
            ctx.fail("correspondence-broken", "lib/Failure.v could not be evaluated: " + str(e)[-1500:], has_input=False)
            return
        for j, v in enumerate(vals):
            ctx.traces += 1
            o = obs[si + j]
            if v[0] == "Good":
                m = [1, v[1], v[2], v[3], v[4]]
                if v[5] is not True:
                    m = ["model says the FailureConstraint rejects"] + m
            else:
                m = [0, v[1]]
            if nvals[j] is not (o[0] == 1):
                m = ["model: nameable = %s" % nvals[j]] + m       # C10_failure_returns_iff: getStateToCopy returns iff nameable
            if m != o:
                nbad += 1
                if nbad <= 2:
                    cls, msg, unsafe, parents, tb = cases[si + j]
                    ctx.fail("correspondence/failure-state", "lib/Failure.v and FailureSlicer.getStateToCopy disagree for %s(%s.. %d chars) unsafe=%s: "
                             "model %s implementation %s" % (cls, ascii(msg[:8]), len(msg), unsafe, m, o),
                             replay=dict(cls=cls, msg_head=ascii(msg[:20]), n=len(msg), unsafe=unsafe, model=m, impl=o), has_input=False)
    ctx.extra["failure_correspondence_cases"] = len(lines)
    ctx.extra["failure_correspondence_disagreements"] = nbad


# ------------------------------------------------------------------------------------------------ correspondence: receive side
def corr_recv(ctx, impl, batches):
    """(a) the counting receiver of lib/Send.v (cstate / cstep) against the real Banana.handleData with the real PB unslicers,
    token by token, in both directions of every batch: the real Broker is handed its input one token at a time; after
    every token objectCounter, nesting (discardCount + unslicers above the root + pending index phase) and "discarding" are
    compared with the model run on the same tokens, with `viol` = handleViolation was called by the real code at that token.
    (b) the delivery-queue model (drain) against what the callee's Broker really did with each delivery, given the real
    arrival order and the real outcome of each ready_deferred."""
    entries = []        # (batch index, [(side, c0, coq list of tokens, n)], coq queue)
    for bi, (specs, opts, r) in enumerate(batches):
        if any(r["disconnected"]):
            continue
        traces = []
        for side in ("callee", "caller"):
            c0, rows, overflow = r["recv_trace"][side]
            nviol = sum(1 for z in rows if z & 4)
            # quick tier: a direction in which nothing was rejected only for every fourth batch
            if not len(rows) or overflow or (ctx.tier != "thorough" and bi % 4 and not nviol):
                continue
            # one token = one 36-bit primitive integer (packed by RecvTrace): objectCounter (12 bits), nesting (8), discarding (1),
            # number (12), violation (1), kind (2)
            traces.append((side, "(%s, [%s]%%uint63)" % (coq_Z(c0), ";".join(str(z) for z in rows)), len(rows)))
            ctx.hist("recv_trace_violations", nviol)
        q = r["deliveries"]["queue"]
        entries.append((bi, traces, coq_list(["(%d, %s)" % (i, "ReadyFails" if f else "ReadyOk") for i, f in q])))
        ctx.hist("delivery_queue", "%d deliveries, %d not ready" % (min(len(q), 6), sum(f for _, f in q)))
    nbad = nbadq = ntr = ntok = 0
    shard = 170
    for si in range(0, len(entries), shard):
        part = entries[si:si + shard]
        flat = [(bi, side, n) for bi, traces, _ in part for side, _, n in traces]
        body = """
Require Import Coq.Numbers.Cyclic.Int63.Uint63.
Local Open Scope Z_scope.
Definition obs (c : cstate) : Z * Z * Z * Z := (ccount c, Z.of_nat (cdepth c), (if cdiscard c then 1 else 0), (if cagree c then 0 else 1)).
Fixpoint cmp (c : cstate) (i : Z) (l : list Uint63.int) : Z * (Z * Z * Z * Z) :=
  match l with
  | w :: r =>
    let z := Uint63.to_Z w in
    let kk := z mod 8 in let n := (z / 8) mod 4096 in let o := z / 32768 in
    let t := match kk mod 4 with 0 => TOpen n | 1 => TClose n | 2 => TAbort n | _ => TData 0 end in
    let c' := cstep c (t, 4 <=? kk) in
    if (ccount c' =? o / 512) && (Z.of_nat (cdepth c') =? (o / 2) mod 256) && (Bool.eqb (cdiscard c') (o mod 2 =? 1)) && cagree c'
    then cmp c' (i + 1) r else (i, obs c')
  | [] => (-1, (0, 0, 0, 0))
  end.
Definition cases : list (Z * list Uint63.int) := """ + coq_list([t for _, traces, _ in part for _, t, _ in traces]) + """.
Eval vm_compute in map (fun c => cmp (cinit (fst c)) 0 (snd c)) cases.
Definition hcode (h : handled) : Z := match h with Ran i => 2 * i | Refused i => 2 * i + 1 end.
Definition queues : list (list (Z * readiness)) := """ + coq_list([qq for _, _, qq in part]) + """.
Eval vm_compute in map (fun q => map hcode (drain false q)) queues.
"""
        try:
            vals, qvals = ctx.coq_eval("C10_recv_%d" % (si // shard), body, requires=REQ_S)
        except common.CoqEvalError as e:
            ctx.fail("correspondence-broken", "lib/Send.v (cstep, drain) could not be evaluated: " + str(e)[-1500:], has_input=False)
            return
        for (bi, side, n), (idx, mobs) in zip(flat, vals):
            ctx.traces += 1
            ntr += 1
            ntok += n
            if idx != -1:
                nbad += 1
                if nbad <= 2:
                    specs, opts, r = batches[bi]
                    z = r["recv_trace"][side][1][idx]
                    row = [z & 3, (z >> 3) & 4095, bool(z & 4), z >> 24, (z >> 16) & 255, bool((z >> 15) & 1)]
                    ctx.fail("correspondence/receiver-bookkeeping", "the counting receiver of lib/Send.v and Banana.handleData on the %s disagree at "
                             "token %d of batch %s: real (kind, number, violation, objectCounter, nesting, discarding) = %s, "
                             "model (count, depth, discarding, numbers disagree) = %s" % (
                                 side, idx, json.dumps(specs), row, list(mobs)),
                             replay=dict(specs=specs, opts=opts, side=side, token=idx, real=row, model=list(mobs)), has_input=False)
        for (bi, _, _), mh in zip(part, qvals):
            ctx.traces += 1
            specs, opts, r = batches[bi]
            real = [2 * i + k for k, i in r["deliveries"]["handled"]]
            if list(mh) != real:
                nbadq += 1
                if nbadq <= 2:
                    ctx.fail("correspondence/delivery-queue", "lib/Send.v (drain) and Broker.doNextCall disagree on batch %s: queue (reqID, "
                             "readiness failed) %s; model handles %s, the Broker handled %s (2*reqID = ran, 2*reqID+1 = refused)" % (
                                 json.dumps(specs), r["deliveries"]["queue"], list(mh), real),
                             replay=dict(specs=specs, opts=opts, queue=r["deliveries"]["queue"], model=list(mh), impl=real), has_input=False)
    ctx.extra["recv_correspondence_traces"] = ntr
    ctx.extra["recv_correspondence_tokens"] = ntok
    ctx.extra["recv_correspondence_disagreements"] = nbad
    ctx.extra["drain_correspondence_cases"] = len(entries)
    ctx.extra["drain_correspondence_disagreements"] = nbadq


def corr_callee(ctx, impl, batches):
    """lib/Callee.v (the translated callFailed / _callFinished / doNextCall chain / reportViolation, interpreted) against the real
    callee Broker of every batch: per `call` sequence whose request id became known, everything the model takes as a parameter
    is observed on the real objects (DeliveryLog); the model's messages (answer / aborted answer / error, per request id, IN
    ORDER), its activeLocalCalls and `connection up` are compared with what was really handed to Broker.send, the real table and
    Broker.disconnected.
    The history given to the model is the observed order in which the callee CONCLUDED the calls (DeliveryLog.history: a
    rejected call at CallUnslicer.reportViolation, i.e. while it is parsed; a delivery when its chain reaches _callFinished /
    callFailed, a later turn), not the order of arrival: a call rejected after a delivery arrived is answered before that
    delivery runs, so when the delivery's `error` cannot be serialized (crash path) the rejected call's `error` is already on
    the wire -- in arrival order the model would put it after the crash and never write it."""
    cases, meta = [], []
    for bi, (specs, opts, r) in enumerate(batches):
        dl = r["deliveries"]
        ins = []
        for x in dl["history"]:
            if x["kind"] == "rejected":
                ins.append("InRejected %s (mk %d false true false true 0 %s false false %s)" % (
                    coq_bool(x["abort"]), x["reqid"], coq_bool(x["log_local"]), coq_bool(x["nameable"])))
            else:
                # answer: 0 written / 1 aborted by a Violation of one of its slicers / 2 Banana.sendFailed was called while it was
                # being written (observed: DeliveryLog.crashes); nameable: observed on the failure handed to callFailed
                ins.append("InDelivered (mk %d %s %s %s %s %d %s %s %s %s)" % (
                    x["reqid"], coq_bool(x["schema"]), coq_bool(x["ready"]), coq_bool(x["raises"]), coq_bool(x["result_ok"]), x["answer"],
                    coq_bool(x["log_local"]), coq_bool(x["repr_raises"]), coq_bool(x["render_raises"]), coq_bool(x["nameable"])))
            ctx.hist("callee_inbound", x["kind"] + ("" if x["kind"] == "rejected" else ":" + ("not-ready" if not x["ready"] else "raises" if x["raises"]
                     else "result-rejected" if not x["result_ok"] else "answer-aborted" if x["answer"] else "answered") +
                     (" unformattable" if x["repr_raises"] else "")))
        # THE CRASH PATH: the callee's own Banana.sendFailed ran while one of its answers / errors was being written -- the
        # model must say `connection dropped` at exactly that call, with exactly the messages written before it.  A connection
        # that went down for another reason (the caller's side crashed: argument-nested-beyond-recursion-limit; a patched tree)
        # is outside lib/Callee.v, which has no event "the peer went away".
        crashed = bool(dl["crashes"])
        if crashed and not all(k in (0, 2) for k, _ in dl["crashes"]):
            continue          # sendFailed outside any answer / error: not the callee's reply path
        if any(r["disconnected"]) and not crashed:
            continue
        ctx.hist("callee_path", "crash: %s" % ("answer" if dl["crashes"][0][0] == 0 else "error") if crashed else "connection kept")
        cases.append(coq_list(ins))
        meta.append(bi)
    nbad = 0
    for si in range(0, len(cases), 400):
        body = """
Local Open Scope Z_scope.
Definition x0 : exc := {| e_type := Ok [86]; e_str := Ok [109]; e_fallback := []; e_stack := []; e_parents := Ok [] |}.
Definition xbad : exc := {| e_type := Exc "TypeError"%string; e_str := Ok [109]; e_fallback := []; e_stack := []; e_parents := Exc "TypeError"%string |}.
Definition mk r sch rdy rs rok (ans : Z) ll rr rn (nm : bool) : denv :=
  {| d_reqid := r; d_schema := sch; d_ready := rdy; d_raises := rs; d_result_ok := rok;
     d_answer := (if ans =? 0 then SOk else if ans =? 1 then SViolation else SCrash);
     d_log_local := ll; d_repr_raises := rr; d_render_raises := rn; d_unsafe := false; d_exc := if nm then x0 else xbad |}.
Definition mcode (m : msg) : Z * Z := match m with MAnswer r => (0, r) | MAnswerAborted r => (1, r) | MError r _ => (2, r) end.
Definition cases : list (list inbound) := """ + coq_list(cases[si:si + 400]) + """.
Eval vm_compute in map (fun ins => let s := handle_all ins cinit0 in (map mcode (sent s), active s, cup s)) cases.
"""
        try:
            (vals,) = ctx.coq_eval("C10_callee_%d" % (si // 400), body, requires=REQ_F + ["Verif.gen.CalleeGen", "Verif.lib.Callee"])
        except common.CoqEvalError as e:
            ctx.fail("correspondence-broken", "lib/Callee.v could not be evaluated: " + str(e)[-1500:], has_input=False)
            return
        for bi, (msent, mactive, mup) in zip(meta[si:si + 400], vals):
            ctx.traces += 1
            specs, opts, r = batches[bi]
            dl = r["deliveries"]
            crashed = bool(dl["crashes"])
            # (after a crash the real table is whatever connectionLost left of it: compared only while the connection is up;
            #  dl["sent"] = what was handed to send() BEFORE the crash -- later answers never reach the wire)
            real = ([tuple(x) for x in dl["sent"]], None if crashed else sorted(dl["active"]), not crashed)
            model = ([tuple(x) for x in msent], None if crashed else sorted(mactive), mup)
            if real != model:
                nbad += 1
                if nbad <= 2:
                    ctx.fail("correspondence/callee-replies", "lib/Callee.v and the callee's Broker disagree on batch %s: history (calls in the "
                             "order the callee concluded them) %s; model (messages (0 answer / 1 aborted answer / 2 error, reqID) in order, "
                             "activeLocalCalls, up) = %s, implementation %s" % (json.dumps(specs), dl["history"], model, real),
                             replay=dict(specs=specs, opts=opts, inbound=dl["inbound"], history=dl["history"], model=[list(map(list, model[0])), model[1], model[2]],
                                         impl=[list(map(list, real[0])), real[1], real[2]]), has_input=False)
    ctx.extra["callee_correspondence_cases"] = len(cases)
    ctx.extra["callee_correspondence_disagreements"] = nbad


def zl(b):
    return "[" + ";".join(str(x) for x in b) + "]"


def corr_small(ctx, impl):
    """the caller-side delivery code run directly: ErrorUnslicer.receiveClose + wrap_remote_failure + Failure.check against
    deliver / delivered_check / delivered_type; PendingRequest.fail against fail_request; the f.type stand-in class of
    CopiedFailure.setCopyableState against requal"""
    from foolscap.tokens import RemoteException
    rx = [qual(c).encode() for c in inspect.getmro(RemoteException)]
    anc = {"plain": [b"builtins.ValueError", b"builtins.Exception", b"builtins.BaseException", b"builtins.object"],
           "remote-exception": rx, "violation": [b"foolscap.tokens.Violation"] + rx[1:], "empty": [],
           "claims-both": [b"app.E", rx[0], b"builtins.object"], "long": [b"p" * 198 + b"..", u"caf\u00e9.E".encode("utf-8")],
           "dup": [b"a.B", b"a.B"]}
    types = [b"builtins.ValueError", rx[0], b"foolscap.tokens.Violation", b"NoDots", b"", b"a..b", u"caf\u00e9.E".encode("utf-8")]
    probes = [b"builtins.ValueError", rx[0], b"builtins.Exception", b"foolscap.tokens.Violation", b"a.B", b"app.E", b"builtins.object",
              u"caf\u00e9.E".encode("utf-8"), b"p" * 198 + b"..", b"", b"builtins.LookupError"]
    cases, real, relay_real = [], [], []
    i = 0
    types = types + [b"x" * 200, b"m." + b"x" * 198, b"x" * 199]      # dotless names at the limit: the relay adds a byte
    for an in sorted(anc):
        for ty in types:
            for expose in (True, False):
                i += 1
                st = dict(type=ty, value=b"v%d" % i, traceback=b"tb", parents=anc[an])
                with impl.quiet():
                    w, intact, ftype, checks = impl.real_deliver(st, expose, [p.decode("utf-8") for p in probes])
                real.append([1 if w else 0, intact, list(ftype.encode("utf-8")), checks])
                cases.append("(%s, Build_fstate %s %s %s %s)" % (coq_bool(expose), zl(ty), zl(st["value"]), zl(b"tb"),
                                                                  coq_list([zl(p) for p in anc[an]])))
                ctx.case(["deliver", an, ty.decode("utf-8"), expose], nontrivial=True)
                rl = impl.real_relay(st, expose)        # (the same boolean doubles as the middle party's unsafeTracebacks)
                relay_real.append([list(rl["type"]), list(rl["value"]), list(rl["traceback"]), [list(x) for x in rl["parents"]],
                                   len(rl["type"]) <= 200] if isinstance(rl, dict) else rl)
    fr_cases, fr_real = [], []
    for lr in (True, False):
        for known in (True, False):
            for active in (True, False):
                with impl.quiet():
                    raised, act, fired = impl.real_fail(lr, known, active)
                fr_real.append([1 if raised else 0, act, fired])
                fr_cases.append("(%s, %s, %s)" % (coq_bool(lr), coq_bool(known), coq_bool(active)))
                ctx.case(["fail", lr, known, active], nontrivial=True)
                if active and (raised or fired != 1):
                    ctx.fail("oracle/call-not-failed", "PendingRequest.fail on an active request %s (Deferred fired %d times) with "
                             "logRemoteFailures=%s on a target %s RemoteInterface" % ("raised" if raised else "returned", fired, lr,
                                                                                        "with" if known else "without"),
                             replay=dict(logRemoteFailures=lr, interface_known=known))
    names = ["a.b.C", "C", "", ".", "a.", ".a", "a..b", u"caf\u00e9.\u4e2d", "builtins.ValueError", "x" * 30 + "." + "y" * 30, "..", "a.b."]
    rq_real = [[ord(c) for c in impl.real_requal(n)] for n in names]
    body = """
Local Open Scope Z_scope.
Definition dcode (d : delivered) (s : fstate) (probes : list (list Z)) :=
  (match d with Copied _ => 0 | Wrapped _ => 1 end,
   match d with Copied s' | Wrapped s' => list_eqb (s_value s') (s_value s) && list_eqb (s_type s') (s_type s)
                                          && (List.length (s_parents s') =? List.length (s_parents s))%nat end,
   requal type_name_separator (delivered_type d), map (delivered_check d) probes).
Definition probes : list (list Z) := """ + coq_list([zl(p) for p in probes]) + """.
Definition cases : list (bool * fstate) := """ + coq_list(cases) + """.
Eval vm_compute in map (fun c => dcode (deliver (fst c) (snd c)) (snd c) probes) cases.
Eval vm_compute in map (fun c => let r := relay_state (fst c) (snd c) in
   (s_type r, s_value r, s_traceback r, s_parents r, bytestring_ok fc_limit_type (s_type r))) cases.
Definition fcases : list (bool * bool * bool) := """ + coq_list(fr_cases) + """.
Eval vm_compute in map (fun c => match c with (lr, known, active) =>
   match fail_request lr known {| p_active := active; p_fired := 0 |} with
   | FailDone r => (0, p_active r, Z.of_nat (p_fired r)) | FailRaised r => (1, p_active r, Z.of_nat (p_fired r)) end end) fcases.
Eval vm_compute in map (requal type_name_separator) """ + coq_list([zl([ord(c) for c in n]) for n in names]) + """.
"""
    try:
        dv, lv, fv, rv = ctx.coq_eval("C10_small", body, requires=REQ_F + ["Verif.gen.SendGen", "Verif.lib.Send", "Verif.lib.Relay"])
    except common.CoqEvalError as e:
        ctx.fail("correspondence-broken", "lib/Failure.v / lib/Send.v (deliver, fail_request, requal) could not be evaluated: " + str(e)[-1500:],
                 has_input=False)
        return
    nbad = 0
    for k, (m, o) in enumerate(zip(dv, real)):
        ctx.traces += 1
        mm = [m[0], m[1], list(m[2]), list(m[3])]
        # (the stand-in class's qual is the requal of the transmitted name: both as UTF-8 bytes)
        if mm != [o[0], o[1], list(o[2]), o[3]]:
            nbad += 1
            if nbad <= 2:
                ctx.fail("correspondence/delivery", "lib/Failure.v (deliver / delivered_check / delivered_type) and ErrorUnslicer.receiveClose + "
                         "wrap_remote_failure + Failure.check disagree on case %s: model (wrapped, fields intact, qual(f.type), check(probes)) = %s, "
                         "implementation %s" % (cases[k][:200], mm, [o[0], o[1], bytes(o[2]).decode("utf-8"), o[3]]),
                         replay=dict(case=cases[k], model=mm, impl=[o[0], o[1], bytes(o[2]).decode("utf-8"), o[3]]), has_input=False)
    for k, (m, o) in enumerate(zip(lv, relay_real)):
        ctx.traces += 1
        mm = [list(m[0]), list(m[1]), list(m[2]), [list(x) for x in m[3]], m[4]]
        if mm != o:
            nbad += 1
            if nbad <= 2:
                ctx.fail("correspondence/relay", "lib/Relay.v (relay_state) and CopiedFailureSlicer.getStateToCopy disagree on case %s: model %s, "
                         "implementation %s" % (cases[k][:200], str(mm)[:300], str(o)[:300]), replay=dict(case=cases[k]), has_input=False)
    for k, (m, o) in enumerate(zip(fv, fr_real)):
        ctx.traces += 1
        if [m[0], m[1], m[2]] != o:
            nbad += 1
            ctx.fail("correspondence/request-fail", "lib/Send.v (fail_request) and PendingRequest.fail disagree for (logRemoteFailures, interface known, "
                     "active) = %s: model (raised, active, fired) = %s, implementation %s" % (fr_cases[k], list(m), o),
                     replay=dict(case=fr_cases[k], model=list(m), impl=o), has_input=False)
    for n, m, o in zip(names, rv, rq_real):
        ctx.traces += 1
        if list(m) != o:
            nbad += 1
            ctx.fail("correspondence/type-name", "lib/Send.v (requal) and the f.type stand-in class of CopiedFailure.setCopyableState disagree on the "
                     "name %r: model %r, reflect.qual(f.type) = %r" % (n, "".join(chr(c) for c in m), "".join(chr(c) for c in o)),
                     replay=dict(name=n), has_input=False)
    ctx.extra["small_correspondence_cases"] = len(cases) + len(fr_cases) + len(names)
    ctx.extra["small_correspondence_disagreements"] = nbad
