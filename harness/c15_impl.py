"""C15: drives the real Banana/Broker timers under the virtual clock.

Two clock modes:
  * exact mode: the unit of time is the millisecond and every time value is a Python int
    (virtual clock, time.time(), timeouts, and banana.EPSILON converted exactly from its
    decimal literal).  The code only adds, subtracts and compares times, so all arithmetic
    is exact and can be compared with the Z-valued model, including at the boundaries.
  * float mode: seconds as floats, banana.EPSILON untouched; used by the direct oracle on
    schedules that keep at least 1 ms distance from every boundary.
"""
from fractions import Fraction
from twisted.python import failure
from twisted.internet.error import ConnectionDone
from harness import implenv as E
import foolscap.banana as ban
from foolscap import broker, referenceable
from foolscap.referenceable import TubRef
from foolscap.ipb import DeadReferenceError
from foolscap.tokens import PING, PONG, BananaError

_ORIG_EPS = ban.EPSILON


def eps_ms():
    fr = Fraction(repr(_ORIG_EPS)) * 1000
    if fr.denominator != 1:
        raise RuntimeError("banana.EPSILON is not a whole number of milliseconds")
    return int(fr)


class FT:
    """transport that records (time, bytes) and the time of loseConnection"""

    def __init__(self):
        self.out = []
        self.lose_at = []
        self.disconnecting = False

    def write(self, d):
        self.out.append((E.clock.seconds(), bytes(d)))

    def loseConnection(self, why=None):
        self.lose_at.append(E.clock.seconds())

    def getPeer(self):
        return broker.LoopbackAddress()

    def getHost(self):
        return broker.LoopbackAddress()


def set_mode(exact):
    E.reset_clock()
    if exact:
        E.clock.rightNow = 0
        ban.EPSILON = eps_ms()
    else:
        ban.EPSILON = _ORIG_EPS


def restore():
    ban.EPSILON = _ORIG_EPS
    E.reset_clock()


def advance_to(t):
    """one reactor turn at time t: everything due runs (eventual-sends included), clock ends at t"""
    c = E.clock
    if t < c.seconds():
        raise ValueError("time goes backwards")
    c.advance(t - c.seconds())
    E.turn()


def timer_calls(b):
    """pending delayed calls that belong to the keepalive/disconnect machinery of broker b"""
    out = {}
    for dc in E.clock.getDelayedCalls():
        f = getattr(dc, "func", None)
        if getattr(f, "__self__", None) is b and f.__name__ in ("keepaliveTimerFired", "disconnectTimerFired"):
            out.setdefault(f.__name__, []).append(dc.getTime())
    return out


class Obs:
    pass


class Run:
    """one connection of a real Broker driven event by event.
    kinds: rx | rxbad | tick | close (at the given time, non-decreasing, same unit as K and T)."""

    def __init__(self, K, T, exact=True, t0=0, with_call=0, stream=None):
        set_mode(exact)
        self.stream = stream      # inbound bytes handed out chunk by chunk by rx events (None: every rx is one PONG byte)
        self.spos = 0
        self.exact = exact
        if t0:
            E.clock.advance(t0)
        self.K, self.T, self.t0 = K, T, t0
        b = self.b = broker.Broker(TubRef("x"), keepaliveTimeout=K, disconnectTimeout=T)
        tr = self.tr = FT()
        b.transport = tr
        o = self.o = Obs()
        o.torn = []
        orig_cto = b.connectionTimedOut

        def cto():
            o.torn.append(E.clock.seconds())
            return orig_cto()
        b.connectionTimedOut = cto
        o.results = []
        o.exc = None
        o.events = []
        with E.quiet():
            b.connectionMade()
            if with_call:
                tracker = referenceable.RemoteReferenceTracker(b, 1, None, None)
                rr = referenceable.RemoteReference(tracker)
                for i in range(with_call):
                    d = rr.callRemote("never_answered", i)
                    d.addBoth(lambda r, i=i: o.results.append((i, E.clock.seconds(), r)))
                E.turn()
                o.rr = rr
        self.nout0 = len(tr.out)
        o.trace = [self.pending()]
        o.counts = [(0, 0)]
        o.payloads = []
        o.kinds = []
        o.closed_at = None

    def pending(self):
        tc = timer_calls(self.b)
        return (self.norm(one(tc.get("keepaliveTimerFired"))), self.norm(one(tc.get("disconnectTimerFired"))))

    def norm(self, x):
        if self.exact and isinstance(x, float) and x == int(x):
            return int(x)
        return x

    def step(self, kind, t, size=1):
        o, b = self.o, self.b
        if o.exc:
            return
        o.events.append((kind, t))
        try:
            with E.quiet():
                if kind == "tick":
                    advance_to(t)
                else:
                    # an arrival / close at time t happens before the reactor gets round to the timers due at t
                    if t < E.clock.seconds():
                        raise ValueError("time goes backwards")
                    E.clock.rightNow = t
                    if kind in ("rx", "rxbad"):
                        # RxBad = a chunk whose processing ends in a receive error (the connection is abandoned); decided
                        # by what happened, because the same bytes are harmless in one receiver state and an error in
                        # another (e.g. 70 zero bytes are an over-long header, or just more bytes of a skipped body)
                        was = b.connectionAbandoned
                        if kind == "rxbad":
                            chunk = b"\x00" * 70
                        else:
                            chunk = PONG
                            if self.stream is not None and self.spos < len(self.stream):
                                chunk = self.stream[self.spos:self.spos + max(1, size)]
                                self.spos += len(chunk)
                        o.kinds.append(chunk_kind(b, chunk))
                        o.payloads.append(chunk.hex())
                        b.dataReceived(chunk)
                        actual = "rxbad" if (kind == "rxbad" and was) or (not was and b.connectionAbandoned) else "rx"
                        o.events[-1] = (actual, t)
                        if actual == "rxbad" and not was:
                            o.kinds[-1] = "error-chunk"
                    elif kind == "close":
                        b.connectionLost(failure.Failure(ConnectionDone()))
                        if o.closed_at is None:
                            o.closed_at = t
                    else:
                        raise ValueError(kind)
                    run_eventuals(b)    # eventual-sends only, never the timers
        except Exception as e:  # the code under test must not raise
            o.exc = "%s at %r: %s" % (type(e).__name__, (kind, t), e)
        o.trace.append(self.pending())
        o.counts.append((len(o.torn), sum(1 for (_, d) in self.tr.out[self.nout0:] if d == PING)))

    def finish(self):
        o, b, tr = self.o, self.b, self.tr
        o.dup_timers = any(isinstance(x, tuple) for st in o.trace for x in st)
        o.lose = list(tr.lose_at)
        o.pings = [t for (t, d) in tr.out[self.nout0:] if d == PING]
        o.other_writes = [(t, d) for (t, d) in tr.out[self.nout0:] if d != PING]
        o.last_rx = getattr(b, "dataLastReceivedAt", None)
        o.attr_ka = b.keepaliveTimer is not None
        o.attr_dc = b.disconnectTimer is not None
        o.use = b.useKeepalives
        o.disconnected = bool(b.disconnected)
        o.leftover = timer_calls(b)
        o.leftover_any = sorted(getattr(dc.func, '__name__', '?') for dc in E.clock.getDelayedCalls()
                                if getattr(dc.func, '__self__', None) is b)
        o.all_delayed = len(E.clock.getDelayedCalls())
        restore()
        return o


def run_schedule(K, T, events, exact=True, t0=0, with_call=0, payloads=None):
    """payloads: hex chunks for the successive rx / rxbad events (default: one PONG byte per rx, 70 zero bytes per rxbad)"""
    r = Run(K, T, exact, t0, with_call)
    i = 0
    for kind, t in events:
        if kind in ("rx", "rxbad") and payloads is not None and i < len(payloads):
            chunk = bytes.fromhex(payloads[i])
            i += 1
            r.stream = chunk
            r.spos = 0
            r.step("rx", t, len(chunk))
        else:
            r.step(kind, t)
    return r.finish()


def one(xs):
    if not xs:
        return None
    if len(xs) == 1:
        return xs[0]
    return tuple(sorted(xs))


def run_eventuals(b):
    """run delayed calls that are due now and are NOT the keepalive/disconnect timers (eventual-send queue)"""
    c = E.clock
    for i in range(10000):
        due = [dc for dc in c.getDelayedCalls() if dc.getTime() <= c.seconds()
               and not (getattr(dc.func, "__self__", None) is b and
                        dc.func.__name__ in ("keepaliveTimerFired", "disconnectTimerFired"))]
        if not due:
            return
        dc = due[0]
        c.calls.remove(dc)
        dc.called = 1
        dc.func(*dc.args, **dc.kw)
    raise RuntimeError("no quiescence")


# ---------------------------------------------------------------- PING / PONG inside messages
import struct
from foolscap import storage
from foolscap.tokens import STRING, FLOAT, LONGINT, LONGNEG


def int2b128_bytes(n):
    out = []
    ban.int2b128(n, out.append)
    return b"".join(out)


def ping_bytes(n, tok=PING):
    """what sendPING / sendPONG write for number n (computed with the real int2b128)"""
    return (int2b128_bytes(n) if n else b"") + tok


def real_send(which, n):
    """bytes written by the real Banana.sendPING / sendPONG"""
    set_mode(True)
    b = storage.StorageBanana()
    tr = FT()
    b.transport = tr
    getattr(b, which)(n)
    restore()
    return b"".join(d for (_, d) in tr.out)


def serialize(obj):
    set_mode(True)
    r = []
    with E.quiet():
        storage.serialize(obj).addBoth(r.append)
        E.turn()
    restore()
    if not r or not isinstance(r[0], bytes):
        raise RuntimeError("cannot serialize %r: %r" % (obj, r))
    return r[0]


def tokenize(data):
    """-> list of (start, end, header, typebyte int); bodies of STRING/LONGINT/LONGNEG/FLOAT belong to their token"""
    out = []
    i = 0
    while i < len(data):
        j = i
        while data[j] < 0x80:
            j += 1
        header = ban.b1282int(data[i:j]) if j > i else 0
        ty = data[j:j + 1]
        end = j + 1
        if ty in (STRING, LONGINT, LONGNEG):
            end += header
        elif ty == FLOAT:
            end += 8
        out.append((i, end, header, ty[0]))
        i = end
    assert i == len(data)
    return out


def decode(data, chunks=None):
    """feed bytes to a real receiving Banana (storage flavour, any object accepted).
    -> dict(status, obj, written, exc)"""
    set_mode(True)
    b = storage.StorageBanana()
    tr = FT()
    b.transport = tr
    res = dict(status="nothing", obj=None, exc=None)
    with E.quiet():
        b.connectionMade()
        d = b.prepare()
        got = []
        d.addBoth(got.append)
        try:
            pos = 0
            for n in (chunks or [len(data)]):
                b.dataReceived(data[pos:pos + n])
                pos += n
            if pos < len(data):
                b.dataReceived(data[pos:])
            E.turn()
        except Exception as e:
            res["exc"] = "%s: %s" % (type(e).__name__, str(e)[:100])
    if b.violation:
        res["status"] = "violation"
        res["exc"] = str(b.violation.value)[:100]
    elif res["exc"]:
        res["status"] = "error"
    elif got:
        res["status"] = "ok"
        res["obj"] = got[0]
    res["written"] = b"".join(x for (_, x) in tr.out)
    res["left"] = len(E.clock.getDelayedCalls())
    restore()
    return res


def canon(o):
    if isinstance(o, (list, tuple)):
        return (type(o).__name__, [canon(x) for x in o])
    if isinstance(o, (set, frozenset)):
        return (type(o).__name__, sorted((canon(x) for x in o), key=repr))
    if isinstance(o, dict):
        return ("dict", sorted(((canon(k), canon(v)) for k, v in o.items()), key=repr))
    if isinstance(o, float):
        return ("float", struct.pack("!d", o).hex())
    return (type(o).__name__, o)


# ---------------------------------------------------------------- Tub level (pb.py options -> negotiate -> Broker)

class _Target(E.Referenceable):
    def __init__(self):
        self.hang = []

    def remote_ping(self):
        return 7

    def remote_hang(self):
        from twisted.internet import defer
        d = defer.Deferred()
        self.hang.append(d)
        return d


def tub_pair(K, T, blackhole_after=None, horizon=60.0):
    """two real Tubs on the in-memory network, keepaliveTimeout=K / disconnectTimeout=T set through Tub.setOption
    (seconds, float clock).  The network stops delivering anything at `blackhole_after` (None = healthy).
    -> dict(brokers' options, pings seen on the wire, times the links were closed by a timeout, call results, leftovers)"""
    set_mode(False)
    net = E.Net()
    (ida, pa), (idb, pb_) = E.pems_sorted(2)
    res = dict(results=[], torn=[], wire_pings=0, wire_pongs=0)
    with E.quiet():
        A = E.make_tub(net, "a", pa)
        B = E.make_tub(net, "b", pb_)
        for tub in (A, B):
            if K is not None:
                tub.setOption("keepaliveTimeout", K)
            else:
                tub.keepaliveTimeout = None
            if T is not None:
                tub.setOption("disconnectTimeout", T)
        target = _Target()
        furl = B.registerReference(target)
        got = []
        A.getReference(furl).addBoth(got.append)
        E.turn()
        net.run()
        E.turn()
        if not got or not hasattr(got[0], "callRemote"):
            restore()
            return dict(error="no connection: %r" % (got,))
        rr = got[0]
        brokers = list(A.brokers.values()) + list(B.brokers.values())
        res["opts"] = sorted((b.keepaliveTimeout, b.disconnectTimeout) for b in brokers)
        for b in brokers:
            orig = b.connectionTimedOut

            def cto(b=b, orig=orig):
                res["torn"].append((E.clock.seconds(), brokers.index(b)))
                return orig()
            b.connectionTimedOut = cto
        res["deliv"] = {i: [] for i in range(len(brokers))}

        def count(link, side, data):
            res["wire_pings"] += data.count(PING)
            res["wire_pongs"] += data.count(PONG)
            # the Negotiation object stays the transport's protocol and forwards dataReceived to its Broker
            dst = getattr(getattr(link.ends[1 - side].protocol, "dataReceived", None), "__self__", None)
            if dst in brokers:
                res["deliv"][brokers.index(dst)].append(E.clock.seconds())
            return data
        net.mangle = count
        rr.callRemote("hang").addBoth(lambda r: res["results"].append((E.clock.seconds(), r)))
        E.turn()
        net.run()
        dead = False
        for _ in range(20000):
            now = E.clock.seconds()
            if now >= horizon:
                break
            if blackhole_after is not None and now >= blackhole_after and not dead:
                dead = True
            calls = [dc.getTime() for dc in E.clock.getDelayedCalls()]
            nxt = min([c for c in calls] + [horizon])
            if blackhole_after is not None and not dead:
                nxt = min(nxt, blackhole_after)
            E.clock.advance(max(0.0, nxt - now))
            E.turn()
            if dead:
                # the network swallows data; a local close still reaches the local protocol
                for l in net.links:
                    l.q = {0: [x for x in l.q[0] if x is None and False], 1: [x for x in l.q[1] if x is None and False]}
                    for e in list(l.pending_local_close):
                        net.step((l, ("close", e)))
            else:
                net.run()
        res["end"] = E.clock.seconds()
        res["caller_dead"] = all(b.disconnected for b in brokers[:len(A.brokers)]) if A.brokers else True
        res["nbrokers"] = len(brokers)
        res["live"] = sum(1 for t in (A, B) for b in t.brokers.values() if not b.disconnected)
        res["timers_left"] = sum(len(v) for b in brokers for v in timer_calls(b).values())
        res["kinds"] = [(t, getattr(getattr(r, "type", None), "__name__", repr(r)[:40])) for (t, r) in res["results"]]
        A.stopService()
        B.stopService()
        E.turn()
        net.run()
        E.turn()
        res["timers_left_after_stop"] = sum(len(v) for b in brokers for v in timer_calls(b).values())
    restore()
    return res


# ---------------------------------------------------------------- PING / PONG while the receiver discards a rejected sequence
from foolscap import schema as _schema
from foolscap.constraint import IConstraint, ByteStringConstraint
from foolscap.tokens import INT, OPEN, CLOSE, ABORT, Violation


def tk(n, ty, body=b""):
    """bytes of one token with header n"""
    return (int2b128_bytes(n) if n else b"") + ty + body


def tINT(n):
    return tk(n, INT)


def tSTR(s):
    return tk(len(s), STRING, s)


def tOPEN(n):
    return tk(n, OPEN)


def tCLOSE(n):
    return tk(n, CLOSE)


def tABORT(n):
    return tk(n, ABORT)


def flat(*parts):
    out = []
    for p in parts:
        if isinstance(p, list):
            out.extend(flat(*p))
        else:
            out.append(p)
    return out


def LST(n, *body):
    return flat(tOPEN(n), tSTR(b"list"), list(body), tCLOSE(n))


class EvReceiver(storage.StorageBanana):
    """receiving Banana that records objects / violations / drops instead of raising"""

    def __init__(self):
        storage.StorageBanana.__init__(self)
        self.events = []

    def receiveChild(self, obj, ready_deferred):
        self.events.append(("object", repr(obj)))

    def reportViolation(self, why):
        self.events.append(("violation", str(getattr(why.value, "where", ""))))

    def reportReceiveError(self, f):
        self.events.append(("dropped", str(f.value)[:80]))

    def sendError(self, msg):
        self.events.append(("sendError", str(msg)[:80]))


def violating_streams():
    """(name, root constraint, token list): messages that are rejected / aborted part-way, at several depths,
    each followed by a good message"""
    S = _schema
    LL = S.ListOf(S.ListOf(int))
    LLL = S.ListOf(S.ListOf(S.ListOf(int)))
    out = []
    out.append(("wrong type, depth 1", S.ListOf(int), flat(
        LST(0, tINT(1), tSTR(b"oops"), tINT(2), tINT(3)), LST(1, tINT(4)))))
    out.append(("wrong type, depth 2", LL, flat(
        LST(0, LST(1, tINT(1), tINT(2)),
            LST(2, tINT(3), tSTR(b"oops"), tINT(4), LST(3, tINT(5), tINT(6)), tINT(7)),
            LST(4, tINT(8))),
        LST(5, LST(6, tINT(9))))))
    out.append(("wrong type, depth 3", LLL, flat(
        LST(0, LST(1, LST(2, tINT(1)), LST(3, tINT(2), tSTR(b"x" * 130), tINT(3)), LST(4, tINT(4))), LST(5, LST(6, tINT(5)))),
        LST(7, LST(8, LST(9, tINT(6)))))))
    out.append(("list too long, depth 1", S.ListOf(int, maxLength=3), flat(
        LST(0, tINT(1), tINT(2), tINT(3), tINT(4), tINT(5), tINT(6)), LST(1, tINT(7), tINT(8)))))
    out.append(("list too long, depth 2", S.ListOf(S.ListOf(int, maxLength=2)), flat(
        LST(0, LST(1, tINT(1)), LST(2, tINT(1), tINT(2), tINT(3), tINT(4)), LST(3, tINT(5))), LST(4, LST(5, tINT(6))))))
    out.append(("wrong opentype, depth 1", S.ListOf(int), flat(
        [tOPEN(0), tSTR(b"dict"), tSTR(b"a"), tINT(1), tSTR(b"b"), LST(1, tINT(2)), tCLOSE(0)], LST(2, tINT(3)))))
    out.append(("wrong opentype, depth 2", LL, flat(
        LST(0, LST(1, tINT(1)), [tOPEN(2), tSTR(b"tuple"), tINT(2), LST(3, tINT(3)), tCLOSE(2)], LST(4, tINT(4))),
        LST(5, LST(6, tINT(5))))))
    out.append(("string too long", S.ListOf(ByteStringConstraint(3)), flat(
        LST(0, tSTR(b"ab"), tSTR(b"much too long \x8e\x8f"), tSTR(b"cd")), LST(1, tSTR(b"ef")))))
    out.append(("sender ABORT, depth 1", None, flat(
        LST(0, tINT(1), tABORT(0), tINT(2), tSTR(b"z")), LST(1, tINT(3)))))
    out.append(("sender ABORT, depth 2", None, flat(
        LST(0, tINT(1), LST(1, tINT(2), tABORT(1), tINT(3)), tINT(4)), LST(2, tINT(5)))))
    out.append(("sender ABORT, depth 3", None, flat(
        LST(0, LST(1, LST(2, tINT(1), tABORT(2), LST(3, tINT(2)), tINT(3)), tINT(4)), tINT(5)), LST(4, tINT(6)))))
    out.append(("two rejected messages in a row", S.ListOf(int), flat(
        LST(0, tINT(1), tSTR(b"a"), tINT(2)), LST(1, LST(2, tINT(3)), tINT(4)), LST(3, tINT(5)))))
    return out


def decode_events(constraint, data, chunks=None):
    """feed bytes to a receiver whose root accepts `constraint`; -> dict(events, written, lost, exc)"""
    set_mode(True)
    r = EvReceiver()
    tr = FT()
    r.transport = tr
    exc = None
    with E.quiet():
        r.connectionMade()
        if constraint is not None:
            r.receiveStack[-1].constraint = IConstraint(constraint)
        try:
            pos = 0
            for n in (chunks or [len(data)]):
                r.dataReceived(data[pos:pos + n])
                pos += n
            if pos < len(data):
                r.dataReceived(data[pos:])
            E.turn()
        except Exception as e:
            exc = "%s: %s" % (type(e).__name__, str(e)[:100])
    res = dict(events=list(r.events), written=b"".join(x for (_, x) in tr.out), lost=len(tr.lose_at), exc=exc)
    restore()
    return res


# ---------------------------------------------------------------- every KIND of inbound byte as an arrival
from foolscap.tokens import NEG


def inbound_stream(rng, nblocks=6):
    """a byte stream for a live Broker that never makes it abandon the connection and contains every kind of inbound
    byte: accepted tokens (incl. a STRING body that is buffered until complete), tokens discarded after a Violation
    (discardCount > 0), bodies of rejected STRING / LONGINT / FLOAT tokens that are skipped (skipBytes > 0),
    PING / PONG with multi-digit numbers (partial headers when cut), nested OPENs inside the discarded part"""
    out = []
    openid = 0
    req = 1
    for bi in range(nblocks):
        kind = rng.choice(["unknown-clid", "unknown-clid", "unknown-method", "bad-opentype", "pings"])
        if kind == "pings":
            for _ in range(rng.randint(1, 4)):
                out.append(ping_bytes(rng.choice([0, 5, 2 ** 70, 2 ** 300 + 7, 2 ** 448 - 1]), rng.choice([PING, PONG])))
            continue
        me = openid
        openid += 1
        head = [tOPEN(me)]
        if kind == "bad-opentype":
            head.append(tSTR(b"bogus"))
        elif kind == "unknown-clid":
            head += [tSTR(b"call"), tINT(req), tINT(1000 + bi)]
            req += 1
        else:
            name = bytes(rng.choice(b"abcdefghijklmnopqrstuvwxyz") for _ in range(rng.randint(8, 60)))
            head += [tSTR(b"call"), tINT(req), tINT(0), tSTR(b"nosuch_" + name)]
            req += 1
        out += head
        for _ in range(rng.randint(2, 7)):
            c = rng.random()
            if c < 0.30:
                n = rng.randint(40, 700)
                out.append(tk(n, STRING, bytes(rng.randrange(256) for _ in range(n))))
            elif c < 0.40:
                n = rng.randint(20, 300)
                out.append(tk(n, rng.choice([LONGINT, LONGNEG]), bytes(rng.randrange(256) for _ in range(n))))
            elif c < 0.50:
                out.append(tk(0, FLOAT, bytes(rng.randrange(256) for _ in range(8))))
            elif c < 0.65:
                out.append(rng.choice([tINT(rng.randrange(2 ** 31)), tk(rng.randrange(1, 2 ** 31), NEG)]))
            elif c < 0.80:
                out.append(ping_bytes(rng.choice([0, 3, 2 ** 200 + 1]), rng.choice([PING, PONG])))
            else:
                sub = openid
                openid += 1
                out += [tOPEN(sub), tSTR(b"list"), tINT(1), tSTR(b"x" * rng.randint(1, 90)), tCLOSE(sub)]
        out.append(tCLOSE(me))
    return b"".join(out)


def chunk_kind(b, chunk):
    """what kind of inbound bytes is this chunk, judged by the receiver's state before it is fed"""
    if b.connectionAbandoned:
        return "ignored-after-error"
    if b.skipBytes:
        return "skipped-body" if len(chunk) <= b.skipBytes else "skipped-body+more"
    if len(b.buffer):
        return "continues-partial-token"
    if b.discardCount:
        return "discarded-tokens"
    if chunk in (PING, PONG):
        return "ping-pong"
    return "tokens"


# ---------------------------------------------------------------- pending calls in every state at the idle teardown
from twisted.internet import defer as _defer


class FakeTub:
    """just enough of a Tub for a Broker that receives gifts: getReference never completes by itself"""
    accept_gifts = True
    logRemoteFailures = False
    logLocalFailures = False
    unsafeTracebacks = False
    debugBanana = False
    _expose_remote_exception_types = True

    def __init__(self):
        self.gifts = []
        self.detached = 0

    def getReference(self, url):
        d = _defer.Deferred()
        self.gifts.append((url, d))
        return d

    def brokerDetached(self, b, why):
        self.detached += 1

    def getShortTubID(self):
        return "fake"


CALL_STATES = ["answered", "gift", "sent", "header-answer", "header-error", "partial", "unsent"]


def response_bytes(state, reqID, openid, rng):
    """inbound bytes that put the call with this reqID into `state`; -> (bytes, number of OPENs used)"""
    A, E_ = tSTR(b"answer"), tSTR(b"error")
    if state == "answered":
        return tOPEN(openid) + A + tINT(reqID) + tINT(42) + tCLOSE(openid), 1
    if state == "gift":
        return (tOPEN(openid) + A + tINT(reqID) + tOPEN(openid + 1) + tSTR(b"their-reference") + tINT(reqID + 100)
                + tSTR(b"pb://xyz@nowhere/gift%d" % reqID) + tCLOSE(openid + 1) + tCLOSE(openid)), 2
    if state == "header-answer":
        return tOPEN(openid) + A + tINT(reqID), 1
    if state == "header-error":
        return tOPEN(openid) + E_ + tINT(reqID), 1
    if state == "partial":
        depth = rng.randint(1, 3)
        out = tOPEN(openid) + A + tINT(reqID)
        for k in range(depth):
            out += tOPEN(openid + 1 + k) + tSTR(b"list") + tINT(k)
        if rng.random() < 0.5:
            out += tk(50, STRING) + b"half of a string"      # the body of a token is incomplete as well
        return out, 1 + depth
    return b"", 0


def call_states(K, T, states, rng, chunk=None):
    """one Broker with len(states) outstanding callRemotes, each brought into the given state by inbound bytes that
    arrive (in chunks, one arrival every T/3) while the connection is alive; then the peer goes silent and the reactor
    runs punctually until well after the idle teardown; then the transport reports connectionLost and the gifts resolve.
    -> dict(outcomes per call, teardown times, events, leftovers)"""
    r = Run(K, T, True, 0)
    b, o = r.b, r.o
    tub = FakeTub()
    b.tub = tub
    outcomes = {i: [] for i in range(len(states))}
    order = sorted(range(len(states)), key=lambda i: states[i] == "unsent")      # the unsent ones are made last
    with E.quiet():
        tracker = referenceable.RemoteReferenceTracker(b, 1, None, None)
        rr = referenceable.RemoteReference(tracker)
        reqids = {}
        for i in order:
            if states[i] == "unsent" and not b.paused:
                b.paused = True           # the outbound side is blocked: the call is queued, nothing is written
            before = set(b.waitingForAnswers)
            d = rr.callRemote("m%d" % i, i)
            d.addBoth(lambda res, i=i: outcomes[i].append((E.clock.seconds(), res)))
            new = set(b.waitingForAnswers) - before
            reqids[i] = new.pop() if new else None
        E.turn()
    # the responses: complete ones first, the (single) incomplete one last -- a response that has begun blocks the stream
    inbound = b""
    openid = 0
    complete = [i for i in order if states[i] in ("answered", "gift")]
    incomplete = [i for i in order if states[i] in ("header-answer", "header-error", "partial")][:1]
    rng.shuffle(complete)
    for i in complete + incomplete:
        data, n = response_bytes(states[i], reqids[i], openid, rng)
        openid += n
        inbound += data
    t = 0
    step = max(1, T // 3)
    pos = 0
    while pos < len(inbound):
        n = len(inbound) if chunk is None else chunk(rng)
        t += step
        for _ in range(20):
            pend = [x for x in r.pending() if x is not None]
            if not pend or min(pend) > t:
                break
            r.step("tick", max(min(pend), E.clock.seconds()))
        r.stream = inbound[pos:pos + n]
        r.spos = 0
        r.step("rx", t, n)
        pos += n
    t_silent = t
    early = {i: list(v) for i, v in outcomes.items()}
    horizon = t + 2 * T + eps_ms() + 1
    for _ in range(200):
        pend = [x for x in r.pending() if x is not None]
        if not pend or min(pend) > horizon:
            break
        r.step("tick", max(min(pend), E.clock.seconds()))
    r.step("tick", horizon)
    r.step("close", horizon)
    # the gifts resolve (or fail) after everything is over: nothing may fire a second time
    with E.quiet():
        for (url, d) in tub.gifts:
            if not d.called:
                if rng.random() < 0.5:
                    d.errback(failure.Failure(ConnectionDone()))
                else:
                    d.callback(None)
        E.clock.advance(0)
        run_eventuals(b)
    # a second incomplete response cannot begin while the first one is open: those calls are simply "sent"
    eff = [st if (st not in ("header-answer", "header-error", "partial") or i in incomplete) else "sent"
           for i, st in enumerate(states)]
    res = dict(states=eff, reqids=reqids, t_silent=t_silent, early=early, waiting_left=sorted(b.waitingForAnswers),
               gifts=len(tub.gifts), inbound=inbound.hex(), order=list(order),
               answered_order=[i for i in complete if states[i] == "answered"])
    ob = r.finish()
    res["o"] = ob
    res["outcomes"] = {i: [(tm, getattr(getattr(x, "type", None), "__name__", None) or repr(x)[:40]) for (tm, x) in v]
                       for i, v in outcomes.items()}
    return res


# ---------------------------------------------------------------- byte-level PING/PONG against the C07 receiver model
# (policy unslicers of harness/c07_impl.py: the opentype's first letter chooses the unslicer's behaviour)

def policy_object(rng, depth, openid):
    """tokens (list of bytes, one complete token each) of one object for the policy receiver; may contain violations at
    any depth (wrong type in an ints-only list, too many items, over-long string, unknown opentype, bad start / child /
    close / finish), long strings, LONGINTs and FLOATs; -> (tokens, next open id)"""
    c = rng.random()
    if depth >= 3 or c < 0.35:
        k = rng.random()
        if k < 0.4:
            return [tINT(rng.choice([0, 1, 127, 128, 2 ** 31 - 1]))], openid
        if k < 0.5:
            return [tk(rng.randrange(1, 2 ** 31), NEG)], openid
        if k < 0.8:
            n = rng.choice([0, 1, 3, 4, 9, 40, 130])
            return [tk(n, STRING, bytes(rng.randrange(256) for _ in range(n)))], openid
        if k < 0.9:
            n = rng.randint(1, 12)
            return [tk(n, rng.choice([LONGINT, LONGNEG]), bytes(rng.randrange(256) for _ in range(n)))], openid
        return [tk(0, FLOAT, bytes(rng.randrange(256) for _ in range(8)))], openid
    me = openid
    openid += 1
    kind = rng.choice([b"L", b"L", b"L", b"I", b"S3", b"N2", b"C1", b"X", b"T", b"F", b"P", b"Q", b"Z", b"L7x", b"2"])
    toks = [tOPEN(me), tSTR(kind)]
    if kind == b"2":
        toks.append(tSTR(rng.choice([b"a", b"bc"])))           # two index tokens
    if rng.random() < 0.05:
        toks[1] = tSTR(b"LONG")                                # index token longer than INDEX_MAX
    for _ in range(rng.randint(0, 4)):
        sub, openid = policy_object(rng, depth + 1, openid)
        toks += sub
    if rng.random() < 0.1:
        toks.append(tABORT(me))
    toks.append(tCLOSE(me))
    return toks, openid


def policy_stream(rng):
    """-> (rootmode, list of complete tokens)"""
    mode = rng.choice(["any", "any", "ints", "nofloat", "size3", "size40"])
    toks = []
    openid = 0
    for _ in range(rng.randint(1, 3)):
        t, openid = policy_object(rng, 0, openid)
        toks += t
    return mode, toks


def run_policy(stream, chunks, mode):
    """the real Banana with the policy unslicers of c07_impl -> (event codes, final snapshot, escaped exception, bytes written)"""
    from harness import c07_impl, c07
    p = c07_impl.PolicyBanana(mode)
    pos = 0
    escaped = None
    for n in chunks:
        try:
            p.dataReceived(stream[pos:pos + n])
        except Exception as e:
            escaped = "%s: %s" % (type(e).__name__, e)
            break
        pos += n
    snap = [len(p.buffer), p.skipBytes, p.discardCount, len(p.receiveStack), int(bool(p.inOpen)), int(bool(p.connectionAbandoned))]
    written = b"".join(e[1] for e in p.vlog if e[0] == "write")
    return [c07.ev_code(e) for e in c07_impl.events_of(p.vlog)], snap, escaped, written


# ---------------------------------------------------------------- every closing path
def closing_path(K, T, path, idle_first):
    """one Broker (integer ms clock) closed along `path`, a list of steps out of
         made | lost | shutdown | finish | tick:<ms>
    (no `made` = the transport reports connectionLost although connectionMade never ran: negotiation failed first).
    -> dict(exc, left = delayed calls of this Broker still scheduled at the end, attrs = timer attributes still set,
            lose = loseConnection calls, results = outcomes of one pending callRemote (if connectionMade ran))"""
    set_mode(True)
    b = broker.Broker(TubRef("x"), keepaliveTimeout=K, disconnectTimeout=T)
    tr = FT()
    b.transport = tr
    res = dict(exc=None, results=[])
    made = False
    try:
        with E.quiet():
            for st in path:
                if st == "made":
                    b.connectionMade()
                    made = True
                    tracker = referenceable.RemoteReferenceTracker(b, 1, None, None)
                    rr = referenceable.RemoteReference(tracker)
                    rr.callRemote("never_answered").addBoth(
                        lambda r: res["results"].append(getattr(getattr(r, "type", None), "__name__", repr(r)[:40])))
                    E.turn()
                elif st == "lost":
                    b.connectionLost(failure.Failure(ConnectionDone()))
                    run_eventuals(b)
                elif st == "shutdown":
                    b.shutdown(failure.Failure(ConnectionDone()))
                    run_eventuals(b)
                elif st == "finish":
                    b.finish(failure.Failure(ConnectionDone()))
                    run_eventuals(b)
                elif st.startswith("tick:"):
                    advance_to(E.clock.seconds() + int(st[5:]))
                else:
                    raise ValueError(st)
    except Exception as e:
        res["exc"] = "%s: %s" % (type(e).__name__, e)
    res["left"] = sorted(getattr(dc.func, "__name__", "?") for dc in E.clock.getDelayedCalls()
                         if getattr(dc.func, "__self__", None) is b)
    res["attrs"] = [n for n in ("keepaliveTimer", "disconnectTimer") if getattr(b, n, None) is not None]
    res["lose"] = len(tr.lose_at)
    res["made"] = made
    restore()
    return res
