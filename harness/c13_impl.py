"""C13: drives real Tub/Negotiation pairs; direct oracle for agreement."""
import re
from harness import implenv as E
from harness.implenv import Net, make_tub, quiet, pems_sorted, Referenceable
import foolscap.negotiate as neg


class T(Referenceable):
    def remote_hi(self):
        return 42


def mkneg(r):
    vmin, vmax, vocmin, vocmax = r

    class N(neg.Negotiation):
        minVersion = vmin
        maxVersion = vmax
        initialVocabTableRange = (vocmin, vocmax)
    # a peer from the future: it implements the versions it offers (Negotiation.__init__ insists), the older peer does not
    for v in range(4, vmax + 1):
        setattr(N, "evaluateNegotiationVersion%d" % v, neg.Negotiation.evaluateNegotiationVersion3)
        setattr(N, "acceptDecisionVersion%d" % v, neg.Negotiation.acceptDecisionVersion3)
    return N


VOCSIZE = None


def vocsize():
    global VOCSIZE
    if VOCSIZE is None:
        from foolscap import vocab
        VOCSIZE = {k: len(v) for k, v in vocab.INITIAL_VOCAB_TABLES.items()}
    return VOCSIZE


def trial(ra, rb, a_high, mangle=None, chunk=None, rng=None, dial_from="a", worlds=None):
    """-> (paramsA, paramsB, result kinds, exceptions).  worlds (a VocabWorlds): each end holds its OWN module state of
    foolscap.vocab (its own INITIAL_VOCAB_TABLES), see table_contents()"""
    if worlds is not None:
        try:
            return _trial(ra, rb, a_high, mangle, chunk, rng, dial_from, worlds)
        finally:
            worlds.leave()
    return _trial(ra, rb, a_high, mangle, chunk, rng, dial_from, None)


def _trial(ra, rb, a_high, mangle, chunk, rng, dial_from, worlds):
    E.reset_clock()
    net = Net()
    net.mangle = mangle
    (lo_id, lo_pem), (hi_id, hi_pem) = pems_sorted(2)
    pa, pb_ = (hi_pem, lo_pem) if a_high else (lo_pem, hi_pem)
    A = make_tub(net, "a", pa, mkneg(ra))
    B = make_tub(net, "b", pb_, mkneg(rb))
    assert (A.tubID > B.tubID) == a_high
    # 'parameters of the Broker created on each side': noted when the Broker is made (switchToBanana), because a Broker whose peer
    # refuses the decision does not live long enough to be seen in Tub.brokers when the network is quiet
    created = ([], [])
    A.brokerClass = recording_broker(A.brokerClass, created[0], worlds and (worlds, "a"))
    B.brokerClass = recording_broker(B.brokerClass, created[1], worlds and (worlds, "b"))
    trial.created = created
    if worlds is not None:
        # bytes for an end are handled in that end's own foolscap.vocab state (every use of the tables by negotiation -- hashing for
        # the decision, comparing the decision's hash, loading the table into the new Broker -- happens inside dataReceived)
        def in_world(link, side, d):
            worlds.enter("a" if (link.server_tub if side == 0 else link.client_tub) is A else "b")
            return mangle(link, side, d) if mangle else d
        net.mangle = in_world
    trial.dialer_is_decider = (dial_from == "a") == a_high
    trial.a_is_decider = a_high
    src, dst = (A, B) if dial_from == "a" else (B, A)
    furl = dst.registerReference(T())
    res = []
    src.getReference(furl).addCallback(lambda rr: rr.callRemote("hi")).addBoth(res.append)
    E.turn()
    net.run(rng=rng, chunk=chunk)
    # let the connection timeout machinery settle (virtual time)
    for i in range(3):
        if res:
            break
        E.clock.advance(130)
        E.turn()
        net.run(rng=rng, chunk=chunk)

    def params(t):
        out = []
        for b in t.brokers.values():
            if not b.disconnected and worlds is not None:
                out.append((b._banana_decision_version, table_of(b, worlds.tables("a" if t is A else "b"))))
            elif not b.disconnected:
                size = len(b.incomingVocabulary)
                idx = [k for k, n in vocsize().items() if n == size]
                from foolscap import vocab as _v
                # the tables themselves (both directions) must be the negotiated table, word for word
                same = (len(idx) == 1 and sorted(b.incomingVocabulary.values()) == sorted(_v.INITIAL_VOCAB_TABLES[idx[0]])
                        and sorted(b.outgoingVocabulary.keys()) == sorted(_v.INITIAL_VOCAB_TABLES[idx[0]]))
                out.append((b._banana_decision_version, idx[0] if same else ("table", size, sorted(b.incomingVocabulary.values())[:3])))
        return out
    r = (params(A), params(B), [getattr(x, "type", x) for x in res])
    # the two Negotiation objects of the (first) connection, before anything is torn down: (isClient, receive_phase, send_phase,
    # switched to Banana?) -- compared with the phase machine of lib/NegWire.v
    trial.last_phases = []
    if len(net.links) == 1:
        for e in net.links[0].ends:
            p = e.protocol
            if isinstance(p, neg.Negotiation):
                trial.last_phases.append((bool(p.isClient), p.receive_phase, p.send_phase, "dataReceived" in vars(p), p.tub is A))
    for t in (A, B):
        t.stopService()
    E.turn()
    return r


def ranges():
    return [(a, b, c, d) for a in (1, 2, 3) for b in (1, 2, 3) if a <= b for c in (0, 1) for d in (0, 1) if c <= d]


def expected(ra, rb):
    vs = set(range(ra[0], ra[1] + 1)) & set(range(rb[0], rb[1] + 1))
    vo = set(range(ra[2], ra[3] + 1)) & set(range(rb[2], rb[3] + 1))
    return (max(vs), max(vo)) if vs and vo else None


from foolscap.tokens import NegotiationError, RemoteNegotiationError, BananaError
NEGOTIATION_ERRORS = (NegotiationError, RemoteNegotiationError, BananaError)


def judge(ctx, tag, cfg, pa, pb, res, want_success=None):
    """the property itself, on the implementation's observable outcome"""
    bad = None
    if len(pa) > 1 or len(pb) > 1:
        bad = "more than one live broker for one peer"
    elif pa != pb:
        bad = "the two ends disagree: A has %r, B has %r" % (pa, pb)
    elif len(res) != 1:
        bad = "getReference/callRemote fired %d times" % len(res)
    elif pa and res != [42]:
        bad = "connection established but the call did not return: %r" % (res,)
    elif not pa and res == [42]:
        bad = "call succeeded without brokers"
    elif not pa and isinstance(res[0], type) and not issubclass(res[0], NEGOTIATION_ERRORS):
        bad = "the attempt failed, but not with a negotiation error: the caller got %s" % res[0].__name__
    elif want_success is not None:
        if want_success and (not pa or pa[0] != want_success):
            bad = "expected both ends to use %r, got %r" % (want_success, pa)
        if want_success is False and pa:
            bad = "expected failure, got %r" % (pa,)
    if bad:
        ctx.fail("oracle/%s" % tag, "%s; configuration %r" % (bad, cfg), replay=dict(config=cfg, A=pa, B=pb, result=repr(res)))
    return bad is None


DECIDER_SWITCHED = "oracle/decider-switched-before-refusal"


def swap_hash(link, side, d):
    """the decision's table hash rewritten in flight: two implementations whose table >= 1 differs in content"""
    return re.sub(rb"(initial-vocab-table-index: \d+ )([0-9a-f]{4})", lambda m: m.group(1) + b"ffff", d)


def judge_created(ctx, tag, cfg, pa, pb, res, exp):
    """the property on the Brokers each end CREATED during the attempt (trial.created), not only on what is left in Tub.brokers when
    the network is quiet.  exp = (version, table) both must use, or None when the two must abandon.  With tamper == 'hash' the two
    ends hold different tables 1 (the decision's hash is rewritten in flight): whenever the table decided on is >= 1 its contents do
    not match, so NEITHER end may switch and both must abandon with a negotiation error."""
    ca, cb = [list(x) for x in trial.created]
    a_high = cfg["a_high"]
    cd, cn = (ca, cb) if a_high else (cb, ca)          # created by the decider / by the non-decider
    mismatch = cfg.get("tamper") == "hash" and exp is not None and exp[1] >= 1
    rp = dict(config=cfg, A=pa, B=pb, created=dict(decider=cd, non_decider=cn), result=repr(res),
              dialer="decider" if trial.dialer_is_decider else "non-decider")
    if not mismatch:
        okj = judge(ctx, tag, cfg, pa, pb, res, exp if exp else False)
        want = [exp] if exp else []
        if okj and (ca != want or cb != want):
            ctx.fail("oracle/%s" % tag, "the Brokers created during the attempt are not the ones the property allows: expected %r on both "
                     "sides, the decider created %r, the non-decider %r; configuration %r" % (want, cd, cn, cfg), replay=rp)
            return False
        return okj
    # the non-decider must refuse the decision
    if cn or pa or pb or res == [42]:
        ctx.fail("oracle/%s" % tag, "the two ends hold different contents for table %d, yet the decision was not refused: the non-decider "
                 "created %r, the decider %r (left afterwards: %r / %r, call: %r); configuration %r" % (exp[1], cn, cd, pa, pb, res, cfg),
                 replay=rp)
        return False
    if len(res) != 1:
        ctx.fail("oracle/%s" % tag, "getReference/callRemote fired %d times; configuration %r" % (len(res), cfg), replay=rp)
        return False
    caller_ok = isinstance(res[0], type) and issubclass(res[0], NEGOTIATION_ERRORS)
    if cd:
        # 'or both abandon the connection with a negotiation error' fails for the decider: it has switched (Broker created and
        # attached) before the non-decider refused; what it sees afterwards is a lost connection
        ctx.fail(DECIDER_SWITCHED, "the non-decider refused the decision (table %d differs) and abandoned with a negotiation error, but the "
                 "decider had already switched to the RPC protocol: it created a Broker with (version, table) %r, which then lost its "
                 "connection; the %s dialled and its getReference caller got %s; configuration %r"
                 % (exp[1], cd, rp["dialer"], getattr(res[0], "__name__", res[0]), cfg), replay=rp)
        if not trial.dialer_is_decider and not caller_ok:
            ctx.fail("oracle/%s" % tag, "the non-decider dialled and refused the decision, but its caller did not get a negotiation error: %r; "
                     "configuration %r" % (res, cfg), replay=rp)
            return False
        return True
    if not caller_ok:
        ctx.fail("oracle/%s" % tag, "the attempt failed, but not with a negotiation error: the caller got %r; configuration %r" % (res, cfg),
                 replay=rp)
        return False
    return True


def sweep(ctx):
    cases = []
    rs = ranges()
    with quiet():
        for ra in rs:
            for rb in rs:
                for a_high in (False, True):
                    cfg = dict(ra=ra, rb=rb, a_high=a_high, tamper=None)
                    pa, pb, res = trial(ra, rb, a_high, dial_from="a" if (ra[0] + rb[1] + a_high) % 2 else "b")
                    exp = expected(ra, rb)
                    judge_created(ctx, "sweep", cfg, pa, pb, res, exp)
                    ctx.case(["sweep", ra, rb, a_high], nontrivial=len(res) == 1)
                    ctx.hist("sweep_outcome", "banana" if pa else "failed")
                    cfg["obs"] = observed(pa, pb)
                    cfg["caller"] = caller_code(res)
                    cfg["phases"] = list(trial.last_phases)
                    cases.append(cfg)
        # version skew: one side also offers a version (4) that the other does not implement; the common version is still chosen,
        # and a refusal after the roles are known must still reach the other side as a negotiation error
        for ra in [(3, 4, 0, 0), (3, 4, 0, 1), (1, 4, 1, 1), (2, 4, 0, 0)]:
            for rb in [(3, 3, 1, 1), (3, 3, 0, 1), (1, 3, 0, 0), (1, 2, 1, 1), (2, 3, 0, 0)]:
                for a_high in (False, True):
                    for dial in ("a", "b"):
                        for swap in (False, True):
                            xa, xb = (rb, ra) if swap else (ra, rb)
                            cfg = dict(ra=xa, rb=xb, a_high=a_high, tamper=None, dial=dial)
                            pa, pb, res = trial(xa, xb, a_high, dial_from=dial)
                            exp = expected(xa, xb)
                            judge_created(ctx, "version-skew", cfg, pa, pb, res, exp)
                            ctx.case(["skew", xa, xb, a_high, dial], nontrivial=len(res) == 1)
                            ctx.hist("skew_outcome", "banana" if pa else "failed")
        # decision rewritten in flight so that the master's table hash differs from the slave's (swap_hash)
        # the fixed witness of C13_agreement_two_way_refuted / known finding oracle/decider-switched-before-refusal, dialled by the decider
        cfg = dict(ra=(3, 3, 1, 1), rb=(3, 3, 1, 1), a_high=True, tamper="hash", witness=True)
        pa, pb, res = trial(cfg["ra"], cfg["rb"], True, mangle=swap_hash, dial_from="a")
        judge_created(ctx, "hash-mismatch", cfg, pa, pb, res, expected(cfg["ra"], cfg["rb"]))
        ctx.case(["hash-witness"], nontrivial=True)
        cfg["obs"] = observed(pa, pb)
        cfg["caller"] = caller_code(res)
        cfg["phases"] = list(trial.last_phases)
        cases.append(cfg)
        # ra ranges over the configurations that offer table 1 (the only table whose hash is compared: table 0 is empty); rb over every
        # other one of all configurations, so that the table decided on is 1 (hash compared and found different), 0 (nothing to
        # compare: must connect) or none (ranges disjoint); both tub-id orders; dialled by the decider and by the non-decider
        compared = 0
        hs = [r for r in rs if r[3] >= 1]
        for i, ra in enumerate(hs[::2]):
            for j, rb in enumerate(rs[(i % 2)::2]):
                for a_high in (False, True):
                    cfg = dict(ra=ra, rb=rb, a_high=a_high, tamper="hash")
                    pa, pb, res = trial(ra, rb, a_high, mangle=swap_hash, dial_from="a" if (i + j + a_high) % 2 else "b")
                    exp = expected(ra, rb)
                    judge_created(ctx, "hash-mismatch", cfg, pa, pb, res, exp)
                    ctx.case(["hash", ra, rb, a_high], nontrivial=len(res) == 1)
                    kind = "no-decision" if not exp else "table-0-nothing-to-compare" if exp[1] < 1 else \
                        "hash-compared/%s-dialled" % ("decider" if trial.dialer_is_decider else "non-decider")
                    compared += bool(exp and exp[1] >= 1)
                    ctx.hist("hash_mismatch_kind", kind)
                    ctx.hist("hash_mismatch_outcome", "banana" if pa else "failed")
                    cfg["obs"] = observed(pa, pb)
                    cfg["caller"] = caller_code(res)
                    cfg["phases"] = list(trial.last_phases)
                    cases.append(cfg)
        ctx.extra["hash_mismatch_configurations_that_compare_a_hash"] = compared
        if compared < 20:
            ctx.fail("harness/hash-sweep-vacuous", "only %d configurations of the hash-mismatch sweep reach the comparison of the table hash"
                     % compared, has_input=False)
    ctx.sample(dict(kind="sweep", case={k: v for k, v in cases[5].items()}))
    ctx.sample(dict(kind="hash-mismatch", case={k: v for k, v in cases[-1].items()}))
    return cases


def observed(pa, pb):
    """what each end came to, for the correspondence with Negotiate.negotiate: ("banana", v, t) -- a Broker created and still
    connected; ("lost", v, t) -- a Broker created, connection lost afterwards; ("failed",) -- no Broker created"""
    out = []
    for made, left in zip(trial.created, (pa, pb)):
        if len(made) > 1 or len(left) > 1:
            out.append(("several", list(made), list(left)))
        elif not made:
            out.append(("failed",) if not left else ("uncreated-broker", list(left)))
        elif left:
            out.append(("banana",) + tuple(made[0]) if list(left) == list(made) else ("changed", list(made), list(left)))
        else:
            out.append(("lost",) + tuple(made[0]))
    return tuple(out)


def caller_code(res):
    """(is the dialer the end called A?, what its getReference(...).callRemote caller got): 0 = the call returned, 1 = NegotiationError,
    2 = RemoteNegotiationError, 3 = the connection of an established Broker was lost, 8 = anything else"""
    a_dialled = trial.dialer_is_decider == trial.a_is_decider
    if len(res) != 1:
        return (a_dialled, 8)
    r = res[0]
    if r == 42:
        return (a_dialled, 0)
    name = getattr(r, "__name__", "")
    return (a_dialled, {"NegotiationError": 1, "RemoteNegotiationError": 2, "DeadReferenceError": 3, "ConnectionLost": 3,
                        "ConnectionDone": 3}.get(name, 8))


def chunked(ctx):
    """every chunking must give the same outcome as whole-block delivery"""
    rs = ranges()
    n = ctx.n(60, 1500)
    with quiet():
        for i in range(n):
            ra, rb = ctx.rng.choice(rs), ctx.rng.choice(rs)
            a_high = ctx.rng.random() < 0.5
            mode = ctx.rng.choice(["bytewise", "random", "pairs"])
            chunk = {"bytewise": 1, "pairs": 2, "random": (lambda r: r.choice([1, 2, 3, 5, 8, 13, 40, 100]))}[mode]
            cfg = dict(ra=ra, rb=rb, a_high=a_high, chunk=mode, i=i)
            try:
                pa, pb, res = trial(ra, rb, a_high, chunk=chunk, rng=ctx.rng)
            except Exception as e:
                ctx.fail("oracle/chunk-exception", "exception escaped while delivering chunks: %r; %r" % (e, cfg), replay=cfg)
                continue
            exp = expected(ra, rb)
            judge(ctx, "chunked", cfg, pa, pb, res, exp if exp else False)
            ctx.case(["chunk", ra, rb, a_high, mode, i if mode == "random" else 0], nontrivial=len(res) == 1)
            ctx.hist("chunk_mode", mode)
    ctx.sample(dict(kind="chunked", case=cfg))


MALFORMED = [
    ("no-colon-line", lambda d: d.replace(b"my-tub-id: ", b"my-tub-id ") if b"my-tub-id" in d else d),
    ("range-not-int", lambda d: re.sub(rb"banana-negotiation-range: \d+ \d+", b"banana-negotiation-range: x y", d)),
    ("range-missing", lambda d: re.sub(rb"banana-negotiation-range: \d+ \d+\r\n", b"", d)),
    ("range-one-field", lambda d: re.sub(rb"banana-negotiation-range: (\d+) \d+", rb"banana-negotiation-range: \1", d)),
    ("vocab-not-int", lambda d: re.sub(rb"initial-vocab-table-range: \d+ \d+", b"initial-vocab-table-range: a b", d)),
    ("decision-version-garbage", lambda d: re.sub(rb"banana-decision-version: \d+", b"banana-decision-version: zz", d)),
    ("decision-version-unknown", lambda d: re.sub(rb"banana-decision-version: \d+", b"banana-decision-version: 99", d)),
    ("decision-version-missing", lambda d: re.sub(rb"banana-decision-version: \d+\r\n", b"", d)),
    ("decision-index-out-of-range", lambda d: re.sub(rb"initial-vocab-table-index: \d+", b"initial-vocab-table-index: 7", d)),
    ("decision-index-one-field", lambda d: re.sub(rb"initial-vocab-table-index: (\d+) [0-9a-f]+", rb"initial-vocab-table-index: \1", d)),
    ("oversized-header", lambda d: (b"x-pad: " + b"A" * 5000 + b"\r\n" + d) if b"my-tub-id" in d else d),
    ("oversized-no-terminator", lambda d: b"B" * 5000 if b"my-tub-id" in d else d),
    ("binary-garbage", lambda d: bytes(range(256)) * 3 if b"my-tub-id" in d else d),
    ("error-block", lambda d: b"error: go away\r\n\r\n" if b"my-tub-id" in d else d),
    ("http-404", lambda d: b"HTTP/1.1 404 Not Found\r\n\r\n" if d.startswith(b"HTTP/1.1 101") else d),
    ("get-garbage", lambda d: b"POST /foo HTTP/1.1\r\n\r\n" if d.startswith(b"GET ") else d),
    ("get-empty-id", lambda d: re.sub(rb"GET /id/\S+", b"GET /id/", d)),
    ("get-one-token", lambda d: b"GET\r\n\r\n" if d.startswith(b"GET ") else d),
    ("out-of-order-decision-first", lambda d: (b"banana-decision-version: 3\r\ninitial-vocab-table-index: 1 abcd\r\n\r\n" + d) if b"my-tub-id" in d else d),
    ("empty-block", lambda d: b"\r\n\r\n" if b"my-tub-id" in d else d),
    ("non-ascii", lambda d: d.replace(b"my-tub-id: ", b"my-tub-id: \xff\xfe") if b"my-tub-id" in d else d),
    # oversized VALUES inside a block that stays under the 4096-byte header limit: the error text that quotes them
    # exceeds the 1000-byte limit of an ERROR token and has to be truncated on every reporting path
    ("decision-hash-1500", lambda d: re.sub(rb"(initial-vocab-table-index: \d+ )[0-9a-f]{4}", lambda m: m.group(1) + b"f" * 1500, d)),
    ("decision-hash-3000", lambda d: re.sub(rb"(initial-vocab-table-index: \d+ )[0-9a-f]{4}", lambda m: m.group(1) + b"e" * 3000, d)),
    ("decision-version-long", lambda d: re.sub(rb"banana-decision-version: \d+", b"banana-decision-version: " + b"9" * 2500, d)),
    ("range-long", lambda d: re.sub(rb"banana-negotiation-range: \d+ \d+", b"banana-negotiation-range: " + b"7" * 1800 + b" x", d)),
    ("tubid-long", lambda d: re.sub(rb"my-tub-id: \S+", b"my-tub-id: " + b"q" * 2200, d)),
    ("http-500-long", lambda d: (b"HTTP/1.1 500 Internal Server Error: " + b"z" * 2000 + b"\r\n\r\n") if d.startswith(b"HTTP/1.1 101") else d),
]


def malformed(ctx):
    """a malformed block ends that attempt only: no exception escapes dataReceived, both ends end up without a
    broker for that attempt (or with equal parameters), and a later clean attempt between the same Tubs works."""
    r = (1, 3, 0, 1)
    with quiet():
        for name, fn in MALFORMED:
            for side in (0, 1):            # direction whose traffic is rewritten
                for a_high in (False, True):
                    cfg = dict(malformed=name, side=side, a_high=a_high)
                    hit = []

                    def mangle(link, s, d, fn=fn, side=side, hit=hit):
                        if s != side or link.name != "L0":
                            return d
                        d2 = fn(d)
                        if d2 != d:
                            hit.append(1)
                        return d2
                    try:
                        out = trial_then_retry(r, a_high, mangle)
                    except Exception as e:
                        import traceback
                        ctx.fail("oracle/malformed-exception", "exception escaped to the transport for %r: %r" % (cfg, e),
                                 replay=dict(cfg=cfg, tb=traceback.format_exc()))
                        continue
                    pa, pb, res, pa2, pb2, res2 = out
                    ctx.case(["malformed", name, side, a_high], nontrivial=bool(hit))
                    ctx.hist("malformed_first_attempt", ("banana" if pa else "failed") if hit else "not-applicable")
                    if not hit:
                        continue
                    ca, cb = trial_then_retry.created[0]
                    if pa != pb or len(pa) > 1:
                        ctx.fail("oracle/malformed-disagree", "after malformed input %r the ends disagree: %r vs %r" % (cfg, pa, pb),
                                 replay=dict(cfg=cfg, A=pa, B=pb))
                    elif ca and cb and ca != cb:
                        ctx.fail("oracle/malformed-disagree", "after malformed input %r the two ends created their Brokers with different "
                                 "(version, vocab table): %r vs %r" % (cfg, ca, cb), replay=dict(cfg=cfg, created=[ca, cb]))
                    # (binary-garbage carries no block terminator and stays under the header limit: the receiver rightly keeps
                    # waiting, and the attempt ends by the negotiation timeout)
                    if not pa and not trial_then_retry.prompt[0] and name not in ("binary-garbage",):
                        ctx.fail("oracle/malformed-not-reported", "after malformed input %r the attempt was abandoned but the negotiation "
                                 "failure was not reported: getReference stayed pending until the connection timeout and then got %r"
                                 % (cfg, res), replay=dict(cfg=cfg, res=repr(res)))
                    if len(res) != 1:
                        ctx.fail("oracle/malformed-hang", "getReference fired %d times after malformed input %r" % (len(res), cfg),
                                 replay=dict(cfg=cfg))
                    if pa2 != pb2 or pa2 != [(3, 1)] or res2 != [42]:
                        ctx.fail("oracle/malformed-poisons-later", "a clean attempt after malformed input %r did not succeed: %r %r %r"
                                 % (cfg, pa2, pb2, res2), replay=dict(cfg=cfg, A=pa2, B=pb2, res=repr(res2)))
    ctx.sample(dict(kind="malformed", case=cfg))


EXISTING_FAMILIES = [
    ("decision-hash-wrong", lambda d: re.sub(rb"(initial-vocab-table-index: \d+ )([0-9a-f]{4})", lambda m: m.group(1) + b"ffff", d)),
    ("decision-index-out-of-range", lambda d: re.sub(rb"initial-vocab-table-index: \d+", b"initial-vocab-table-index: 7", d)),
    ("decision-index-one-field", lambda d: re.sub(rb"initial-vocab-table-index: (\d+) [0-9a-f]+", rb"initial-vocab-table-index: \1", d)),
    ("decision-index-not-int", lambda d: re.sub(rb"initial-vocab-table-index: \d+", b"initial-vocab-table-index: x", d)),
    ("decision-version-unknown", lambda d: re.sub(rb"banana-decision-version: \d+", b"banana-decision-version: 99", d)),
    ("decision-version-garbage", lambda d: re.sub(rb"banana-decision-version: \d+", b"banana-decision-version: zz", d)),
    ("decision-hash-1500", lambda d: re.sub(rb"(initial-vocab-table-index: \d+ )[0-9a-f]{4}", lambda m: m.group(1) + b"f" * 1500, d)),
    ("decision-error-block", lambda d: b"error: go away\r\n\r\n" if b"banana-decision-version" in d else d),
]


def malformed_with_existing(ctx):
    """'Malformed ... input only ever ends THAT connection attempt': the end that refuses a malformed decision already has an
    established connection to the same peer Tub (the peer restarted or re-dialled); refusing the new attempt must leave the
    established connection, and the connection records (slave_table / master_table), exactly as they were."""
    r = (1, 3, 0, 1)

    def snapshot(t):
        return (sorted((ref.getTubID(), id(b), bool(b.disconnected)) for ref, b in t.brokers.items()),
                sorted((k, tuple(v) if isinstance(v, (list, tuple)) else v) for k, v in t.slave_table.items()),
                sorted((k, tuple(v) if isinstance(v, (list, tuple)) else v) for k, v in t.master_table.items()))
    with quiet():
        for name, fn in EXISTING_FAMILIES + [("control-undamaged", lambda d: d)]:
            for first_dial in ("slave-dialled", "master-dialled"):
                E.reset_clock()
                net = Net()
                (lo_id, lo_pem), (hi_id, hi_pem) = pems_sorted(2)
                N = make_tub(net, "n", lo_pem, mkneg(r))          # lower TubID: never the decider
                M = make_tub(net, "m", hi_pem, mkneg(r))
                furlM, furlN = M.registerReference(T()), N.registerReference(T())
                res = []
                if first_dial == "slave-dialled":
                    N.getReference(furlM).addCallback(lambda rr: rr.callRemote("hi")).addBoth(res.append)
                else:
                    M.getReference(furlN).addCallback(lambda rr: rr.callRemote("hi")).addBoth(res.append)
                E.turn()
                net.run()
                if res != [42]:
                    ctx.note("malformed_with_existing: the first connection did not come up (%r)" % (res,))
                    continue
                before = snapshot(N)
                hit = []

                def mangle(link, s_, d, fn=fn, hit=hit):
                    if link.name == "L0":
                        return d
                    d2 = fn(d)
                    if d2 != d:
                        hit.append(1)
                    return d2
                net.mangle = mangle
                # the peer Tub comes back as a new incarnation (same certificate) and dials the slave
                M2 = make_tub(net, "m2", hi_pem, mkneg(r))
                res2 = []
                M2.getReference(furlN).addCallback(lambda rr: rr.callRemote("hi")).addBoth(res2.append)
                E.turn()
                net.run()
                after = snapshot(N)
                cfg = dict(family=name, first=first_dial)
                ctx.case(["malformed-existing", name, first_dial], nontrivial=bool(hit) or name.startswith("control"))
                ctx.hist("malformed_existing", "damaged" if hit else "undamaged")
                if hit:
                    if after != before:
                        ctx.fail("oracle/malformed-attempt-disturbs-established-connection", "a refused (malformed) decision changed the state of "
                                 "the refusing Tub beyond the attempt itself: %r: brokers/slave_table/master_table before %r, after %r"
                                 % (cfg, before, after), replay=dict(cfg=cfg, before=repr(before), after=repr(after)))
                    if res2 and res2[0] == 42:
                        ctx.fail("oracle/malformed-disagree", "a damaged decision was accepted: %r" % (cfg,), replay=dict(cfg=cfg))
                else:
                    # control: the undamaged decision replaces the established connection by the new one
                    if name.startswith("control") and res2 != [42]:
                        ctx.fail("oracle/replacement-failed", "an undamaged reconnection from a restarted peer did not succeed: %r -> %r"
                                 % (cfg, res2), replay=dict(cfg=cfg, res=repr(res2)))
                for t in (N, M, M2):
                    t.stopService()
                E.turn()


# ---------------------------------------------------------------------------------------------
# structural damage to ONE LINE of a negotiation block (hello of either end, decision): every line a block really carries, found by
# recording an undamaged run -- so a key that is added to a block later is covered without touching this file
BLOCK_LINE = re.compile(rb"^([A-Za-z][A-Za-z0-9-]*): ([^\r\n]*)\r\n$", re.S)
LINE_DAMAGE = [
    # (name, fn(key, value) -> bytes written instead of b"key: value\r\n"); every result holds a line WITHOUT the key/value separator
    ("colon-to-space", lambda k, v: k + b" " + v + b"\r\n"),
    ("colon-dropped", lambda k, v: k + v + b"\r\n"),
    ("colon-to-equals", lambda k, v: k + b"=" + v + b"\r\n"),
    ("key-only", lambda k, v: k + b"\r\n"),
    ("value-only", lambda k, v: (v + b"\r\n") if v.strip() and b":" not in v else None),
    ("junk-line-before", lambda k, v: b"x-junk\r\n" + k + b": " + v + b"\r\n"),
    ("junk-line-after", lambda k, v: k + b": " + v + b"\r\nx junk\r\n"),
]


def block_lines(r, a_high, rb=None):
    """[(side, key)] of every 'key: value' line of the negotiation blocks of an undamaged attempt, in the order sent"""
    seen = []

    def rec(link, s_, d):
        m = BLOCK_LINE.match(d)
        if m and link.name == "L0" and (s_, m.group(1)) not in seen:
            seen.append((s_, m.group(1)))
        return d
    out = trial_then_retry(r, a_high, rec, rb)
    return seen, out


def recorded_blocks(r, a_high, rb=None):
    """the negotiation blocks of an undamaged attempt as lists of (key, value), in the order sent"""
    blocks, cur = [], {}

    def rec(link, s_, d):
        if link.name != "L0":
            return d
        m = BLOCK_LINE.match(d)
        if m:
            cur.setdefault(s_, []).append((m.group(1), m.group(2)))
        elif d == b"\r\n" and cur.get(s_):
            blocks.append(cur.pop(s_))
        return d
    trial_then_retry(r, a_high, rec, rb)
    return blocks


def damaged_lines(ctx):
    """'Malformed ... negotiation input only ever ends that connection attempt' for the family 'one line of a block is not
    key: value': for every line of every block, every damage of LINE_DAMAGE, both tub-id orders.  The block must be refused:
    both ends abandon the attempt (no Broker on either side -- least of all Brokers with different parameters, which is what a
    reader that skips the line and takes the documented default for the missing key produces), the caller hears of it without
    waiting for the timeout, and a clean attempt afterwards succeeds."""
    configs = [((1, 3, 0, 1), None)]
    if ctx.tier != "quick":
        configs += [((3, 3, 0, 1), None), ((2, 3, 1, 1), (1, 3, 0, 1)), ((1, 2, 0, 0), (2, 3, 0, 1)), ((3, 3, 1, 1), (3, 4, 0, 1))]
    cfg = None
    with quiet():
        for (r, rb) in configs:
            for a_high in (False, True):
                lines, ctl = block_lines(r, a_high, rb)
                want = expected(r, rb or r)
                ctx.case(["damaged-line", "control", r, rb, a_high], nontrivial=True)
                if ctl[0] != [want] or ctl[1] != [want] or ctl[2] != [42] or len(lines) < 7 \
                        or not any(k == b"banana-decision-version" for (_, k) in lines):
                    ctx.fail("oracle/damaged-line-control", "the undamaged control run of the damaged-line family did not connect with %r, or "
                             "its blocks were not seen: %r, lines %r" % (want, ctl[:3], lines),
                             replay=dict(cfg=dict(r=r, rb=rb, a_high=a_high), lines=repr(lines)))
                    continue
                for (side, key) in lines:
                    for dname, dfn in LINE_DAMAGE:
                        cfg = dict(damaged_line=key.decode(), damage=dname, side=side, a_high=a_high, r=r, rb=rb)
                        hit = []

                        def mangle(link, s_, d, side=side, key=key, dfn=dfn, hit=hit):
                            if s_ != side or link.name != "L0" or hit:
                                return d
                            m = BLOCK_LINE.match(d)
                            if not m or m.group(1) != key:
                                return d
                            d2 = dfn(m.group(1), m.group(2))
                            if d2 is None:
                                return d
                            hit.append(d2)
                            return d2
                        try:
                            out = trial_then_retry(r, a_high, mangle, rb)
                        except Exception as e:
                            import traceback
                            ctx.fail("oracle/malformed-exception", "exception escaped to the transport for %r: %r" % (cfg, e),
                                     replay=dict(cfg=cfg, tb=traceback.format_exc()))
                            continue
                        pa, pb, res, pa2, pb2, res2 = out
                        ctx.case(["damaged-line", key.decode(), dname, side, a_high, r, rb], nontrivial=bool(hit))
                        ctx.hist("damaged_line_first_attempt", ("banana" if pa or pb else "failed") if hit else "not-applicable")
                        ctx.hist("damaged_line_key", key.decode())
                        if not hit:
                            continue
                        cfg["sent_instead"] = repr(hit[0])
                        ca, cb = trial_then_retry.created[0]
                        got_it = cb if side == 0 else ca          # Brokers made by the end that RECEIVED the damaged block
                        if pa != pb or len(pa) > 1 or (ca and cb and ca != cb):
                            ctx.fail("oracle/malformed-disagree", "a block with a line that is not 'key: value' (%r) was not refused and the ends "
                                     "disagree: Brokers created with (version, vocab table) %r by the dialer, %r by the listener (left afterwards: "
                                     "%r / %r); %r" % (hit[0], ca, cb, pa, pb, cfg), replay=dict(cfg=cfg, A=pa, B=pb, created=[ca, cb]))
                        elif got_it:
                            ctx.fail("oracle/malformed-accepted", "a block with a line that is not 'key: value' (%r) did not end the attempt: the end "
                                     "that received it switched to the RPC protocol with %r (left afterwards: %r / %r, call: %r); %r"
                                     % (hit[0], got_it, pa, pb, res, cfg), replay=dict(cfg=cfg, A=pa, B=pb, created=[ca, cb], res=repr(res)))
                        elif pa or res == [42]:
                            ctx.fail("oracle/malformed-accepted", "a block with a line that is not 'key: value' (%r) did not end the attempt: both "
                                     "ends switched to %r and the call returned %r; %r" % (hit[0], pa, res, cfg),
                                     replay=dict(cfg=cfg, A=pa, B=pb, res=repr(res)))
                        elif not trial_then_retry.prompt[0]:
                            ctx.fail("oracle/malformed-not-reported", "after a damaged line %r the attempt was abandoned but the negotiation "
                                     "failure was not reported: getReference stayed pending until the connection timeout and then got %r"
                                     % (cfg, res), replay=dict(cfg=cfg, res=repr(res)))
                        if len(res) != 1:
                            ctx.fail("oracle/malformed-hang", "getReference fired %d times after a damaged line %r" % (len(res), cfg),
                                     replay=dict(cfg=cfg))
                        if pa2 != pb2 or pa2 != [want] or res2 != [42]:
                            ctx.fail("oracle/malformed-poisons-later", "a clean attempt after a damaged line %r did not succeed: %r %r %r"
                                     % (cfg, pa2, pb2, res2), replay=dict(cfg=cfg, A=pa2, B=pb2, res=repr(res2)))
    if cfg:
        ctx.sample(dict(kind="damaged-line", case=cfg))


def coalesced(ctx):
    """the decision block may arrive in one packet together with the peer's first Banana traffic, however much there
    is of it: the outcome must not depend on that (regression: the 4096-byte header limit used to count it)"""
    with quiet():
        for nrefs in (5, 45, 60, 120):
            for a_high in (False, True):
                for merge in (False, True):
                    E.reset_clock()
                    net = Net()
                    (lo_id, lo_pem), (hi_id, hi_pem) = pems_sorted(2)
                    pa, pb_ = (hi_pem, lo_pem) if a_high else (lo_pem, hi_pem)
                    A = make_tub(net, "a", pa)
                    B = make_tub(net, "b", pb_)
                    furls = [A.registerReference(T()) for i in range(nrefs)]
                    res = []
                    for f in furls:
                        B.getReference(f).addBoth(res.append)
                    E.turn()
                    steps = 0
                    while steps < 20000:
                        steps += 1
                        c = net.deliverable()
                        if not c:
                            break
                        l, what = c[0]
                        if merge and not isinstance(what, tuple):
                            q = l.q[what]
                            merged = b""
                            while q and q[0] is not None:
                                merged += q.pop(0)
                            if merged:
                                q.insert(0, merged)
                        net.step((l, what))
                    for i in range(3):
                        if len(res) == nrefs:
                            break
                        E.clock.advance(130)
                        E.turn()
                        net.run()
                    good = sum(1 for x in res if type(x).__name__ == "RemoteReference")
                    ctx.case(["coalesced", nrefs, a_high, merge], nontrivial=True)
                    ctx.hist("coalesced", "merged" if merge else "separate")
                    if good != nrefs or len(res) != nrefs:
                        ctx.fail("oracle/packetisation-changes-outcome",
                                 "%d getReference calls queued behind the negotiation: %d succeeded (%d fired) when the peer's "
                                 "early traffic %s delivered together with its decision block" % (nrefs, good, len(res), "was" if merge else "was not"),
                                 replay=dict(nrefs=nrefs, a_high=a_high, merge=merge))
                    for t in (A, B):
                        t.stopService()
                    E.turn()


def trial_then_retry(r, a_high, mangle, rb=None):
    E.reset_clock()
    net = Net()
    net.mangle = mangle
    (lo_id, lo_pem), (hi_id, hi_pem) = pems_sorted(2)
    pa, pb_ = (hi_pem, lo_pem) if a_high else (lo_pem, hi_pem)
    A = make_tub(net, "a", pa, mkneg(r))
    B = make_tub(net, "b", pb_, mkneg(rb or r))
    furl = B.registerReference(T())
    # 'parameters of the Broker created on each side': noted when the Broker is made, because a pair that was created with
    # different tables does not live long enough to be seen in Tub.brokers afterwards
    created = {"a": [], "b": []}
    A.brokerClass = recording_broker(A.brokerClass, created["a"])
    B.brokerClass = recording_broker(B.brokerClass, created["b"])

    prompt = []
    made = []

    def attempt():
        res = []
        del created["a"][:], created["b"][:]
        A.getReference(furl).addCallback(lambda rr: rr.callRemote("hi")).addBoth(res.append)
        E.turn()
        net.run()
        prompt.append(bool(res))          # settled without waiting for the 120 s connection timeout?
        for i in range(3):
            if res:
                break
            E.clock.advance(130)
            E.turn()
            net.run()

        def params(t):
            return [(b._banana_decision_version, 1 if len(b.incomingVocabulary) else 0)
                    for b in t.brokers.values() if not b.disconnected]
        made.append((list(created["a"]), list(created["b"])))
        return params(A), params(B), [getattr(x, "type", x) for x in res]
    first = attempt()
    # drop whatever was established, then a clean attempt on a fresh link
    for b in list(A.brokers.values()):
        b.transport.loseConnection()
    E.turn()
    net.run()
    second = attempt()
    for t in (A, B):
        t.stopService()
    E.turn()
    trial_then_retry.prompt = prompt
    trial_then_retry.created = made       # per attempt: ([(version, table)] of the Brokers the dialer made, same for the listener)
    return first + second


def table_of(b, tables):
    """index of the table in `tables` (index -> word list) that Broker b starts with, word for word and number for number in both
    directions; ("table", size, first words) when it is none of them (or more than one)"""
    inc, out = dict(b.incomingVocabulary), dict(b.outgoingVocabulary)
    idx = [k for k, t in sorted(tables.items()) if inc == dict(enumerate(t)) and out == {w: i for i, w in enumerate(t)}]
    return idx[0] if len(idx) == 1 else ("table", len(inc), [inc[k] for k in sorted(inc)][:3])


def recording_broker(base, log, world=None):
    """a Broker class that notes (negotiated version, index of the initial vocabulary table it really starts with); with
    world = (VocabWorlds, end) the index is looked up in that end's own tables and the words themselves are noted as well"""
    from foolscap import vocab as _v

    class RecordingBroker(base):
        def __init__(self, *a, **kw):
            base.__init__(self, *a, **kw)
            if world is not None:
                inc = dict(self.incomingVocabulary)
                log.append((self._banana_decision_version, table_of(self, world[0].tables(world[1]))))
                world[0].words[world[1]].append(([inc[k] for k in sorted(inc)], sorted(inc) == list(range(len(inc))) and
                                                dict(self.outgoingVocabulary) == {w: i for i, w in inc.items()}))
                return
            words = sorted(self.incomingVocabulary.values())
            idx = [k for k, t in _v.INITIAL_VOCAB_TABLES.items()
                   if sorted(t) == words and sorted(self.outgoingVocabulary.keys()) == sorted(t)]
            log.append((self._banana_decision_version, idx[0] if len(idx) == 1 else ("table", len(words), words[:3])))
    return RecordingBroker


# ---------------------------------------------------------------------------------------------
# 'an initial vocabulary table both possess WITH MATCHING CONTENTS': each end really HOLDS its own tables, and an application may
# change them while the process runs
class VocabWorlds:
    """two ends in one process, each with its OWN state of the module foolscap.vocab: every module-level dict of vocab.py
    (INITIAL_VOCAB_TABLES and whatever else the module keeps) is switched -- in place, so that every importer sees it -- to the
    receiving end's contents just before bytes are delivered to that end, saved again when the other end's turn comes, and put
    back to what it was when the trial is over.  The list objects in an end's INITIAL_VOCAB_TABLES are that end's own and live
    as long as the VocabWorlds object (= the process): an application extends them in place or replaces them."""

    def __init__(self):
        from foolscap import vocab
        self.vocab = vocab
        self.current = None
        self.original = self._snapshot()
        self.state = {}
        self.words = {"a": [], "b": []}       # per end: (words of the Broker it created, number for number; well-formed both ways?)
        for end in "ab":
            self.state[end] = {n: dict(d) for n, d in self.original.items()}
            self.state[end]["INITIAL_VOCAB_TABLES"] = {k: list(v) for k, v in vocab.INITIAL_VOCAB_TABLES.items()}

    def _dicts(self):
        return {n: d for n, d in vars(self.vocab).items() if isinstance(d, dict) and not n.startswith("__")}

    def _snapshot(self):
        return {n: dict(d) for n, d in self._dicts().items()}

    def tables(self, end):
        return dict(self.vocab.INITIAL_VOCAB_TABLES) if self.current == end else self.state[end]["INITIAL_VOCAB_TABLES"]

    def enter(self, end):
        if self.current == end:
            return
        self.leave()
        for n, d in self._dicts().items():
            d.clear()
            d.update(self.state[end].get(n, {}))
        self.current = end

    def leave(self):
        if self.current is None:
            return
        self.state[self.current] = self._snapshot()
        for n, d in self._dicts().items():
            d.clear()
            d.update(self.original.get(n, {}))
        self.current = None

    def apply(self, end, op):
        """one change an application makes to its tables between two negotiations (never while an end is current)"""
        assert self.current is None
        t = self.state[end]["INITIAL_VOCAB_TABLES"]
        kind, i = op[0], op[1]
        w = [x.encode("latin-1") if isinstance(x, str) else x for x in op[2:]]
        if kind == "set":                     # a new list object
            t[i] = list(w)
        elif kind == "append":                # the same list object, extended in place
            t[i].extend(w)
        elif kind == "replace-append":        # a new list object with more words
            t[i] = list(t[i]) + list(w)
        elif kind == "drop-last":
            del t[i][-1]
        elif kind == "swap":                  # same words, two of them change places (in place)
            t[i][w[0]], t[i][w[1]] = t[i][w[1]], t[i][w[0]]
        elif kind == "change":                # one word replaced, same length (in place)
            t[i][w[0]] = w[1]
        elif kind == "del":
            del t[i]
        else:
            raise ValueError(op)


def published_hash(words):
    """the published algorithm (test_banana.test_table_hashes): only used to keep accidental 16-bit collisions out of the inputs and
    to give the Coq model a number for a table's contents -- the oracle compares CONTENTS"""
    from hashlib import sha1
    return sha1(b"\x00".join(words)).hexdigest()[:4]


X2 = ["getStatus", "setStatus"]          # the words of an application's extra table 2, on top of the words of table 1
V1 = None


def _v1():
    global V1
    if V1 is None:
        from foolscap import vocab
        V1 = [w.decode("latin-1") for w in vocab.vocab_v1]
    return V1


def table_histories():
    """the fixed histories (no random choice).  A step = (changes end A makes to its tables, changes end B makes, ranges of A, ranges
    of B); every history is run in both tub-id orders and dialled from either end.  Families: an extra table 2 that one end
    extends / replaces / reorders / shortens / edits AFTER a negotiation has used it, then the other end follows; table 1 itself
    edited on one end after use; tables that differ from the very first negotiation; a table put back to what it was."""
    v1 = _v1()
    t2 = ("set", 2) + tuple(v1 + X2)
    r2, r1, r12 = (1, 3, 0, 2), (1, 3, 0, 1), (2, 3, 1, 2)
    H = {}
    for name, op, follow in [
            ("extend-in-place", ("append", 2, "plugin.frobnicate"), ("append", 2, "plugin.frobnicate")),
            ("extend-replace", ("replace-append", 2, "plugin.frobnicate"), ("replace-append", 2, "plugin.frobnicate")),
            ("reorder", ("swap", 2, 3, 7), ("swap", 2, 3, 7)),
            ("shorten", ("drop-last", 2), ("drop-last", 2)),
            ("edit-one-word", ("change", 2, 25, "getstatus"), ("change", 2, 25, "getstatus"))]:
        for who in "ab":
            mine, yours = ([op], []) if who == "a" else ([], [op])
            mine2, yours2 = ([], [follow]) if who == "a" else ([follow], [])
            H["table2/%s/%s-first" % (name, who)] = [([t2], [t2], r2, r2), (mine, yours, r2, r12), (mine2, yours2, r12, r2)]
    for who in "ab":
        op = ("replace-append", 1, "extra")
        back = ("set", 1) + tuple(v1)
        a1, b1 = ([op], []) if who == "a" else ([], [op])
        a2, b2 = ([back], []) if who == "a" else ([], [back])
        H["table1/edited-after-use-then-put-back/%s" % who] = [([], [], r1, r1), (a1, b1, r1, r1), (a2, b2, r1, r1)]
        # differ from the first negotiation on (nothing hashed before), then made equal
        d = ("set", 2) + tuple(v1 + X2[::-1])
        a0, b0 = ([t2], [d]) if who == "a" else ([d], [t2])
        a1, b1 = ([], [t2]) if who == "a" else ([t2], [])
        H["table2/differs-from-the-start/%s" % who] = [(a0, b0, r2, r2), (a1, b1, r2, r2)]
    # table 2 differs but the ranges settle on table 1 (equal): must connect; then on table 2: must not; then no common table
    d = ("set", 2) + tuple(v1 + ["other"])
    H["table2/differs-but-table1-chosen"] = [([t2], [d], r2, r1), ([], [], r2, r2), ([], [], r1, r2), ([], [], (1, 3, 0, 0), r12)]
    return H


TABLE_CONTENTS = "oracle/table-contents"


def run_history(ctx, name, steps, a_high, dial0, chunk=None, rng=None):
    """one history on the real code: the same two 'processes' (VocabWorlds) negotiate once per step with fresh Tubs, after each has
    made the step's changes to its tables.  -> cases for the correspondence with the Coq model"""
    worlds = VocabWorlds()
    out, done = [], []
    for k, (ops_a, ops_b, ra, rb) in enumerate(steps):
        for end, ops in (("a", ops_a), ("b", ops_b)):
            for op in ops:
                worlds.apply(end, op)
        ta, tb = worlds.tables("a"), worlds.tables("b")
        for end, t, r in (("a", ta, ra), ("b", tb, rb)):
            assert all(i in t for i in range(r[2], r[3] + 1)) and t.get(0) == [], "harness: an end offers a table it does not have"
        dial = dial0 if k % 2 == 0 else ("b" if dial0 == "a" else "a")
        worlds.words = {"a": [], "b": []}
        done.append(dict(step=k, A_does=[list(o[:2]) + ["%d words" % (len(o) - 2)] if o[0] == "set" else list(o) for o in ops_a],
                         B_does=[list(o[:2]) + ["%d words" % (len(o) - 2)] if o[0] == "set" else list(o) for o in ops_b],
                         ra=ra, rb=rb, dial=dial))
        pa, pb, res = trial(ra, rb, a_high, dial_from=dial, worlds=worlds, chunk=chunk, rng=rng)
        exp = expected(ra, rb)
        differ = exp is not None and list(ta[exp[1]]) != list(tb[exp[1]])
        if differ:
            assert published_hash(ta[exp[1]]) != published_hash(tb[exp[1]]), "harness: the two test tables collide in 16 bits"
        cfg = dict(history=name, a_high=a_high, steps=done[:], ra=ra, rb=rb,
                   tables=dict(A={i: "%d words, last %r" % (len(t), t[-1:]) for i, t in sorted(ta.items())},
                               B={i: "%d words, last %r" % (len(t), t[-1:]) for i, t in sorted(tb.items())}))
        judge_tables(ctx, cfg, exp, differ, pa, pb, res, worlds)
        ctx.case(["tables", name, a_high, dial0, k], nontrivial=len(res) == 1)
        ctx.hist("table_contents_step", "no-decision" if not exp else "table-%d-%s" % (exp[1], "differs" if differ else "equal"))
        ctx.hist("table_contents_outcome", "banana" if pa else "failed")
        hashes = tuple({i: int(published_hash(w), 16) for i, w in t.items()} for t in (ta, tb))
        out.append(dict(ra=ra, rb=rb, a_high=a_high, tamper="hash" if differ else None, hashes=hashes, history=name, step=k,
                        obs=observed(pa, pb), caller=caller_code(res), phases=list(trial.last_phases)))
    return out


def judge_tables(ctx, cfg, exp, differ, pa, pb, res, worlds):
    """the second sentence of the property on two ends that HOLD the tables: both switch with the best common (version, table) and
    start from the same words, number for number -- or, when the contents of the table decided on differ, the non-decider
    refuses (and the decider's early switch is the known finding)"""
    ca, cb = [list(x) for x in trial.created]
    wa, wb = worlds.words["a"], worlds.words["b"]
    cd, cn = (ca, cb) if cfg["a_high"] else (cb, ca)
    rp = dict(config=cfg, A=pa, B=pb, created=dict(A=ca, B=cb), result=repr(res),
              words=dict(A=[[len(w), repr(w[-2:]), ok] for w, ok in wa], B=[[len(w), repr(w[-2:]), ok] for w, ok in wb]),
              dialer="decider" if trial.dialer_is_decider else "non-decider")
    where = "history %r, step %d (tables: %r)" % (cfg["history"], len(cfg["steps"]) - 1, cfg["tables"])

    def bad(what):
        ctx.extra["table_content_violations"] = ctx.extra.get("table_content_violations", 0) + 1
        if ctx.extra["table_content_violations"] > 4:          # the first few say it all
            return False
        ctx.fail(TABLE_CONTENTS, "%s; %s; decider = %s, configuration %r" % (what, where, "A" if cfg["a_high"] else "B",
                                                                           {k: cfg[k] for k in ("ra", "rb", "steps")}), replay=rp)
        return False
    if any(not ok for w, ok in wa + wb):
        return bad("a Broker was created whose incoming and outgoing tables are not the same numbered word list")
    if wa and wb and wa[0][0] != wb[0][0]:
        n = min(len(wa[0][0]), len(wb[0][0]))
        first = next((i for i in range(n) if wa[0][0][i] != wb[0][0][i]), n)
        return bad("both ends switched to the RPC protocol but they do NOT start from the same vocabulary: A's Broker starts with %d "
                   "words, B's with %d, first difference at VOCAB #%d (%r / %r); created (version, own table) %r / %r"
                   % (len(wa[0][0]), len(wb[0][0]), first, wa[0][0][first:first + 1], wb[0][0][first:first + 1], ca, cb))
    caller_ok = len(res) == 1 and isinstance(res[0], type) and issubclass(res[0], NEGOTIATION_ERRORS)
    if exp is None or not differ:
        want = [exp] if exp else []
        if ca != want or cb != want or pa != want or pb != want:
            return bad("the two ends %s, so both must %s: A created %r (left %r), B created %r (left %r), the caller got %r"
                       % ("hold the same contents for the best common table %d" % exp[1] if exp else "have no common version or table",
                          "switch with (version, table) %r" % (exp,) if exp else "abandon", ca, pa, cb, pb, res))
        if (exp and res != [42]) or (not exp and not caller_ok):
            return bad("the caller got %r where %s was due" % (res, "the call's answer" if exp else "a negotiation error"))
        return True
    if cn or pa or pb or res == [42]:
        return bad("the two ends hold DIFFERENT contents for table %d, yet the decision was not refused: the non-decider created %r, "
                   "the decider %r (left %r / %r, caller got %r)" % (exp[1], cn, cd, pa, pb, res))
    if len(res) != 1:
        return bad("getReference/callRemote fired %d times" % len(res))
    if cd:
        ctx.fail(DECIDER_SWITCHED, "the non-decider refused the decision (the contents of table %d differ) but the decider had already "
                 "created a Broker with %r; %s" % (exp[1], cd, where), replay=rp)
        if not trial.dialer_is_decider and not caller_ok:
            return bad("the non-decider dialled and refused the decision, but its caller did not get a negotiation error: %r" % (res,))
        return True
    if not caller_ok:
        return bad("the attempt failed, but not with a negotiation error: the caller got %r" % (res,))
    return True


def table_contents(ctx):
    """-> cases for the correspondence (model run with each end's own hashes)"""
    cases, H = [], table_histories()
    with quiet():
        for n, (name, steps) in enumerate(sorted(H.items())):
            # quick: every history once per tub-id order (the dialling end alternates); thorough: every combination
            for a_high in (False, True):
                for dial0 in (("a", "b") if ctx.tier != "quick" else ("a" if (n + a_high) % 2 else "b",)):
                    cases += run_history(ctx, name, steps, a_high, dial0)
        # thorough: random histories (random changes by either end between negotiations, random ranges over tables 0..2)
        # and the fixed ones again under random chunking
        for i in range(ctx.n(0, 120)):
            cases_i = run_history(ctx, "random-%d" % i, random_history(ctx.rng), ctx.rng.random() < 0.5, ctx.rng.choice("ab"))
            cases += cases_i if i < 40 else []
        names = sorted(H)
        for i in range(ctx.n(0, 60)):
            name = ctx.rng.choice(names)
            run_history(ctx, name + "/chunked-%d" % i, H[name], ctx.rng.random() < 0.5, ctx.rng.choice("ab"),
                        chunk=lambda r: r.choice([1, 2, 3, 5, 8, 13, 40, 100]), rng=ctx.rng)
    ctx.extra["table_content_histories"] = len(H)
    ctx.extra["table_content_negotiations"] = len(cases)
    ctx.sample(dict(kind="table-contents", case={k: v for k, v in cases[4].items() if k != "phases"}))
    return cases


def random_history(rng):
    v1 = _v1()
    t2 = ("set", 2) + tuple(v1 + X2)
    steps = [([t2], [t2], (1, 3, 0, 2), (1, 3, 0, 2))]
    fresh = 0
    pending = []
    for k in range(rng.randint(2, 5)):
        ops = {"a": [], "b": []}
        for j in range(rng.randint(0, 2)):
            end = rng.choice("ab")
            i = rng.choice([1, 2, 2])
            fresh += 1
            op = rng.choice([("append", i, "w%d" % fresh), ("replace-append", i, "w%d" % fresh), ("swap", i, rng.randrange(5), 5 + rng.randrange(5)),
                             ("change", i, rng.randrange(10), "c%d" % fresh)])
            ops[end].append(op)
            pending.append(("b" if end == "a" else "a", op))
        # sometimes the other end catches up with everything it has missed (then the tables are equal again)
        if pending and rng.random() < 0.4:
            for end, op in pending:
                ops[end].append(op)
            pending = []
        rs = [(1, 3, 0, 2), (1, 3, 0, 1), (2, 3, 1, 2), (3, 3, 2, 2), (1, 2, 1, 1), (1, 3, 0, 0)]
        steps.append((ops["a"], ops["b"], rng.choice(rs), rng.choice(rs)))
    return steps


# ---------------------------------------------------------------------------------------------
# the block splitter: the REAL Negotiation.dataReceived and switchToBanana with probe phase handlers
def split_trace(stream, chunks, k):
    """feed `stream` in `chunks` to a server-side Negotiation that expects k header blocks.
    Returns (blocks seen by the phase handlers, dead?, bytes handed to the Broker, escaped exception)."""
    from foolscap.tokens import NegotiationError

    class FakeBroker:
        def __init__(self, *a, **kw):
            self.got = b""

        def setTub(self, t):
            pass

        def makeConnection(self, t):
            pass

        def dataReceived(self, d):
            self.got += d

        def connectionLost(self, why):
            pass

    class FakeTub:
        keepaliveTimeout = None
        disconnectTimeout = None
        _test_options = {}

        def brokerAttached(self, *a):
            pass

    class CI:
        def _set_connected(self, x):
            pass

        def _set_listener_status(self, x):
            pass

    class Tr:
        def __init__(self):
            self.lost = False
            self.written = b""

        def write(self, d):
            self.written += d

        def loseConnection(self):
            self.lost = True

    class Probe(neg.Negotiation):
        def _got(self, header):
            self.blocks.append(bytes(header))
            if header.startswith(b"BAD"):
                raise NegotiationError("refused by the phase handler")
            self.receive_phase += 1
            self.seen += 1
            if self.seen == self.expect:
                self.switchToBanana({})
        handlePLAINTEXTServer = _got
        handleENCRYPTED = _got
        handleDECIDING = _got

    p = Probe()
    p.isClient = False
    p.blocks, p.seen, p.expect = [], 0, k
    p.receive_phase = neg.PLAINTEXT + (3 - k)
    p.tub = FakeTub()
    p.brokerClass = FakeBroker
    p.theirTubRef = None
    p._connectionInfo = CI()
    p.factory = None
    p.transport = Tr()
    brokers = []
    orig = p.brokerClass

    def mk(*a, **kw):
        b = FakeBroker()
        brokers.append(b)
        return b
    p.brokerClass = mk
    pos = 0
    esc = None
    for n in chunks:
        if p.transport.lost:
            break                      # a real transport delivers nothing after loseConnection
        d = stream[pos:pos + n]
        pos += n
        try:
            p.dataReceived(d)
        except Exception as e:
            esc = "%s: %s" % (type(e).__name__, e)
            break
    passed = brokers[0].got if brokers else b""
    return [list(b) for b in p.blocks], p.transport.lost, list(passed), esc, len(p.buffer) if not p.transport.lost and not brokers else 0, bool(brokers)


def splitter(ctx):
    """streams of header blocks around the 4096-byte limit, BAD blocks, trailing RPC bytes; every chunking must give
    the same blocks / verdict / passed bytes, and the Coq model must predict them"""
    r = ctx.rng
    cases = []
    T = b"\r\n\r\n"
    n = ctx.n(70, 2500)
    for i in range(n):
        k = r.choice([1, 2, 3])
        parts = []
        for j in range(r.choice([k, k, k + 1, max(1, k - 1)])):
            kind = r.random()
            if kind < 0.55:
                body = bytes(r.choice(b"abcXYZ: \r\n") for _ in range(r.choice([0, 1, 5, 40, 300])))
            elif kind < 0.8:
                body = b"h" * r.choice([4090, 4092, 4093, 4094, 4095, 4096, 4097, 4099, 4100, 4101, 5000])
            elif kind < 0.9:
                body = b"BAD" + b"x" * r.choice([0, 10])
            else:
                body = bytes(r.choice(b"\r\n") for _ in range(r.choice([1, 2, 3, 5, 7])))   # CR/LF soup, partial terminators
            parts.append(body + (T if r.random() < 0.93 else b""))
        stream = b"".join(parts) + bytes(r.randrange(256) for _ in range(r.choice([0, 0, 3, 50, 5000])))
        ref = None
        for cs in chunkings_for(r, stream):
            blocks, dead, passed, esc, buflen, switched = split_trace(stream, cs, k)
            ctx.case(["split", list(stream[:64]), len(stream), cs[:50], k], nontrivial=bool(blocks))
            ctx.hist("split_outcome", "escaped" if esc else "dead" if dead else "switched" if switched else "waiting")
            if esc:
                ctx.fail("oracle/malformed-exception", "exception escaped Negotiation.dataReceived: %s (k=%d, chunks %r)" % (esc, k, cs[:20]),
                         replay=dict(stream=list(stream), chunks=cs, k=k))
                break
            obs = (blocks, dead, passed if not dead else [], switched and not dead)
            if ref is None:
                ref = obs
            elif obs != ref:
                ctx.fail("oracle/packetisation-changes-outcome/splitter", "the negotiation block splitter depends on the chunking: whole stream -> "
                         "%d blocks, dead=%s, %d bytes passed; chunks %r -> %d blocks, dead=%s, %d bytes passed (k=%d, stream of %d bytes)"
                         % (len(ref[0]), ref[1], len(ref[2]), cs[:20], len(obs[0]), obs[1], len(obs[2]), k, len(stream)),
                         replay=dict(stream=list(stream), chunks=cs, k=k))
                break
            cases.append((stream, cs, k, obs, buflen))
    ctx.sample(dict(kind="splitter", k=cases[0][2], stream_len=len(cases[0][0]), chunks=cases[0][1][:10]))
    return cases


def chunkings_for(r, stream):
    n = len(stream)
    out = [[n]]
    if n <= 600:
        out.append([1] * n)
    for _ in range(2):
        cs, left = [], n
        while left > 0:
            c = min(left, r.choice([1, 2, 3, 4, 7, 64, 1000, 4095, 4096, 4097, 4100]))
            cs.append(c)
            left -= c
        out.append(cs or [0])
    # a boundary inside every terminator near the limit
    for off in (4093, 4094, 4095, 4096, 4097, 4098, 4099):
        if off < n:
            out.append([off, n - off])
    return out
