"""C08/C09: two real Brokers (owner O, holder H) joined by message-granular in-memory
transports.  Every protocol message (a call carrying my-references, a decref call, its
answer, a call carrying a your-reference) is one queue item, delivered by the harness.
Proxies are collected deterministically on the last `del` (+ gc.collect()), so dropping a
proxy is an explicit action of a history.

Harness-level *actions* (json-able lists) and the model ops (coq/lib/Refs.v) they stand for:
  ["send", [k1,k2,..], disc]  O calls H's target with the objects k1.. nested in a list
                               (disc: the call's first argument violates the receiver's schema,
                               so the receiver discards the rest)      -> Send k1 disc; Send k2 disc; ..
  ["oh"]                       H processes the next O->H message       -> RecvOH x (number of my-references
                               in the message, or 1 for an ack)
  ["ho"]                       O processes the next H->O message       -> RecvHO
  ["ho", g, [k1,..]]           the same, but the eventual-send queue is run for g generations only (g = 0: the message is
                               parsed, its call not yet run; g >= 1: the call has run, what it scheduled for later turns
                               has run g-1 generations deep) when O sends the objects k1.. (the answer of the next queued
                               call, a callback, ... carries them); then the queue is run to the end
                                                                       -> g = 0: Send k1; ..; RecvHO   g >= 1: RecvHO; Send k1; ..
  ["drop", p, turn]            H drops proxy p (turn=False: the eventual-send queue is not run yet,
                               so _handleRefLost stays pending)        -> DropProxy p
  ["home", p, iscall]          H sends proxy p back to O as an argument, or calls through it
                                                                       -> SendHome p iscall
  ["lost", how]                the connection is given up: both ends see connectionLost, or one / both Brokers shut
                               down / time out over a transport that never reports the loss    -> ConnLost
Every action that runs the eventual queue is followed by one HandleRefLost per pending _handleRefLost.
"""
import gc, weakref
from zope.interface import implementer
from twisted.python import failure
from twisted.internet.error import ConnectionLost
from harness import implenv as E
from foolscap import broker, referenceable
from foolscap.referenceable import TubRef
from foolscap.api import Referenceable, RemoteInterface
from foolscap.schema import Any


class RIRefsTarget(RemoteInterface):
    def m(a=int, b=Any()):
        return None


class QT:
    """transport whose writes are grouped into messages and queued until deliver()"""
    connected = True
    disconnecting = False

    def __init__(self):
        self.q = []
        self.cur = []
        self.peer = None

    def write(self, data):
        self.cur.append(bytes(data))

    def writeSequence(self, ds):
        for d in ds:
            self.write(d)

    def endmsg(self):
        if self.cur:
            self.q.append(b"".join(self.cur))
            self.cur = []

    def loseConnection(self, why=None):
        pass

    def getPeer(self):
        return broker.LoopbackAddress()

    def getHost(self):
        return broker.LoopbackAddress()


@implementer(RIRefsTarget)
class HTarget(Referenceable):
    """lives on H; O calls m(a, payload)"""

    def __init__(self):
        self.got = []

    def remote_m(self, a, b):
        self.got.append(b)


class OTarget(Referenceable):
    """lives on O; H sends proxies home to it"""

    def __init__(self):
        self.got = []

    def remote_home(self, x):
        self.got.append(x)


class RIRefsX(RemoteInterface):
    """the objects O exports declare an interface, so that the holder's tracker shows (interfaceName is not None) whether it was
    created from the LONG form of a my-reference -- interface name and FURL travel together, only when send() says "first"
    (model: t_url; two bare Brokers have no Tub, so the FURL itself is always absent here)"""
    def ping():
        return None


@implementer(RIRefsX)
class X(Referenceable):
    def __init__(self, k):
        self.k = k
        self.pings = 0

    def remote_ping(self):
        self.pings += 1


def one_generation():
    """run ONE generation of the eventual-send queue: the events queued so far; what they queue in turn stays queued
    (Clock.advance(0) would go on until the queue is empty: a callLater(0) made during advance(0) runs in the same call)"""
    from foolscap import eventual as ev
    q = ev._theSimpleQueue
    if not (hasattr(q, "_events") and hasattr(q, "_timer") and hasattr(q, "_turn")):
        E.clock.advance(0)
        return
    t = q._timer
    if t is not None:
        if t.active():
            t.cancel()
        q._timer = None
    if q._events:
        q._turn()
    elif t is not None:
        q._turn()          # (nothing queued: let the turn do its end-of-turn work, e.g. flush observers)


class DecrefLog:
    """records every ReferenceableTracker.decref call (refcount before, count, raised?) by wrapping the method
    of the live class for the duration of a world"""
    active = None


_orig_decref = referenceable.ReferenceableTracker.decref


def _decref_wrapper(self, count):
    log = DecrefLog.active
    before = self.refcount
    try:
        r = _orig_decref(self, count)
    except BaseException as e:
        if log is not None:
            log.append((self.clid, before, count, type(e).__name__))
        raise
    if log is not None:
        log.append((self.clid, before, count, None))
    return r


def install_wrappers():
    # the wrapper calls whatever `decref` the class has *now* (a mutated tree is honoured)
    global _orig_decref
    cur = referenceable.ReferenceableTracker.decref
    if cur is not _decref_wrapper:
        _orig_decref = cur
        referenceable.ReferenceableTracker.decref = _decref_wrapper


class World:
    NOBJ = 4

    def __init__(self):
        install_wrappers()
        # everything alive so far (modules, classes, results of earlier histories) is moved out of the collector's
        # sight: the many gc.collect() calls below then only traverse what this history allocates
        gc.collect()
        gc.freeze()
        E.reset_clock()
        self.decrefs = []
        DecrefLog.active = self.decrefs
        self.O = broker.Broker(TubRef("owner"))
        self.H = broker.Broker(TubRef("holder"))
        self.tO = QT(); self.tO.peer = self.H; self.O.transport = self.tO      # O -> H
        self.tH = QT(); self.tH.peer = self.O; self.H.transport = self.tH      # H -> O
        self.O.connectionMade(); self.H.connectionMade()
        # one queue item per top-level object (call / answer): close the current message whenever a Broker starts
        # sending the next object (serialisation is synchronous here: nothing in these histories stalls the send queue)
        for b, t in ((self.O, self.tO), (self.H, self.tH)):
            def send(obj, _orig=b.send, _t=t):
                _t.endmsg()
                r = _orig(obj)
                _t.endmsg()
                return r
            b.send = send
        self.htarget = HTarget()
        self.otarget = OTarget()
        # O's handle on H's target: the opposite direction, not part of the model.  No interface name: the
        # caller has no schema, so a bad first argument is only noticed by the receiver.
        tr = self.H.getTrackerForMyReference(self.htarget.processUniqueID(), self.htarget); tr.send()
        self.rrO = self.O.getTrackerForYourReference(tr.clid, None).getRef()
        # objects owned by O.  Object 0 is O's own target: H's handle on it is created like the protocol would
        # (model: Send 0 false; RecvOH), and is proxy 0.
        self.objs = {0: self.otarget}
        for k in range(1, self.NOBJ + 1):
            self.objs[k] = X(k)
        # objects with NEGATIVE keys are bound methods (CallableSlicer -> getTrackerForMyCall: negative clids from the same
        # counter, in the same tables; the holder gets a RemoteMethodReference); model: Send x with x < 0
        self.method_owners = {k: X(100 - k) for k in (-1, -2)}
        for k, o in self.method_owners.items():
            self.objs[k] = o.remote_ping
        self.held = {}            # pid -> proxy (the only strong references to proxies)
        self.obj_of = {}          # pid -> k (which object was sent when this proxy was delivered)
        self.npid = 0
        self.pending_reflost = 0
        self.inflight = []        # per O->H message: ("refs", [k..], disc) | ("ack",)
        self.inflight_ho = []     # per H->O message: ("decref",) | ("home", pid, k, iscall)
        self.lost = False
        self.armed = False
        self.handler_results = []
        # clid -> "d16" | "other": a decref answer deleted the import-table entry of a tracker that is in use.
        #   "d16"   = the entry belonged to a DIFFERENT (newer) tracker than the answered one, whose own count was 0
        #             (the listed finding: deletion by clid)
        #   "other" = anything else, e.g. the answered tracker itself still counts references / has a live proxy
        self.freed_in_use = {}
        self._observe_free(self.H)
        self.disc_count = {}      # object key -> number of references sent in calls the receiver discards
        self.clid_obj = {}        # every clid ever seen in O's export table -> object key
        self.max_clid = 0
        tr0 = self.O.getTrackerForMyReference(self.otarget.processUniqueID(), self.otarget); tr0.send()
        p0 = self.H.getTrackerForYourReference(tr0.clid, None).getRef()
        self._register([p0], [0])
        del p0
        self.problems = []        # direct-oracle findings: (sig, text)
        self.audit()

    def _observe_free(self, H):
        """instance-level observer around Broker.freeYourReferenceTracker (looked up on the instance when
        freeYourReference registers the callback): which tracker is answered, whose table entry disappears"""
        orig = H.freeYourReferenceTracker
        world = self

        def in_use(t):
            return t.received_count > 0 or (t.ref is not None and t.ref() is not None)

        def observed(res, tracker):
            c = tracker.clid
            before = H.yourReferenceByCLID.get(c)
            own_count = tracker.received_count
            r = orig(res, tracker)
            if before is not None and H.yourReferenceByCLID.get(c) is not before and in_use(before) and not H.disconnected:
                kind = "d16" if (before is not tracker and own_count == 0) else "other"
                if world.freed_in_use.get(c) != "other":
                    world.freed_in_use[c] = kind
            return r
        H.freeYourReferenceTracker = observed

    # ---- helpers
    def turn(self):
        self.tO.endmsg(); self.tH.endmsg()
        E.turn()
        self._written_in_turn()

    def _written_in_turn(self):
        self.tO.endmsg(); self.tH.endmsg()
        # messages written during the turn: H only ever originates decref calls there, O only answers to them
        while len(self.inflight_ho) < len(self.tH.q):
            self.inflight_ho.append(("decref",))
        while len(self.inflight) < len(self.tO.q):
            self.inflight.append(("ack",))

    def key_of(self, obj):
        for k, o in self.objs.items():
            if o is obj:
                return k
        return None

    def _register(self, proxies, keys):
        """proxies delivered for objects keys -> list of pids (identity classes against currently held proxies)"""
        out = []
        for p, k in zip(proxies, keys):
            pid = None
            for q, hp in self.held.items():
                if hp is p:
                    pid = q
            if pid is None:
                pid = self.npid
                self.npid += 1
                self.held[pid] = p
                self.obj_of[pid] = k
            out.append(pid)
        return out

    # ---- actions.  Each returns (model ops, observation of this action)
    def act(self, a):
        kind = a[0]
        ops, obs = getattr(self, "a_" + kind)(*a[1:])
        return ops, obs

    def _reflost_ops(self):
        n = self.pending_reflost
        self.pending_reflost = 0
        return [("HandleRefLost",)] * n

    def turn_dead(self):
        """after connection loss: run the eventual queue; whatever a dead Broker still writes goes nowhere"""
        E.turn()
        self.tO.cur = []; self.tH.cur = []
        self.tO.q = []; self.tH.q = []
        self.inflight = []; self.inflight_ho = []

    def expect_dead(self, d, what):
        """a callRemote through a proxy of the lost connection must fail with DeadReferenceError"""
        from foolscap.ipb import DeadReferenceError
        res = []
        d.addBoth(res.append)
        self.turn_dead()
        ok = len(res) == 1 and hasattr(res[0], "check") and res[0].check(DeadReferenceError)
        if not ok:
            self.problems.append(("oracle/stale-call-not-refused", "%s after connection loss returned %r instead of failing with "
                                  "DeadReferenceError" % (what, [getattr(r, "value", r) for r in res])))
        del res[:]

    def a_send(self, ks, disc, mode="only"):
        if self.lost:
            # a send at the dead connection, with pass-by-reference arguments: ignored (callRemoteOnly) / refused (callRemote);
            # the model's step is the identity once lost
            payload = [self.objs[k] for k in ks]
            if mode == "call":
                self.expect_dead(self.rrO.callRemote("m", "notint" if disc else 7, payload), "callRemote with %d references" % len(ks))
            else:
                self.rrO.callRemoteOnly("m", "notint" if disc else 7, payload)
            del payload
            self.turn_dead()
            return [("Send", k, bool(disc)) for k in ks], None
        payload = [self.objs[k] for k in ks]
        self.rrO.callRemoteOnly("m", "notint" if disc else 7, payload)
        del payload
        ops = [("Send", k, bool(disc)) for k in ks]
        if disc:
            for k in ks:
                self.disc_count[k] = self.disc_count.get(k, 0) + 1
        self.tO.endmsg()
        self.inflight.append(("refs", list(ks), bool(disc)))
        self.turn()
        return ops + self._reflost_ops(), None

    def a_oh(self):
        if self.lost or not self.tO.q:
            return [], None
        info = self.inflight.pop(0)
        data = self.tO.q.pop(0)
        self.H.dataReceived(data)          # unslicing (getRef) happens here, before the eventual queue runs
        nops = len(info[1]) if info[0] == "refs" else 1
        ops = [("RecvOH",)] * nops
        self.turn()
        ops += self._reflost_ops()
        obs = None
        if info[0] == "refs":
            ks, disc = info[1], info[2]
            got = self.htarget.got
            if disc:
                if got:
                    self.problems.append(("oracle/discarded-call-delivered", "a call whose first argument violates the schema "
                                          "was delivered: %r" % (got,)))
                obs = []
            else:
                if len(got) != 1 or len(got[0]) != len(ks):
                    self.problems.append(("oracle/not-delivered", "call with %d references delivered as %r" % (len(ks), got)))
                    obs = []
                else:
                    proxies = list(got[0])
                    bad = [i for i, p in enumerate(proxies) if not isinstance(p, referenceable.RemoteReference)]
                    for i in bad:
                        self.problems.append(("oracle/identity-lost", "object %d was delivered as %r" % (ks[i], proxies[i])))
                    if bad:
                        # nothing sensible can be registered for this delivery
                        ks = [k for i, k in enumerate(ks) if i not in bad]
                        proxies = [p for i, p in enumerate(proxies) if i not in bad]
                    # C08 direct oracle: same object while held -> same proxy; different objects -> different proxies
                    for p, k in zip(proxies, ks):
                        holders = [q for q, kk in self.obj_of.items() if kk == k and q in self.held]
                        if holders and not any(self.held[q] is p for q in holders):
                            kinds = set(self.freed_in_use.get(self.held[q].tracker.clid) for q in holders)
                            suffix = ("/tracker-with-live-proxy-freed" if "other" in kinds else
                                      "/after-decref-answer-freed-tracker-in-use" if "d16" in kinds else "")
                            self.problems.append(("oracle/different-proxy-while-held" + suffix,
                                                  "object %d was delivered as a new proxy although proxy %r for it is still "
                                                  "held by the receiver%s" % (k, holders, {
                                                      "/tracker-with-live-proxy-freed": " (a decref answer removed the import-table entry of "
                                                      "a tracker that still counts references / has a live proxy)",
                                                      "/after-decref-answer-freed-tracker-in-use": " (the answer to an earlier decref, whose own "
                                                      "tracker had count 0, removed by clid the entry of a newer tracker)", "": ""}[suffix])))
                        for q, hp in self.held.items():
                            if hp is p and self.obj_of[q] != k:
                                self.problems.append(("oracle/proxy-shared-by-objects",
                                                      "objects %d and %d were delivered as the same proxy" % (k, self.obj_of[q])))
                    obs = self._register(proxies, ks)
                    del proxies
            del got[:]
            del got
        gc.collect()
        return ops, obs

    def a_ho(self, gens=None, ks=()):
        """gens/ks: see the module docstring -- O sends again while the reactor turns that the handling of this message
        scheduled are still to come (nothing in the unchanged code defers work of an inbound message past the turn that
        runs its call, so there the send sees either 'not yet processed' or 'completely processed')"""
        if self.lost or not self.tH.q:
            return [], None
        info = self.inflight_ho.pop(0)
        data = self.tH.q.pop(0)
        pings = {k: o.pings for k, o in self.objs.items() if k > 0}
        self.O.dataReceived(data)
        send_ops = []
        if gens is not None and ks:
            self.tO.endmsg(); self.tH.endmsg()
            for i in range(gens):
                one_generation()
            self._written_in_turn()
            payload = [self.objs[k] for k in ks]
            self.rrO.callRemoteOnly("m", 7, payload)
            del payload
            self.tO.endmsg()
            self.inflight.append(("refs", list(ks), False))
            send_ops = [("Send", k, False) for k in ks]
        self.turn()
        obs = None
        if info[0] == "home":
            _, pid, k, iscall = info
            if iscall:
                hit = [kk for kk, o in self.objs.items() if kk > 0 and o.pings != pings[kk]]
                obs = hit[0] if len(hit) == 1 else -1
                if hit != [k]:
                    self.problems.append(("oracle/call-misrouted", "a call through the proxy of object %d reached %r" % (k, hit)))
            else:
                got = self.otarget.got
                if len(got) != 1:
                    obs = -1
                    self.problems.append(("oracle/home-not-delivered", "proxy of object %d sent home, delivered %r" % (k, got)))
                else:
                    kk = self.key_of(got[0])
                    obs = kk if kk is not None else -1
                    if got[0] is not self.objs[k]:
                        self.problems.append(("oracle/home-not-original", "proxy of object %d sent home arrived as %r" % (k, got[0])))
                del got[:]
        ops = (send_ops + [("RecvHO",)]) if (send_ops and gens == 0) else ([("RecvHO",)] + send_ops)
        return ops + self._reflost_ops(), obs

    def a_drop(self, pid, turn):
        if pid not in self.held:
            return [], None
        del self.held[pid]
        gc.collect()
        ops = [("DropProxy", pid)]
        if self.lost:
            self.turn_dead()
            return ops, None
        self.pending_reflost += 1
        if turn:
            self.turn()
            ops += self._reflost_ops()
        return ops, None

    def a_home(self, pid, iscall, mode="only"):
        if pid not in self.held:
            return [], None
        if (iscall and self.obj_of[pid] == 0) or (not iscall and 0 not in self.held) or self.obj_of[pid] < 0:
            return [], None          # (method references are only sent and dropped in these histories)
        if self.lost:
            p = self.held[pid]
            if mode == "call":
                d = p.callRemote("ping") if iscall else self.held[0].callRemote("home", p)
                self.expect_dead(d, "callRemote through / with a stale proxy")
                del d
            elif iscall:
                p.callRemoteOnly("ping")
            else:
                self.held[0].callRemoteOnly("home", p)
            del p
            self.turn_dead()
            return [("SendHome", pid, bool(iscall))], None
        p = self.held[pid]
        if iscall:
            p.callRemoteOnly("ping")
        else:
            self.held[0].callRemoteOnly("home", p)
        del p
        self.tH.endmsg()
        self.inflight_ho.append(("home", pid, self.obj_of[pid], bool(iscall)))
        self.turn()
        return [("SendHome", pid, bool(iscall))] + self._reflost_ops(), None

    def a_arm(self, ks, mode):
        """register notifyOnDisconnect handlers on both ends that send by-reference arguments at the dying connection"""
        if self.lost or self.armed:
            return [], None
        self.armed = True
        world = self

        def owner_side():
            payload = [world.objs[k] for k in ks if k in world.objs]
            world.rrO.callRemoteOnly("m", 7, payload)
            if mode == "call":
                world.rrO.callRemote("m", 7, payload).addErrback(lambda f: world.handler_results.append(f.type.__name__))

        def holder_side():
            for pid in sorted(world.held):
                if pid != 0 and 0 in world.held:
                    world.held[0].callRemoteOnly("home", world.held[pid])
                    world.held[pid].callRemoteOnly("ping")
                    if mode == "call":
                        world.held[pid].callRemote("ping").addErrback(lambda f: world.handler_results.append(f.type.__name__))
        self.O.notifyOnDisconnect(owner_side)
        self.H.notifyOnDisconnect(holder_side)
        return [], None

    LOST_HOW = ("connectionLost", "shutdown", "timeout", "owner-shutdown", "holder-shutdown")

    def a_lost(self, how="connectionLost"):
        """the connection is given up.  how: both transports report the loss (connectionLost); or one / both Brokers give the
        connection up themselves -- Broker.shutdown() (what Tub.stopService and duplicate-connection handling call) or the
        inactivity timer (connectionTimedOut) -- over a transport that NEVER reports the loss back (the peer host vanished: the
        write buffer never drains; QT.loseConnection is a no-op), the other side then sees connectionLost.  From the moment a
        Broker considers itself disconnected it must have forgotten everything."""
        if self.lost:
            return [], None
        self.lost = True
        why = failure.Failure(ConnectionLost())
        if how == "shutdown":
            self.O.shutdown(why)
            self.H.shutdown(why)
        elif how == "timeout":
            self.O.connectionTimedOut()
            self.H.connectionTimedOut()
        elif how == "owner-shutdown":
            self.O.shutdown(why)
            self.H.connectionLost(why)
        elif how == "holder-shutdown":
            self.H.shutdown(why)
            self.O.connectionLost(why)
        else:
            self.O.connectionLost(why)
            self.H.connectionLost(why)
        if not (self.O.disconnected and self.H.disconnected):
            self.problems.append(("oracle/table-survives-connection-loss", "after %s a Broker does not consider itself disconnected" % how))
        self.tO.q = []; self.tH.q = []
        self.inflight = []; self.inflight_ho = []
        self.turn_dead()
        self.pending_reflost = 0
        bad = [r for r in self.handler_results if r != "DeadReferenceError"]
        if bad:
            self.problems.append(("oracle/stale-call-not-refused", "callRemote from a notifyOnDisconnect handler failed with %r" % (bad,)))
        return [("ConnLost",)], None

    # ---- abstract state, in the model's vocabulary
    def snapshot(self):
        O, H = self.O, self.H
        otab = sorted((self.key_of(t.obj) if self.key_of(t.obj) is not None else -1, c, t.refcount)
                      for c, t in O.myReferenceByCLID.items())
        # 4th component: was the tracker created from the long form (model: t_url <> None); not observable for O's own target
        # (clid 1, made by hand) and for bound methods (negative clids: no schema name is sent yet)
        htab = sorted((c, t.received_count, 1 if (t.ref is not None and t.ref() is not None) else 0,
                       (1 if t.interfaceName is not None else 0) if c > 1 else -1)
                      for c, t in H.yourReferenceByCLID.items())
        acks = sorted(r for r in H.waitingForAnswers)
        return dict(otab=[list(x) for x in otab], htab=[list(x) for x in htab], acks=acks,
                    oh=sum(len(i[1]) if i[0] == "refs" else 1 for i in self.inflight),    # in model messages
                    ho=len(self.tH.q), lost=self.lost)

    # ---- direct oracle on the tables (C09), evaluated after every action
    def audit(self):
        O, H = self.O, self.H
        P = self.problems if hasattr(self, "problems") else []
        # ids are never reused for a different object, and are handed out in increasing order
        for c, t in O.myReferenceByCLID.items():
            k = self.key_of(t.obj)
            if c in self.clid_obj:
                if self.clid_obj[c] != k:
                    P.append(("oracle/clid-reused", "clid %d designated object %r and now designates %r" % (c, self.clid_obj[c], k)))
            else:
                if abs(c) <= self.max_clid:        # (bound methods get the negated number: |clid| is what the counter hands out)
                    P.append(("oracle/clid-reused", "clid %d allocated after clid +-%d" % (c, self.max_clid)))
                if (c < 0) != (k is not None and k < 0):
                    P.append(("oracle/clid-reused", "clid %d designates %s" % (c, "a bound method" if (k is not None and k < 0) else "a Referenceable")))
                self.clid_obj[c] = k
                self.max_clid = max(self.max_clid, abs(c))
            if t.refcount < 1:
                P.append(("oracle/refcount-not-positive", "export entry clid %d has refcount %d" % (c, t.refcount)))
            if O.myReferenceByPUID.get(t.puid) is not t:
                P.append(("oracle/export-tables-disagree", "clid %d is not in myReferenceByPUID" % c))
        if len(O.myReferenceByPUID) != len(O.myReferenceByCLID):
            P.append(("oracle/export-tables-disagree", "PUID table has %d entries, CLID table %d"
                      % (len(O.myReferenceByPUID), len(O.myReferenceByCLID))))
        if self.lost:
            for name, tab in (("owner myReferenceByCLID", O.myReferenceByCLID), ("owner myReferenceByPUID", O.myReferenceByPUID),
                              ("holder yourReferenceByCLID", H.yourReferenceByCLID), ("holder yourReferenceByURL", H.yourReferenceByURL),
                              ("owner yourReferenceByCLID", O.yourReferenceByCLID), ("holder myReferenceByCLID", H.myReferenceByCLID)):
                if tab:
                    P.append(("oracle/table-survives-connection-loss", "%s still has %d entries after connectionLost" % (name, len(tab))))
            return
        # no early release: a held proxy, and a reference in flight, keep the owner's entry (for the same object)
        for pid, p in self.held.items():
            c = p.tracker.clid
            t = O.myReferenceByCLID.get(c)
            if t is None:
                P.append(("oracle/released-early", "proxy %d (clid %d) is held but the owner has no entry" % (pid, c)))
            elif t.obj is not self.objs[self.obj_of[pid]]:
                P.append(("oracle/clid-reused", "proxy %d for object %d designates another object" % (pid, self.obj_of[pid])))
        for info in self.inflight:
            if info[0] == "refs":
                for k in info[1]:
                    t = O.myReferenceByPUID.get(self.objs[k].processUniqueID() if k >= 0 else id(self.objs[k]))
                    if t is None or t.refcount < 1:
                        P.append(("oracle/released-early", "a reference to object %d is in flight but the owner has no entry" % k))
        # a release never exceeds what was handed out
        for (c, before, count, exc) in self.decrefs:
            if exc is not None or count > before or count < 1:
                P.append(("oracle/decref-exceeds-refcount", "decref(%d) on clid %d with refcount %d -> %s" % (count, c, before, exc)))
        del self.decrefs[:]
        for ev_ in E.logged_errors:
            P.append(("oracle/logged-error", "an error was logged: %s" % (str(ev_.get("failure") or ev_)[:300],)))
        del E.logged_errors[:]

    def finish(self, discarded):
        """drop everything, drain, then: nothing may pin the owner's objects (C09 no leak)"""
        if not self.lost:
            for i in range(1000):
                # proxies still held (or delivered while draining) are dropped at once; pending _handleRefLost run
                for pid in sorted(self.held):
                    if pid != 0:
                        self.a_drop(pid, True)
                self.turn()
                self.pending_reflost = 0
                if not (self.tO.q or self.tH.q):
                    break
                if self.tH.q:
                    self.a_ho()
                else:
                    self.a_oh()
            self.audit()
        left = {self.key_of(t.obj): t.refcount for c, t in self.O.myReferenceByCLID.items() if t.obj is not self.otarget}
        wr = {k: weakref.ref(o) for k, o in self.objs.items() if k}
        self.objs = {0: self.otarget}
        self.method_owners = {}
        gc.collect()
        pinned = sorted(k for k, w in wr.items() if w() is not None)
        return left, pinned

    def close(self):
        DecrefLog.active = None
        self.held.clear()
        if not self.lost:
            self.a_lost()
        gc.collect()


# =====================================================================================================
# histories: generation, execution on the real Brokers, evaluation of the model, comparison
PROFILES = {
    # name: (objects, weights of send/oh/ho/drop/home/lost, P(discarded call), P(drop without running the eventual queue))
    "race1": ([1], dict(send=5, oh=5, ho=4, drop=5, home=1, lost=0), 0.0, 0.25),
    "race2": ([1, 2], dict(send=5, oh=5, ho=4, drop=5, home=2, lost=0), 0.0, 0.3),
    "mixed": ([1, 2, 3, 4], dict(send=5, oh=5, ho=4, drop=4, home=3, lost=0), 0.0, 0.3),
    "discard": ([1, 2, 3], dict(send=5, oh=5, ho=4, drop=4, home=1, lost=0), 0.3, 0.2),
    "loss": ([1, 2, 3], dict(send=5, oh=4, ho=3, drop=3, home=2, lost=1, arm=1), 0.1, 0.3),
    "methods": ([1, -1, -2], dict(send=5, oh=5, ho=4, drop=5, home=1, lost=0), 0.05, 0.25),
    # hosend: the owner sends again 0..3 eventual-send generations after an H->O message (decref / call through a proxy /
    # proxy sent home) was handed to its Broker, i.e. between the reactor turns which the handling of that message takes
    "turns": ([1, 2, -1], dict(send=3, oh=5, ho=2, hosend=5, drop=5, home=2, lost=0), 0.05, 0.25),
}


def gen_and_run(rng, profile, nsteps):
    """generate a history on the fly (choices depend only on the harness-visible situation: which proxies it holds,
    which queues are non-empty) and run it on a fresh pair of Brokers."""
    objs, w, pdisc, pnoturn = PROFILES[profile]
    W = World()
    rec = Recorder(W)
    for i in range(nsteps):
        kinds = []
        for k, wt in w.items():
            if wt == 0:
                continue
            if k == "oh" and not W.tO.q:
                continue
            if k in ("ho", "hosend") and not W.tH.q:
                continue
            if k in ("drop", "home") and not [p for p in W.held if p != 0]:
                continue
            if k == "lost" and (W.lost or i < nsteps // 3):
                continue
            if k == "arm" and (W.lost or W.armed):
                continue
            kinds += [k] * wt
        k = rng.choice(kinds)
        if k == "send":
            n = rng.choice([1, 1, 1, 2, 3])
            a = ["send", [rng.choice(objs) for j in range(n)], rng.random() < pdisc]
            if W.lost:
                a.append(rng.choice(["only", "call"]))
        elif k == "drop":
            cands = sorted(p for p in W.held if p != 0)
            if rng.random() < 0.03:
                cands = [0]
            a = ["drop", rng.choice(cands), rng.random() >= pnoturn]
        elif k == "home":
            a = ["home", rng.choice(sorted(p for p in W.held if p != 0)), rng.random() < 0.5]
            if W.lost:
                a.append(rng.choice(["only", "call"]))
        elif k == "arm":
            a = ["arm", [rng.choice(objs) for j in range(rng.choice([1, 2]))], rng.choice(["only", "call"])]
        elif k == "lost":
            a = ["lost", rng.choice(World.LOST_HOW)]
        elif k == "hosend":
            # (the profile has three objects: the one whose release is being delivered is hit often enough)
            a = ["ho", rng.choice([0, 1, 1, 1, 2, 2, 3]), [rng.choice(objs) for j in range(rng.choice([1, 1, 2]))]]
        else:
            a = [k]
        rec.do(a)
        if rec.aborted or (W.lost and rng.random() < 0.2):
            break
    return rec.finish()


WINDOW_PREFIX = [["send", [1], False], ["oh"], ["drop", 1, True]]
WINDOW_ALPHABET = ["send", "oh", "ho", "dropT", "dropF", "home"]
# the same window with the owner's re-send placed BETWEEN the reactor turns of the delivery of an H->O message
WINDOW_ALPHABET_TURNS = ["ho0send", "ho1send", "ho2send", "oh", "ho", "dropT", "send"]


def enumerate_window(depth, budget, alphabet=None, origin="window"):
    """EVERY interleaving (up to `depth` further actions) of: re-send, delivery of the next O->H message (my-reference
    or answer), delivery of the next H->O message (decref), dropping the newest proxy with / without running the
    eventual queue, sending the newest proxy home -- after `send; deliver; drop` has put a decref in flight.
    Sequences containing a disabled action are skipped (they equal a shorter sequence).  -> results of all maximal
    and intermediate sequences, breadth first, at most `budget` histories."""
    out = []
    frontier = [[]]
    for d in range(depth):
        nxt = []
        for seq in frontier:
            for letter in (alphabet or WINDOW_ALPHABET):
                if len(out) >= budget:
                    return out
                W = World()
                rec = Recorder(W)
                ok = True
                for a in WINDOW_PREFIX:
                    rec.do(a)
                for l in seq + [letter]:
                    newest = max([p for p in W.held if p != 0], default=None)
                    if l == "send":
                        a = ["send", [1], False]
                    elif l.startswith("ho") and l.endswith("send"):
                        a = ["ho", int(l[2:-4]), [1]]
                    elif l in ("oh", "ho"):
                        a = [l]
                    elif newest is None:
                        ok = False
                        break
                    elif l == "home":
                        a = ["home", newest, False]
                    else:
                        a = ["drop", newest, l == "dropT"]
                    n = len(rec.groups)
                    rec.do(a)
                    if rec.aborted:
                        break
                    if len(rec.groups) == n or rec.groups[-1] == []:
                        ok = False
                        break
                if not ok:
                    try:
                        W.close()
                    except Exception:
                        pass
                    continue
                r = rec.finish()
                r["origin"] = origin
                out.append(r)
                if not rec.aborted:
                    nxt.append(seq + [letter])
        frontier = nxt
    return out


def run_actions(actions):
    W = World()
    rec = Recorder(W)
    for a in actions:
        rec.do(a)
        if rec.aborted:
            break
    return rec.finish()


class Recorder:
    def __init__(self, W):
        self.W = W
        self.actions, self.groups, self.obs, self.snaps = [], [], [], []
        self.discarded = False
        self.aborted = False
        self.flags = set()

    def do(self, a):
        W = self.W
        if a[0] == "send":
            if a[2]:
                self.discarded = True
            # a re-send racing a release: a decref for this object is queued, or its answer is outstanding
            if W.H.waitingForAnswers and not a[2]:
                self.flags.add("resend-races-release")
        if a[0] == "ho" and len(a) > 2 and a[2] and not W.lost and W.tH.q:
            self.flags.add("send-between-turns-of-inbound-message")
            if W.H.waitingForAnswers or W.inflight_ho[0] == ("decref",):
                self.flags.add("resend-races-release")
        held_before = set(W.held)
        try:
            ops, ob = W.act(a)
            W.audit()
        except Exception:
            import traceback
            self.aborted = True
            W.problems.append(("oracle/exception-escaped", "an exception escaped from the implementation during action %r: %s"
                               % (a, traceback.format_exc()[-700:])))
            return
        if a[0] == "oh" and ob:
            self.flags.add("delivery")
            if set(ob) & held_before:
                self.flags.add("redelivery-while-held")
            if set(ob) - held_before:
                self.flags.add("new-proxy")
            if len(set(ob)) < len(ob):
                self.flags.add("repeated-in-one-call")
        if a[0] == "drop" and not a[2]:
            self.flags.add("reflost-delayed")
        if a[0] == "home":
            self.flags.add("home")
        if a[0] == "lost":
            self.flags.add("lost")
            if W.armed:
                self.flags.add("disconnect-handler-sends")
        if W.lost and a[0] in ("send", "home"):
            self.flags.add("used-after-loss")
        self.actions.append(a)
        self.groups.append(ops)
        self.obs.append(ob)
        self.snaps.append(W.snapshot())
        if any(len(h) > 3 and h[2] == 1 and h[3] == 0 for h in self.snaps[-1]["htab"]):
            self.flags.add("live-proxy-without-long-form")

    def finish(self):
        W = self.W
        if self.aborted:
            problems = list(W.problems)
            try:
                W.close()
            except Exception:
                pass
            return dict(actions=self.actions, groups=self.groups, obs=self.obs, snaps=self.snaps, problems=problems,
                        discarded=self.discarded, flags=sorted(self.flags), left={}, pinned=[])
        try:
            left, pinned = W.finish(self.discarded)
        except Exception:
            import traceback
            W.problems.append(("oracle/exception-escaped", "an exception escaped from the implementation while draining: %s"
                               % traceback.format_exc()[-700:]))
            left, pinned = {}, []
            W.lost = True
        problems = list(W.problems)
        if (left or pinned) and not W.lost:
            if left == W.disc_count and pinned == sorted(left):
                # exactly the references that were sent in discarded calls (D9), nothing else
                problems.append(("oracle/leak-after-discarded-call",
                                 "after every proxy was dropped and all traffic drained, the owner still holds {object: refcount} = %r "
                                 "(objects %r stay pinned): exactly the my-references of calls the receiver discarded after a Violation "
                                 "on an earlier argument" % (left, pinned)))
            else:
                problems.append(("oracle/leak", "after every proxy was dropped and all traffic drained, the owner still holds "
                                 "{object: refcount} = %r (objects %r stay pinned); references in discarded calls: %r"
                                 % (left, pinned, W.disc_count)))
        if W.lost and pinned:
            problems.append(("oracle/table-survives-connection-loss", "objects %r stay pinned after connectionLost" % (pinned,)))
        W.close()
        return dict(actions=self.actions, groups=self.groups, obs=self.obs, snaps=self.snaps, problems=problems,
                    discarded=self.discarded, flags=sorted(self.flags), left=left, pinned=pinned)


# signatures of the direct oracle, by property
SIG_PROPERTY = {
    "oracle/different-proxy-while-held": "C08", "oracle/different-proxy-while-held/after-decref-answer-freed-tracker-in-use": "C08",
    "oracle/different-proxy-while-held/tracker-with-live-proxy-freed": "C08",
    "oracle/proxy-shared-by-objects": "C08", "oracle/identity-lost": "C08",
    "oracle/home-not-original": "C08", "oracle/home-not-delivered": "C08", "oracle/call-misrouted": "C08",
    "oracle/not-delivered": "C08",
    "oracle/released-early": "C09", "oracle/clid-reused": "C09", "oracle/decref-exceeds-refcount": "C09",
    "oracle/refcount-not-positive": "C09", "oracle/export-tables-disagree": "C09", "oracle/leak": "C09",
    "oracle/leak-after-discarded-call": "C09", "oracle/table-survives-connection-loss": "C09",
    "oracle/logged-error": "C09", "oracle/discarded-call-delivered": "C09", "oracle/stale-call-not-refused": "C09",
}


def coq_op(o):
    if o[0] == "Send":
        return "Send (%d) %s" % (o[1], "true" if o[2] else "false")
    if o[0] == "DropProxy":
        return "DropProxy %d" % o[1]
    if o[0] == "SendHome":
        return "SendHome %d %s" % (o[1], "true" if o[2] else "false")
    return o[0]


BOOT = "[Send 0 false; RecvOH]"     # H's handle on O's own target is created like the protocol would

COQ_OBS = """Local Open Scope Z_scope.
Definition ev_code (e : event) : list Z :=
  match e with EvDelivered p => [0; p] | EvHome _ (Some x) => [1; x] | EvHome _ None => [1; -1] | EvAssert => [2] end.
Definition obs (s : state) :=
  (map (fun e => [oe_obj e; oe_clid e; oe_rc e]) (o_tab (ow s)),
   map (fun e => match nth_error (h_trk (hd s)) (snd e) with
                 | Some t => [fst e; t_recv t; if alive t then 1 else 0;
                              if 1 <? fst e then match t_url t with Some _ => 1 | None => 0 end else -1]
                 | None => [fst e; -1; -1; -1] end) (h_tab (hd s)),
   map fst (h_acks (hd s)),
   [Z.of_nat (List.length (ch_oh s)); Z.of_nat (List.length (ch_ho s)); if lost s then 1 else 0; if o_failed (ow s) then 1 else 0]).
Fixpoint run_groups (s : state) (gs : list (list op)) :=
  match gs with
  | [] => []
  | g :: r => let s' := run s g in (obs s', map ev_code (List.concat (run_events s g))) :: run_groups s' r
  end.
Definition trace (gs : list (list op)) := run_groups (run init %s) gs.
""" % BOOT


def model_eval(ctx, name, results):
    """evaluate the model on the op groups of every history; -> per history, per action: (otab, htab, acks, misc, events)"""
    from harness import common
    SH = 60
    from concurrent.futures import ThreadPoolExecutor

    def one(k):
        chunk = results[k:k + SH]
        body = COQ_OBS
        for r in chunk:
            gs = "[" + "; ".join("[" + "; ".join(coq_op(o) for o in g) + "]" for g in r["groups"]) + "]"
            body += "Eval vm_compute in trace %s.\n" % gs
        vals = ctx.coq_eval("%s_%d" % (name, k // SH), body, requires=["Verif.lib.PyLite", "Verif.gen.RefsGen", "Verif.lib.Refs"])
        if len(vals) != len(chunk):
            raise common.CoqEvalError("expected %d values, got %d" % (len(chunk), len(vals)))
        return vals
    out = []
    with ThreadPoolExecutor(max_workers=6) as ex:
        for vals in ex.map(one, range(0, len(results), SH)):
            out += vals
    return out


def compare(r, mv):
    """-> None or (index of the first disagreeing action, description)"""
    if len(mv) != len(r["actions"]):
        return (0, "model returned %d observations for %d actions" % (len(mv), len(r["actions"])))
    for i, (a, ob, sn, m) in enumerate(zip(r["actions"], r["obs"], r["snaps"], mv)):
        otab, htab, acks, misc, evs = m
        mo = dict(otab=sorted(otab), htab=sorted(htab), acks=sorted(acks), oh=misc[0], ho=misc[1], lost=bool(misc[2]))
        io = dict(sn)
        if io["lost"]:
            # after connection loss only the tables are compared
            mo = dict(otab=mo["otab"], htab=mo["htab"], lost=mo["lost"])
            io = dict(otab=io["otab"], htab=io["htab"], lost=io["lost"])
        if mo != io:
            return (i, "after action %d %r: model state %r, implementation state %r" % (i, a, mo, io))
        if misc[3]:
            return (i, "after action %d %r the model's decref assertion failed" % (i, a))
        mdel = [e[1] for e in evs if e[0] == 0]
        mhome = [e[1] for e in evs if e[0] == 1]
        if a[0] == "oh" and ob is not None and mdel != list(ob):
            return (i, "action %d %r: model delivers proxies %r, implementation delivered %r" % (i, a, mdel, ob))
        if a[0] == "ho" and ob is not None and mhome != [ob]:
            return (i, "action %d %r: model resolves to object %r, implementation to %r" % (i, a, mhome, ob))
    return None


# =====================================================================================================
# shared body of harness/c08.py and harness/c09.py
def d15_witness():
    """D15 (fixed in /repo): a bound method is sent, its proxy collected, and the same bound method sent again before
    the release was processed; also: sent twice while held -> the same proxy.  -> list of (sig, text)"""
    from foolscap.referenceable import RemoteMethodReference
    problems = []
    E.reset_clock()
    tb, cb = E.broker_pair()

    class T(Referenceable):
        def __init__(self):
            self.got = []

        def remote_m(self, x):
            self.got.append(x)

    class Holder:
        def meth(self):
            return 7
    t = T()
    tr = tb.getTrackerForMyReference(t.processUniqueID(), t); tr.send()
    rr = cb.getTrackerForYourReference(tr.clid, None).getRef()
    hd = Holder()
    bm = hd.meth
    rr.callRemote("m", bm); E.turn()
    rr.callRemote("m", bm); E.turn()
    if len(t.got) != 2 or not isinstance(t.got[0], RemoteMethodReference) or t.got[0] is not t.got[1]:
        problems.append(("oracle/identity-lost", "a bound method sent twice while held arrived as %r" % (t.got,)))
    del t.got[:]
    gc.collect()                    # proxy dies; _handleRefLost is queued but has not run
    rr.callRemote("m", bm)
    E.turn()
    if len(t.got) != 1 or not isinstance(t.got[0], RemoteMethodReference):
        problems.append(("oracle/identity-lost", "a bound method sent again after its proxy was collected arrived as %r" % (t.got,)))
    else:
        res = []
        t.got[0].callRemote().addBoth(res.append); E.turn()
        if res != [7]:
            problems.append(("oracle/call-misrouted", "calling the re-created method reference returned %r" % (res,)))
    return problems


def shrink_actions(actions, sig):
    from harness import common

    def still(cand):
        try:
            r = run_actions(cand)
        except Exception:
            return False
        return any(p[0] == sig for p in r["problems"])
    try:
        return common.shrink_list(actions, still, max_rounds=60)
    except Exception:
        return actions


def check_refs(ctx, pid, nontrivial_flag):
    """corpus + generated histories on the real Brokers (direct oracle), then the same histories on the model
    (correspondence).  Reports only the oracle signatures that belong to property `pid`."""
    import glob, json, os, time
    from harness import common
    results = []
    t0 = time.time()
    # 1. corpus
    for f in sorted(glob.glob(os.path.join(common.VERIF, "corpus", pid, "*.json"))):
        w = json.load(open(f))
        r = run_actions(w["actions"])
        r["origin"] = os.path.basename(f)
        results.append(r)
        sigs = set(p[0] for p in r["problems"])
        if w.get("expect") and w["expect"] not in sigs:
            ctx.note("corpus witness %s no longer shows %s on the implementation" % (r["origin"], w["expect"]))
        ctx.hist("corpus", "reproduced" if (w.get("expect") in sigs) else ("clean" if not sigs else "other"))
    # 2. generated
    n = ctx.n(630, 7000)          # 90 / 1000 per profile
    profiles = list(PROFILES)
    for i in range(n):
        prof = profiles[i % len(profiles)]
        r = gen_and_run(ctx.rng, prof, ctx.rng.choice([10, 20, 30, 45]))
        r["origin"] = prof
        results.append(r)
    # 2b. exhaustive small scope: all interleavings around a decref in flight
    t1 = time.time()
    win = enumerate_window(ctx.n(6, 8), ctx.n(1000, 16000))
    results += win
    win2 = enumerate_window(ctx.n(4, 6), ctx.n(400, 6000), WINDOW_ALPHABET_TURNS, "window-turns")
    results += win2
    ctx.extra["window_turns_histories"] = len(win2)
    ctx.extra["window_histories"] = len(win)
    ctx.extra["window_s"] = round(time.time() - t1, 1)
    for r in results:
        ctx.case(r["actions"], nontrivial=nontrivial_flag in r["flags"])
        ctx.hist("profile", r["origin"])
        ctx.hist("history_length", (len(r["actions"]) // 10) * 10)
        for a in r["actions"]:
            ctx.hist("action", a[0] + ("-discarded" if a[0] == "send" and a[2] else "") + ("-noturn" if a[0] == "drop" and not a[2] else "")
                     + ("-send-after-%d-turns" % a[1] if a[0] == "ho" and len(a) > 2 else ""))
        for f in r["flags"]:
            ctx.hist("feature", f)
        for s in set(p[0] for p in r["problems"]):
            ctx.hist("oracle_outcome", s)
        if not r["problems"]:
            ctx.hist("oracle_outcome", "held")
    for r in results[:2] + results[-2:]:
        ctx.sample(dict(origin=r["origin"], actions=r["actions"], model_ops=[[list(o) for o in g] for g in r["groups"]][:12],
                        final=r["snaps"][-1] if r["snaps"] else None))
    ctx.extra["impl_histories_s"] = round(time.time() - t0, 1)
    # 3. direct oracle
    seen = set()
    for r in results:
        for sig, text in r["problems"]:
            if SIG_PROPERTY.get(sig, pid) != pid or sig in seen:
                continue
            seen.add(sig)
            acts = shrink_actions(r["actions"], sig)
            ctx.fail(sig, "%s; history (%d actions, shrunk from %d, origin %s): %s" % (text, len(acts), len(r["actions"]), r["origin"],
                                                                                     json.dumps(acts)),
                     replay=dict(actions=acts, original=r["actions"], origin=r["origin"]))
    return results


def correspond(ctx, pid, results):
    from harness import common
    import json
    try:
        mv = model_eval(ctx, pid + "_cases", results)
    except common.CoqEvalError as e:
        ctx.fail("correspondence-broken", "the model could not be evaluated: " + str(e)[-1500:], has_input=False)
        return
    nbad = 0
    for r, m in zip(results, mv):
        ctx.traces += 1
        c = compare(r, m)
        if c:
            nbad += 1
            if nbad <= 1:
                k = c[0]
                ctx.fail("correspondence/refs-trace", "model and implementation disagree: %s; history prefix: %s"
                         % (c[1], json.dumps(r["actions"][:k + 1])),
                         replay=dict(actions=r["actions"][:k + 1], groups=r["groups"][:k + 1], detail=c[1]), has_input=False)
    ctx.extra["correspondence_histories"] = len(results)
    ctx.extra["correspondence_steps"] = sum(len(r["actions"]) for r in results)
    ctx.extra["correspondence_disagreements"] = nbad
