"""C17 -- eventual-sends and Promises deliver in order, exactly once, never synchronously."""
import itertools, json, os
from harness import common
from harness.common import coq_list

REQ_EV = ["Verif.lib.EventualBase", "Verif.gen.EventualGen", "Verif.lib.EventualSpec", "Verif.lib.Eventual"]
REQ_PR = ["Verif.gen.EventualGen", "Verif.lib.Promise"]
SHARD = 500


def run(ctx):
    ctx.rule = ("programs over {eventually(script), fireEventually, flushEventualQueue, one reactor call} with scripts that "
                "enqueue further scripts, call flush and/or raise, and flush Deferreds whose callbacks perform arbitrary action "
                "lists (eventually / fireEventually / flushEventualQueue again with such a callback, nested); an exhaustive "
                "family of small flush-callback shapes (every callback body of <= 2 actions, nested <= 2 levels, requested on "
                "the idle queue / with work pending / inside a callable; k outstanding observers x which one enqueues x which "
                "one calls flush again x depth; callbacks that end by raising / returning a Deferred); programs over {makePromise, send, sendOnly, when/_then/"
                "_except, resolve with value / promise / Failure, fire the Deferred a method returned, one reactor call} with "
                "methods that return, raise, do not exist, return a promise, send again re-entrantly, or return a Deferred (fired before the "
                "send, before / after the delivery, never; with a value, a Failure, a promise); exhaustive families: chains of "
                "1..3 hops in every order, backlogs of 1..3 messages of every kind (failing sendOnly included) before a "
                "resolution, eventually()/fireEventually() interleavings; WHAT KIND OF OBJECT is submitted / observes / is the "
                "resolution (lambda, bound method, functools.partial with and without bound arguments, instance with __call__, "
                "an object on which everything but the call fails, a class, odd names, one function object submitted "
                "repeatedly; fireEventually values None / false / empty / opaque; target objects whose method is a partial "
                "built by a property / an instance attribute with __call__ / that cannot be printed or compared) at every "
                "position of a batch with every raise code; a promise resolved with a promise in every state (EVENTUAL, "
                "CHAINED over 1..2 hops or to itself, NEAR, BROKEN, settled through a chain, notification still queued); "
                "send / sendOnly to a promise in every state (unresolved, value, BROKEN, chained to an unresolved / resolved / "
                "BROKEN promise) before the state is entered, in the same turn, in later turns, every result observed in the "
                "turn of its send and late; "
                "all words up to a length over a template alphabet plus seeded random longer ones (every second random "
                "script / fireEventually value of a non-plain kind, chosen by its id); "
                "a case is non-trivial when at least one callable ran / one message was delivered or one observer fired")
    ctx.assumptions = [
        "QUEUE: the model is the statement-by-statement translation of _SimpleCallQueue.append/_turn/flush and of eventually/"
        "fireEventually/flushEventualQueue (gen/EventualGen.v) over the vocabulary of lib/EventualBase.v; hand-written and "
        "trusted is only the ENVIRONMENT (lib/Eventual.v): callables are scripts, invoking one performs its actions, the "
        "Deferred of a flush request fires its callback, the reactor holds ONE pending call of _turn and runs it on request "
        "(a second callLater while one is pending is not modelled: exact under `if not self._timer`); a `while` loop gets an "
        "iteration bound that is proved never to be exhausted (C17_ev_observer_loop_complete)",
        "Twisted's Deferred (callback/addCallback/succeed/fail/maybeDeferred) and task.Clock are used as they are; log.err() "
        "is translated as 'the exception is written to the log and swallowed'",
        "the Promise model keeps its own FIFO; C17_pr_runs_on_the_translated_queue proves that it is the translated "
        "eventual-send queue (every scheduled call = the translated eventually(), a turn = the translated _turn)",
        "a method result that is a Deferred is one Deferred per message, fired at most once by the program (Twisted's "
        "AlreadyCalledError and Deferreds shared between messages are not generated); a missing method is modelled "
        "(BNoMeth); a private name (send(p)._x) is checked by the direct oracle only",
        "proved, and also measured on every generated program: Promise._resolve2 is never entered on a promise that is "
        "already NEAR/BROKEN (C17_pr_links_exact / C17_pr_link_targets_chained / C17_pr_no_crash)",
        "the model's events EWhen / EChained / EDelivered-to-a-Failure / EDeliveredNM are bookkeeping without a counterpart in "
        "the implementation trace (encoded as nothing); the theorems about them are tied to the code through the other "
        "events, the final snapshot and the direct oracle (delivery-order, observer-count, wrong-resolution)",
        "a flush observer's callback is a list of actions (eventually(script) / fireEventually / flushEventualQueue() with a "
        "callback of the same kind, nested to any depth); callbacks that then RAISE or RETURN A DEFERRED are generated and "
        "run against the model of the same callback ending normally (the Deferred keeps both to itself: a queue that "
        "noticed would disagree with the model); cancelling / re-firing the flush Deferred is not generated",
        "the KIND of object submitted to eventually() / given to fireEventually() / registered as observer / used as "
        "resolution is invisible to the models (the translated queue code is polymorphic in the callable and the payload: "
        "C17_ev_eventually_any_callable, C17_ev_turn_any_callable): programs that differ only in kinds have the same model "
        "run; that the real code does not look at the object is checked by the direct oracle and by the correspondence of "
        "every such program; `log.err()` = swallowed stays an assumption, a handler that does more is outside the "
        "translatable subset (fail closed)"]
    ok, log = ctx.coq_build(["props/C17.vo"])
    from harness import c17_impl as impl
    before = len(ctx.failures)
    model_ok = ok
    if not ok:
        ok2, _ = ctx.coq_build(["lib/Eventual.vo", "lib/Promise.vo"])
        model_ok = ok2

    # ---- corpus (regression witnesses of D10 / D11) first
    cdir = os.path.join(common.VERIF, "corpus", "C17")
    ev_cases, pr_cases = [], []
    if os.path.isdir(cdir):
        for fn in sorted(os.listdir(cdir)):
            if fn.endswith(".json"):
                c = json.load(open(os.path.join(cdir, fn)))
                (ev_cases if c["kind"] == "ev" else pr_cases).append((fn, c["program"]))
    ctx.extra["corpus_cases"] = len(ev_cases) + len(pr_cases)

    # ---- eventual-send queue
    progs = [p for _, p in ev_cases] + ev_programs(ctx)
    results = []
    with impl.E.quiet():
        for p in progs:
            r = impl.run_ev(p)
            results.append(r)
            for sig, text in r["viol"]:
                ctx.fail(sig, "%s; program %s" % (text, short(p)), replay=dict(kind="ev", program=p, trace=r["full"]))
            ctx.case(["ev", p], nontrivial=r["nrun"] > 0)
            ctx.hist("ev_program_length", len(p))
            ctx.hist("ev_callables_run", min(r["nrun"], 10))
            ctx.hist("ev_raising_callables", min(r["raised"], 5))
            ctx.hist("ev_reentrant_submissions", min(r["reentrant"], 5))
    ctx.sample(dict(kind="ev", program=progs[len(progs) // 2], trace=results[len(progs) // 2]["full"]))
    ctx.sample(dict(kind="ev", program=progs[-1], trace=results[-1]["full"]))
    if model_ok:
        correspond(ctx, "ev", progs, results, impl.coq_evprog, "run_enc", REQ_EV)

    # ---- promises
    if hasattr(impl, "run_pr"):
        pprogs = [p for _, p in pr_cases] + pr_programs(ctx)
        presults = []
        with impl.E.quiet():
            for p in pprogs:
                r = impl.run_pr(p)
                presults.append(r)
                for sig, text in r["viol"]:
                    ctx.fail(sig, "%s; program %s" % (text, short(p)), replay=dict(kind="pr", program=p, trace=r["full"]))
                ctx.case(["pr", p], nontrivial=r["ndeliv"] + r["nobs"] > 0)
                ctx.hist("pr_program_length", len(p))
                ctx.hist("pr_deliveries", min(r["ndeliv"], 10))
                ctx.hist("pr_observations", min(r["nobs"], 10))
                ctx.hist("pr_refused", min(r["nrefused"], 5))
                ctx.hist("pr_chained", min(r["nchained"], 5))
        ctx.sample(dict(kind="pr", program=pprogs[len(pprogs) // 2], trace=presults[len(pprogs) // 2]["full"]))
        ctx.sample(dict(kind="pr", program=pprogs[-1], trace=presults[-1]["full"]))
        if model_ok:
            correspond(ctx, "pr", pprogs, presults, impl.coq_prprog, "prun_enc", REQ_PR)
        impl.observer_list_oracle(ctx)
        impl.flush_observer_oracle(ctx)

    volume(ctx, impl, model_ok)

    if not ok and len(ctx.failures) == before:
        ctx.fail("proof-broken", "theorem closure props/C17.vo no longer builds against the regenerated gen/EventualGen.v:\n"
                 + log[-2500:], replay=dict(log=log[-6000:]), has_input=False)
    elif not ok:
        ctx.note("proof broken AND a failing input was found (reported above)")


# ---------------------------------------------------------------------------------- correspondence
def short(p):
    """programs can be thousands of operations long: show the ones that are not plain submissions/sends"""
    if len(p) <= 40:
        return json.dumps(p)
    def plain(o):
        return (o[0] == "act" and o[1][0] == "enq" and not o[1][1][1] and not o[1][1][2]) or \
               (o[0] in ("send", "sendonly") and o[3][0] == "ret")
    odd = [(i, o) for i, o in enumerate(p) if not plain(o)]
    return "%d operations, all plain eventually()/sends except (index, op): %s%s" % (
        len(p), json.dumps(odd[:12]), " ..." if len(odd) > 12 else "")


def correspond(ctx, kind, progs, results, to_coq, fn, requires):
    nbad = 0
    for k in range(0, len(progs), SHARD):
        chunk = progs[k:k + SHARD]
        body = "\nDefinition cases := %s.\nEval vm_compute in map %s cases.\n" % (coq_list(chunk, to_coq), fn)
        try:
            (vals,) = ctx.coq_eval("C17_%s_%d" % (kind, k // SHARD), body, requires=requires)
        except common.CoqEvalError as e:
            ctx.fail("correspondence-broken", "the %s model could not be evaluated: %s" % (kind, str(e)[-1500:]), has_input=False)
            return
        if len(vals) != len(chunk):
            ctx.fail("correspondence-broken", "expected %d model results, got %d" % (len(chunk), len(vals)), has_input=False)
            return
        for p, r, v in zip(chunk, results[k:k + SHARD], vals):
            ctx.traces += 1
            mt, ms = list(v[0]), list(v[1])
            if kind == "pr":
                from harness import c17_impl as impl
                mt = impl.filter_model_trace(mt, r["kinds"])
            if mt != r["trace"] or ms != r["state"]:
                nbad += 1
                ctx.fail("correspondence/%s" % kind,
                         "model and implementation disagree on program %s: model trace %r state %r, implementation trace %r state %r"
                         % (json.dumps(p), mt, ms, r["trace"], r["state"]),
                         replay=dict(kind=kind, program=p, model=[mt, ms], impl=[r["trace"], r["state"]]), has_input=False)
    ctx.extra["correspondence_%s_cases" % kind] = len(progs)
    ctx.extra["correspondence_%s_disagreements" % kind] = nbad


# ---------------------------------------------------------------------------------- generators (eventual)
class Ids:
    def __init__(self):
        self.n = 0

    def __call__(self):
        self.n += 1
        return self.n


EV_LETTERS = "NRBQFTLXVKGHJ"


def ev_letter(ch, ids):
    """template alphabet -> op with fresh ids"""
    if ch == "N":
        return ["act", ["enq", [ids(), [], False]]]                                   # plain callable
    if ch == "R":
        return ["act", ["enq", [ids(), [], 1]]]                                       # callable raising an Exception
    if ch == "B":
        i = ids()
        return ["act", ["enq", [i, [], 2 + i % 4]]]                                   # ... SystemExit / KeyboardInterrupt / GeneratorExit / BaseException subclass
    if ch == "Q":
        return ["act", ["enq", [ids(), [["enq", [ids(), [], False]]], False]]]        # enqueues more work
    if ch == "F":
        return ["act", ["enq", [ids(), [["flush", ids()]], False]]]                   # calls flush from inside (D11)
    if ch == "X":
        i = ids()
        return ["act", ["enq", [i, [["enq", [ids(), [["flush", ids()]], True]], ["flush", ids()]], True]]]  # all of it, raises
    if ch == "V":
        return ["act", ["fire", ids()]]
    if ch == "T":
        return ["turn"]
    if ch == "L":
        return ["act", ["flush", ids()]]
    if ch == "K":
        return ["act", ["flush", ids(), [["enq", [ids(), [], False]]]]]               # flush whose callback enqueues work
    if ch == "G":
        return ["act", ["flush", ids(), [["flush", ids(), [["enq", [ids(), [], False]]]]]]]   # flush whose callback calls flush (whose callback enqueues)
    if ch == "H":
        return ["act", ["flush", ids(), [["enq", [ids(), [], False]], ["flush", ids()]]]]     # callback enqueues, then calls flush (deferred)
    if ch == "J":                                                                     # a callable that calls flush whose callback calls flush
        return ["act", ["enq", [ids(), [["flush", ids(), [["flush", ids(), [["enq", [ids(), [], False]]]]]]], False]]]
    raise ValueError(ch)


def ev_word(w):
    ids = Ids()
    return [ev_letter(ch, ids) for ch in w]


def rand_cb(rng, ids, cbdepth):
    """the actions of a flush callback: enqueue / fireEventually / flush again (callbacks nested up to cbdepth)"""
    acts = []
    for _ in range(rng.choice([1, 1, 2, 2, 3])):
        k = rng.random()
        if k < 0.4 and cbdepth > 0:
            acts.append(["flush", ids()] + ([rand_cb(rng, ids, cbdepth - 1)] + ([rng.choice([1, 2, 3])] if rng.random() < 0.3 else [])
                                            if rng.random() < 0.7 else []))
        elif k < 0.5:
            acts.append(with_value(["fire", ids()]))
        elif k < 0.6:
            acts.append(["flush", ids()])
        else:
            acts.append(["enq", rand_script(rng, ids, 0)])
    return acts


def rand_script(rng, ids, depth):
    acts = []
    for _ in range(rng.choice([0, 0, 1, 1, 2, 3])):
        k = rng.random()
        if k < 0.5 and depth > 0:
            acts.append(["enq", rand_script(rng, ids, depth - 1)])
        elif k < 0.65:
            acts.append(with_value(["fire", ids()]))
        elif k < 0.9:
            acts.append(["flush", ids()] + ([rand_cb(rng, ids, 2)] if rng.random() < 0.4 else []))
        else:
            acts.append(["enq", with_kind([ids(), [], rng.choice([0, 0, 1, 2, 5])])])
    return with_kind([ids(), acts, rng.choice([0, 0, 0, 0, 0, 1, 1, 2, 3, 4, 5])])


def with_kind(script):
    """random scripts: every second one is submitted as something other than a plain function (functools.partial, an
    instance with __call__, a class, ...: c17_impl.CALLABLE_KINDS); the kind is a function of the id, so the random stream
    -- and with it every program generated before this dimension existed -- is unchanged"""
    from harness import c17_impl as impl
    i = script[0]
    return script + [(i // 2) % impl.N_CALLABLE_KINDS] if i % 2 else script


def with_value(fire):
    """random fireEventually requests: every second one with a value that is None / false / empty / opaque"""
    from harness import c17_impl as impl
    i = fire[1]
    return fire + [(i // 2) % impl.N_FIRE_VALUE_KINDS] if i % 2 else fire


def ev_raise_family(ctx):
    """one batch of n callables, the one at position pos raises (every kind, every position); the others are plain,
    enqueue more work, call flush or raise an ordinary Exception; optionally a flush is outstanding and a second batch
    follows"""
    out = []
    for n in range(1, ctx.n(4, 6) + 1):
        for pos in range(n):
            for kind in (1, 2, 3, 4, 5):
                for flavour in range(4):
                    ids = Ids()
                    prog = []
                    if flavour == 2:
                        prog.append(["act", ["flush", ids()]])
                    for k in range(n):
                        if k == pos:
                            acts = [["enq", [ids(), [], 0]]] if flavour == 1 else []
                            prog.append(["act", ["enq", [ids(), acts, kind]]])
                        elif flavour == 1:
                            prog.append(["act", ["enq", [ids(), [["enq", [ids(), [], 0]]], 0]]])
                        elif flavour == 2:
                            prog.append(["act", ["enq", [ids(), [["flush", ids()]], 0]]])
                        elif flavour == 3:
                            prog.append(["act", ["enq", [ids(), [], 1 if k % 2 else 0]]])
                        else:
                            prog.append(["act", ["enq", [ids(), [], 0]]])
                    prog.append(["turn"])
                    if flavour in (1, 2):
                        prog += [["act", ["flush", ids()]], ["act", ["enq", [ids(), [], 0]]], ["turn"]]
                    out.append(prog)
    return out


def cb_bodies(ids, depth, width=2):
    """every callback body of at most `width` actions over {enqueue a plain callable, flush with a callback of depth-1};
    returns thunks (fresh ids per use)"""
    if depth == 0:
        return [lambda: []]
    inner = cb_bodies(ids, depth - 1, width)
    acts = [lambda: ["enq", [ids(), [], 0]]] + [(lambda b=b: ["flush", ids(), b()]) for b in inner]
    out = [lambda: []]
    for n in range(1, width + 1):
        for combo in itertools.product(acts, repeat=n):
            out.append(lambda combo=combo: [a() for a in combo])
    return out


def ev_flushcb_family(ctx):
    """deterministic, exhaustive small shapes of flush callbacks that call flush again (never depends on the random stream).
    (a) every callback body of <= 2 actions nested <= 2 levels, the request made (0) on the idle queue -- the callback runs
        at once, nested --, (1) at top level with work pending, (2) inside a callable, (3) behind an earlier outstanding
        observer, (4) in front of a later one;
    (b) k = 1..3 outstanding observers x which one enqueues x which one calls flush again x enqueue before/after that call x
        requested inside a callable or at top level x the nested callback 1 or 2 levels deep."""
    out = []
    ids = Ids()
    for body in cb_bodies(ids, 2):
        for where in range(5):
            ids.n = 0
            if where == 0:
                prog = [["act", ["flush", ids(), body()]], ["turn"], ["turn"]]
            elif where == 1:
                prog = [["act", ["enq", [ids(), [], 0]]], ["act", ["flush", ids(), body()]], ["turn"], ["turn"]]
            elif where == 2:
                prog = [["act", ["enq", [ids(), [["flush", ids(), body()]], 0]]], ["turn"], ["turn"]]
            elif where == 3:
                prog = [["act", ["enq", [ids(), [], 0]]], ["act", ["flush", ids()]], ["act", ["flush", ids(), body()]], ["turn"], ["turn"]]
            else:
                prog = [["act", ["enq", [ids(), [], 0]]], ["act", ["flush", ids(), body()]], ["act", ["flush", ids()]], ["turn"], ["turn"]]
            out.append(prog)
    for k in (1, 2, 3):
        for enq_by in range(-1, k):
            for fl_by in range(-1, k):
                for enq_first in ((True, False) if enq_by == fl_by and enq_by >= 0 else (True,)):
                    for inside in (False, True):
                        for depth in ((1, 2) if fl_by >= 0 else (1,)):
                            ids = Ids()

                            def cb(i):
                                acts = []
                                if i == fl_by:
                                    inner = [["enq", [ids(), [], 0]]]
                                    if depth == 2:
                                        inner = [["flush", ids(), inner]]
                                    acts.append(["flush", ids(), inner])
                                if i == enq_by:
                                    e = ["enq", [ids(), [], 0]]
                                    acts = [e] + acts if enq_first else acts + [e]
                                return acts
                            reqs = [["flush", ids(), cb(i)] for i in range(k)]
                            if inside:
                                prog = [["act", ["enq", [ids(), reqs, 0]]]]
                            else:
                                prog = [["act", ["enq", [ids(), [], 0]]]] + [["act", r] for r in reqs]
                            out.append(prog + [["turn"], ["turn"], ["act", ["flush", ids(), [["flush", ids()]]]], ["turn"]])
    return out


def ev_flushcb_end_family(ctx):
    """flush callbacks that RAISE or RETURN A DEFERRED (unfired / fired) after performing their actions: Twisted's Deferred
    keeps both to itself, so for the queue they are the same callbacks (the programs are run against the model of the plain
    callback): requested on the idle queue, with work pending, inside a callable, behind and in front of another
    observer; the body empty / enqueueing / calling flush again with a callback that ends the same way"""
    out = []
    for end in (1, 2, 3):
        for bk in range(3):
            for where in range(5):
                ids = Ids()

                def body():
                    if bk == 0:
                        return []
                    if bk == 1:
                        return [["enq", [ids(), [], 0]]]
                    return [["enq", [ids(), [], 0]], ["flush", ids(), [["enq", [ids(), [], 0]]], end]]
                req = lambda: ["flush", ids(), body(), end]
                if where == 0:
                    prog = [["act", req()], ["turn"], ["turn"]]
                elif where == 1:
                    prog = [["act", ["enq", [ids(), [], 0]]], ["act", req()], ["turn"], ["turn"]]
                elif where == 2:
                    prog = [["act", ["enq", [ids(), [req()], 0]]], ["turn"], ["turn"]]
                elif where == 3:
                    prog = [["act", ["enq", [ids(), [], 0]]], ["act", ["flush", ids()]], ["act", req()], ["turn"], ["turn"]]
                else:
                    prog = [["act", ["enq", [ids(), [], 0]]], ["act", req()], ["act", ["flush", ids(), [["enq", [ids(), [], 0]]]]],
                            ["act", req()], ["turn"], ["turn"], ["turn"]]
                out.append(prog)
    return out


def ev_args_family(ctx):
    """eventually(cb, *args, **kwargs) with argument names that collide with names used inside the queue"""
    from harness import c17_impl as impl
    excl = set(impl.entry_point_params(impl.ev.eventually))
    names = [n for n in impl.colliding_names() if n not in excl]
    out = []
    for i, nme in enumerate(names):
        ids = Ids()
        kw = {nme: 7, names[(i + 3) % len(names)]: 8}
        out.append([["act", ["enq", [ids(), [], 0], [[], {nme: 1}]]],
                    ["act", ["enq", [ids(), [["enq", [ids(), [], 0], [[5], kw]]], 1 if i % 2 else 0], [[1, 2], kw]]],
                    ["act", ["enq", [ids(), [], 2 if i % 3 == 0 else 0], [[9], {}]]],
                    ["turn"], ["turn"]])
    ids = Ids()
    out.append([["act", ["enq", [ids(), [], 0], [[1, 2, 3], {n: k for k, n in enumerate(names)}]]], ["turn"]])
    return out


def ev_fire_family(ctx):
    """eventually() and fireEventually() interleaved in every order (2..4 submissions, thorough 5), at top level and
    re-entrantly from inside a running callable: both primitives share ONE submission order (seeded change C17-r5s1
    kept the Deferreds of fireEventually in a list of their own)"""
    out = []
    for n in range(2, ctx.n(4, 5) + 1):
        for w in itertools.product("NVW", repeat=n):
            if "V" not in w and "W" not in w:
                continue
            ids = Ids()
            prog = []
            for ch in w:
                if ch == "N":
                    prog.append(["act", ["enq", [ids(), [], 0]]])
                elif ch == "V":
                    prog.append(["act", ["fire", ids()]])
                else:
                    prog.append(["act", ["enq", [ids(), [["fire", ids()], ["enq", [ids(), [], 0]], ["fire", ids()]], 0]]])
            out.append(prog + [["turn"], ["turn"]])
    return out


def ev_callable_family(ctx):
    """WHAT KIND OF OBJECT is submitted: eventually(cb) must call cb and depend on nothing else about it.  For every kind
    of c17_impl.CALLABLE_KINDS other than the plain function (lambda, bound method, functools.partial with and without
    bound arguments, instance with __call__, an instance on which everything but the call fails, a class, a function
    with format characters in its names, ONE function object submitted repeatedly with equal arguments):
    (a) one fixed mixed batch: returns / raises an Exception after enqueueing a raising callable of the same kind / raises
        a BaseException after calling flush, with positional and keyword arguments, a fireEventually in between and a
        flush outstanding;
    (b) a batch of n callables, the one at position pos of that kind and raising (every raise code in thorough), the
        neighbours plain functions (flavour 0) / of the same kind, with arguments, a flush outstanding and a second
        batch behind (1) / fireEventually requests and raising callables of the next kind (2, thorough);
    (c) fireEventually() with every kind of value (no argument, None, 0, False, empty containers, an opaque object), at
        top level and from inside a callable.
    Deterministic (no random choice).  (seeded change C17-r6s1: the except clause of _turn formats the callable's
    qualified name, which a functools.partial / an instance with __call__ does not have: the rest of the batch is lost)"""
    from harness import c17_impl as impl
    NK, NV = impl.N_CALLABLE_KINDS, impl.N_FIRE_VALUE_KINDS
    thorough = ctx.tier == "thorough"
    args = [[1, 2], {"a": 3, "kw": 4}]
    out = []
    for kind in range(1, NK):
        ids = Ids()
        out.append([["act", ["flush", ids()]],
                    ["act", ["enq", [ids(), [], 0, kind]]],
                    ["act", ["enq", [ids(), [["enq", [ids(), [], 1, kind], args]], 1, kind], args]],
                    ["act", ["fire", ids(), kind % NV]],
                    ["act", ["enq", [ids(), [["flush", ids()]], 5, kind]]],
                    ["act", ["enq", [ids(), [["enq", [ids(), [], 0, kind]]], 0, kind], args]],
                    ["turn"], ["act", ["flush", ids()]], ["turn"], ["act", ["flush", ids()]], ["turn"]])
        for raises in ((1, 2, 3, 4, 5) if thorough else (1, 5)):
            for n in ((1, 2, 3, 4) if thorough else (1, 3)):
                for pos in range(n):
                    for flavour in ((0, 1, 2) if thorough else (0, 1)):
                        ids = Ids()
                        prog = [["act", ["flush", ids()]]] if flavour == 1 else []
                        for k in range(n):
                            if k == pos:
                                prog.append(["act", ["enq", [ids(), [], raises, kind]] + ([args] if flavour == 1 else [])])
                            elif flavour == 0:
                                prog.append(["act", ["enq", [ids(), [], 0]]])
                            elif flavour == 1:
                                prog.append(["act", ["enq", [ids(), [], 0, kind], args]])
                            elif k % 2:
                                prog.append(["act", ["fire", ids(), (kind + k) % NV]])
                            else:
                                prog.append(["act", ["enq", [ids(), [], 1, 1 + kind % (NK - 1)]]])
                        prog.append(["turn"])
                        if flavour == 1:
                            prog += [["act", ["flush", ids()]], ["act", ["enq", [ids(), [], 0, kind]]], ["turn"]]
                        out.append(prog)
    for vk in range(1, NV):
        ids = Ids()
        out.append([["act", ["fire", ids(), vk]], ["act", ["enq", [ids(), [["fire", ids(), vk]], 1]]], ["act", ["fire", ids(), vk]],
                    ["turn"], ["turn"]])
    return out


def ev_programs(ctx):
    fam = ev_flushcb_family(ctx)
    ctx.extra["ev_flushcb_family_programs"] = len(fam)
    ckf = ev_callable_family(ctx)
    ctx.extra["ev_callable_kind_family_programs"] = len(ckf)
    out = fam + ev_flushcb_end_family(ctx) + ev_raise_family(ctx) + ev_args_family(ctx) + ev_fire_family(ctx) + ckf
    maxlen = ctx.n(4, 5)
    letters = "NRBQFTLXVK" if ctx.tier == "thorough" else "NRBQFTLK"
    for n in range(1, maxlen + 1):
        for w in itertools.product(letters, repeat=n):
            if "T" not in w and n > 2:
                continue            # without a turn nothing runs: keep only the short ones
            out.append(ev_word(w))
    # the letters G H J (flush callbacks that call flush again): every word that uses at least one of them, up to
    # length 2 over the whole alphabet, then over alphabets reduced to the flush-related letters
    if ctx.tier == "thorough":
        extra = ((1, EV_LETTERS), (2, EV_LETTERS), (3, EV_LETTERS), (4, "NRBQFTLKGHJ"), (5, "NTLKGHJ"))
    else:
        extra = ((1, EV_LETTERS), (2, EV_LETTERS), (3, "NRBQFTLKGHJ"), (4, "NTLKGH"))
    for n, alpha in extra:
        for w in itertools.product(alpha, repeat=n):
            if not set(w) & set("GHJ") or ("T" not in w and n > 2):
                continue
            out.append(ev_word(w))
    for _ in range(ctx.n(450, 30000)):
        ids = Ids()
        prog = []
        for _ in range(ctx.rng.randint(2, 14)):
            k = ctx.rng.random()
            if k < 0.35:
                prog.append(["turn"])
            elif k < 0.5:
                prog.append(["act", ["flush", ids()] + ([rand_cb(ctx.rng, ids, 3)] if ctx.rng.random() < 0.5 else [])])
            elif k < 0.58:
                prog.append(["act", with_value(["fire", ids()])])
            else:
                prog.append(["act", ["enq", rand_script(ctx.rng, ids, 3)]])
        out.append(prog)
    return out


ARG_NAMES = ["f", "callable", "func", "self", "args", "kwargs", "methname", "resolver", "_", "name", "method", "d", "t"]
PR_LETTERS = "SsOWXEVBCvbTRZzY"
PR_LETTERS_THOROUGH = PR_LETTERS + "N"      # N: send(p0).nosuch_method(..) -- in the quick tier only over PR_NOMETH_CORE
PR_NOMETH_CORE = "NSOVBT"


def pr_letter(ch, st):
    """st: dict(n=number of promises so far, mid=.., w=..)"""
    def mid():
        st["mid"] += 1
        return st["mid"]

    def w():
        st["w"] += 1
        return st["w"]
    last = st["n"] - 1
    if ch == "S":
        st["n"] += 1
        return ["send", 0, mid(), ["ret", 10 + st["mid"]]]
    if ch == "s":
        st["n"] += 1
        return ["send", 1, mid(), ["raise", 20 + st["mid"]]]
    if ch == "R":
        st["n"] += 1
        return ["send", 0, mid(), ["retp", 1]]
    if ch == "Z":
        st["n"] += 1
        return ["send", last, mid(), ["ret", 30 + st["mid"]]]
    if ch == "z":
        return ["when", last, w(), "when"]
    if ch == "O":
        return ["sendonly", 0, mid(), ["ret", 0]]
    if ch == "Y":
        a = mid()
        return ["sendonly", 0, a, ["sendret", 0, 500 + a, 9]]          # the method sends again to the same promise
    if ch == "W":
        return ["when", 0, w(), "when"]
    if ch == "X":
        return ["when", 0, w(), "then"]
    if ch == "E":
        return ["when", 1, w(), "except"]
    if ch == "V":
        return ["resolve", 0, ["val", 5]]
    if ch == "B":
        return ["resolve", 0, ["fail", 6]]
    if ch == "C":
        return ["resolve", 0, ["prom", 1]]
    if ch == "v":
        return ["resolve", 1, ["val", 7]]
    if ch == "b":
        return ["resolve", 1, ["fail", 8]]
    if ch == "T":
        return ["turn"]
    if ch == "N":
        st["n"] += 1
        return ["send", 0, mid(), ["nometh"]]                          # the target has no such method
    raise ValueError(ch)


def pr_word(w):
    st = dict(n=2, mid=0, w=100)
    return [["new"], ["new"]] + [pr_letter(ch, st) for ch in w]


def pr_random(rng):
    prog = []
    dmids = []          # messages whose method returns a Deferred
    n = 0
    mid = 0
    w = 100
    for _ in range(rng.randint(1, 3)):
        prog.append(["new"])
        n += 1
    for _ in range(rng.randint(3, 18)):
        k = rng.random()
        p = rng.randrange(n) if rng.random() < 0.7 else n - 1
        if k < 0.25:
            prog.append(["turn"])
        elif k < 0.45:
            mid += 1
            b = rng.choice([["ret", mid + 40], ["ret", mid + 40], ["raise", mid + 60], ["retp", rng.randrange(n + 1)],
                            ["sendret", rng.randrange(n), 1000 + mid, mid + 40], ["retd"], ["nometh"]])
            if b[0] == "retd":
                dmids.append(mid)
            extra = []
            if rng.random() < 0.3:
                extra = [[[rng.randrange(9) for _ in range(rng.randrange(3))],
                          {rng.choice(ARG_NAMES): rng.randrange(9) for _ in range(rng.randrange(3))}]]
            if rng.random() < 0.75:
                prog.append(["send", p, mid, b] + extra)
                n += 1
            else:
                prog.append(["sendonly", p, mid, b] + extra)
        elif k < 0.65:
            w += 1
            prog.append(["when", p, w, rng.choice(["when", "when", "then", "except"])])
        elif k < 0.93:
            x = rng.choice([["val", rng.randrange(1, 9)], ["fail", rng.randrange(1, 9)], ["prom", rng.randrange(n)],
                            ["prom", rng.randrange(n)]])
            if dmids and rng.random() < 0.35:
                prog.append(["fire", rng.choice(dmids), x])       # the Deferred a method returns / will return fires
            else:
                prog.append(["resolve", p, x])
        else:
            prog.append(["new"])
            n += 1
    for _ in range(rng.choice([0, 0, 1, 2, 4])):
        prog.append(["turn"])
    return prog


def pr_chain_family(ctx):
    """p0 -> p1 -> ... -> ph (1..3 hops of resolve-with-an-unresolved-promise, performed in every order), ph finally
    resolved with a value or a Failure; a send/sendOnly to p0 (thorough: also to the inner promises) in every subset of
    the gaps between those steps; no turns / a turn in every gap / a turn in some gaps.  Send order must be delivery order."""
    out = []
    thorough = ctx.tier == "thorough"
    for h in (1, 2, 3):
        steps = [["resolve", i, ["prom", i + 1]] for i in range(h)]
        finals = [["resolve", h, ["val", 5]]] + ([["resolve", h, ["fail", 6]]] if thorough or h < 3 else [])
        for final in finals:
            for order in itertools.permutations(steps + [final]):
                nslots = len(order) + 1
                for mask in range(1, 2 ** nslots):
                    if bin(mask).count("1") < 2 and not thorough:
                        continue
                    for turns in (0, 1, 2):
                        if turns == 2:
                            tm = ctx.rng.randrange(1, 2 ** nslots)
                        else:
                            tm = 0 if turns == 0 else 2 ** nslots - 1
                        if h == 3 and not thorough and turns == 1 and mask % 3:
                            continue
                        prog = [["new"] for _ in range(h + 1)]
                        mid = 0
                        for slot in range(nslots):
                            if mask >> slot & 1:
                                mid += 1
                                tgt = 0
                                if thorough and ctx.rng.random() < 0.25:
                                    tgt = ctx.rng.randrange(h + 1)
                                if mid % 2:
                                    prog.append(["send", tgt, mid, ["ret", 40 + mid]])
                                else:
                                    prog.append(["sendonly", tgt, mid, ["ret", 40 + mid]])
                                if ctx.rng.random() < 0.3:
                                    mid += 1
                                    prog.append(["sendonly", tgt, mid, ["raise", 60 + mid]])
                            if tm >> slot & 1:
                                prog.append(["turn"])
                            if slot < len(order):
                                prog.append(order[slot])
                        out.append(prog)
    return out


def pr_deferred_family(ctx):
    """a message whose method returns a Deferred (defer.maybeDeferred(..).addBoth(resolver) in Promise._deliver): sent with
    send / sendOnly before or after the target is resolved; the Deferred fires before the send, between send and
    delivery, after the delivery, later still, or never; with a value, a Failure, a promise that is unresolved (and
    resolved afterwards), NEAR or BROKEN; an observer on the result promise is registered before or after; a message
    sent to the result promise must come out at what the Deferred fired with"""
    out = []
    for resolved_first in (False, True):
        for kind in ("send", "sendonly"):
            for fire_at in (0, 1, 2, 3, None):
                for xk in range(5):
                    for obs_early in (True, False):
                        prog = [["new"], ["new"]]
                        x = [["val", 61], ["fail", 62], ["prom", 1], ["prom", 1], ["prom", 1]][xk]
                        if xk == 3:
                            prog.append(["resolve", 1, ["val", 7]])
                        if xk == 4:
                            prog.append(["resolve", 1, ["fail", 8]])
                        fire = ["fire", 1, x]
                        if resolved_first:
                            prog.append(["resolve", 0, ["val", 5]])
                        if fire_at == 0:
                            prog.append(fire)
                        prog.append([kind, 0, 1, ["retd"]])
                        if obs_early:
                            prog.append(["when", 2, 101, "when"])
                        if fire_at == 1:
                            prog.append(fire)
                        if not resolved_first:
                            prog.append(["resolve", 0, ["val", 5]])
                        prog += [["turn"], ["turn"]]
                        if fire_at == 2:
                            prog.append(fire)
                        prog.append(["sendonly", 2, 2, ["ret", 0]])
                        prog.append(["turn"])
                        if fire_at == 3:
                            prog.append(fire)
                        if xk == 2:
                            prog.append(["resolve", 1, ["val", 7]])
                        if not obs_early:
                            prog.append(["when", 2, 102, "then"])
                        if fire_at is not None or obs_early:
                            prog.append(["fire", 1, ["val", 99]])    # a second firing is never performed (already called); else: a late first one
                        prog += [["turn"], ["turn"], ["turn"]]
                        out.append(prog)
    return out


def pr_backlog_family(ctx):
    """a backlog of 1..3 messages queued on an unresolved promise, each send / sendOnly with a method that returns,
    raises an Exception or raises a BaseException (every combination for 1..2 messages; for 3 every combination with at
    least one raising sendOnly), an observer registered before and one after the backlog, then the promise is resolved
    with a value, a Failure, or through a chain; one more message afterwards.  Everything behind a failing message must
    still be delivered, every result promise settled, every observer told (seeded change C17-r5s2: one queue entry for
    the whole backlog + no Deferred around a sendOnly)."""
    out = []
    opts = [(k, b) for k in ("send", "sendonly") for b in ("ret", "exc", "base")]
    for n in (1, 2, 3):
        for combo in itertools.product(opts, repeat=n):
            if n == 3 and not any(k == "sendonly" and b != "ret" for k, b in combo) and ctx.tier != "thorough":
                continue
            for res in ("val", "fail", "chain"):
                prog = [["new"], ["new"], ["when", 0, 101, "when"]]
                mid = 0
                for k, b in combo:
                    mid += 1
                    beh = ["ret", 40 + mid] if b == "ret" else ["raise", 3 * mid + 61 if b == "exc" else 3 * mid + 60]
                    prog.append([k, 0, mid, beh])
                prog.append(["when", 0, 102, "then"])
                if res == "val":
                    prog.append(["resolve", 0, ["val", 5]])
                elif res == "fail":
                    prog.append(["resolve", 0, ["fail", 6]])
                else:
                    prog += [["resolve", 0, ["prom", 1]], ["turn"], ["resolve", 1, ["val", 7]]]
                prog += [["sendonly", 0, mid + 1, ["raise", 97]], ["send", 0, mid + 2, ["ret", 50]],
                         ["turn"], ["turn"], ["turn"], ["turn"]]
                out.append(prog)
    return out + pr_nometh_backlog(ctx)


def pr_nometh_backlog(ctx):
    """a message to a method the target does not have (send(p).nosuch_method / sendOnly(p).nosuch_method) at every position
    of a backlog of 1..3 messages; the neighbours return (flavour 0) or raise an Exception / a BaseException (flavour 1),
    alternating send and sendOnly; the backlog is sent before the promise is resolved (queued in _pendingMethods) or after
    (scheduled directly); the promise is resolved with a value, a Failure or through a chain; the result promise of a
    missing-method send() has an observer and is itself sent a message (which must be BROKEN with the same error); one
    more missing-method sendOnly and an ordinary send follow.  Nothing is invoked for the missing method, its result is
    BROKEN with the AttributeError, everything around it is delivered in order.  Plus: send(p)._private_name in the
    middle of a backlog (refused at the call site, nothing queued)."""
    out = []

    def resolution(res, late):
        if res == "val":
            return [["resolve", 0, ["val", 5]]]
        if res == "fail":
            return [["resolve", 0, ["fail", 6]]]
        if late:        # the chain has fired before the backlog is sent: promise 0 is NEAR
            return [["resolve", 0, ["prom", 1]], ["resolve", 1, ["val", 7]], ["turn"]]
        return [["resolve", 0, ["prom", 1]], ["turn"], ["resolve", 1, ["val", 7]]]

    def build(behs, res, late):
        """behs: [(kind, beh)] with beh None standing for a private name"""
        prog = [["new"], ["new"], ["when", 0, 101, "when"]]
        nprom, mid, w = 2, 0, 110
        if late:
            prog += resolution(res, late)
        probes = []
        for kind, beh in behs:
            mid += 1
            prog.append([kind, 0, mid, beh])
            if beh[0] == "private":
                continue
            if kind == "send":
                if beh[0] == "nometh":
                    w += 1
                    probes.append(nprom)
                    prog.append(["when", nprom, w, "when"])
                nprom += 1
        prog.append(["when", 0, 102, "then"])
        if not late:
            prog += resolution(res, late)
        prog += [["sendonly", 0, mid + 1, ["nometh"]], ["send", 0, mid + 2, ["ret", 50]]]
        nprom += 1
        for k, r in enumerate(probes):       # a message to the result promise of the missing-method send
            prog.append(["send", r, mid + 3 + k, ["ret", 51]])
            prog.append(["when", nprom, 120 + k, "except"])
            nprom += 1
        return prog + [["turn"], ["turn"], ["turn"], ["turn"], ["turn"]]

    for n in (1, 2, 3):
        for pos in range(n):
            for kind in ("send", "sendonly"):
                for flavour in (0, 1):
                    behs = []
                    for j in range(n):
                        if j == pos:
                            behs.append((kind, ["nometh"]))
                        else:
                            k2 = "send" if (j + flavour) % 2 == 0 else "sendonly"
                            behs.append((k2, ["ret", 41 + j] if flavour == 0 else ["raise", 3 * j + (61 if j % 2 else 60)]))
                    for res in ("val", "fail", "chain"):
                        for late in (False, True):
                            out.append(build(behs, res, late))
    for kind in ("send", "sendonly"):
        for res in ("val", "fail", "chain"):
            for late in (False, True):
                out.append(build([("send", ["ret", 41]), (kind, ["private"]), (kind, ["nometh"]), ("send", ["ret", 43])], res, late))
    return out


def pr_args_family(ctx):
    """messages (and _then/_except observers) whose extra arguments -- positional and keyword -- use names that collide
    with parameters / locals of the functions on the delivery path; sent before and after the resolution, with send and
    sendOnly, to plain, chained and broken promises.  The target must receive exactly what was sent."""
    from harness import c17_impl as impl
    names = impl.colliding_names()
    # _then/_except(cb, *args, **kwargs) are documented as when(p).addCallback/addErrback(cb, *a, **kw): a keyword that
    # is a named parameter of those entry points themselves cannot be passed in Python (TypeError at the call)
    from twisted.internet import defer
    obs_excl = set(impl.entry_point_params(impl.pm.Promise._then)) | set(impl.entry_point_params(impl.pm.Promise._except)) \
        | set(impl.entry_point_params(defer.Deferred.addCallback)) | set(impl.entry_point_params(defer.Deferred.addErrback))
    out = []

    def prog(kws, pos, chain, final):
        p = [["new"], ["new"]]
        mid = [0]

        def snd(kind, tgt):
            mid[0] += 1
            return [kind, tgt, mid[0], ["ret", 40 + mid[0]], [list(pos), dict(kws)]]
        okw = {k: v for k, v in kws.items() if k not in obs_excl}
        p += [snd("send", 0), snd("sendonly", 0), ["when", 0, 101, "then", [list(pos), okw]],
              ["when", 0, 102, "except", [list(pos), okw]]]
        if chain:
            p += [["resolve", 0, ["prom", 1]], snd("sendonly", 0), ["resolve", 1, final]]
        else:
            p += [["resolve", 0, final]]
        p += [snd("send", 0), snd("sendonly", 0), ["when", 0, 103, "then", [list(pos), okw]], ["turn"], snd("sendonly", 0),
              snd("send", 2), ["turn"], ["turn"], ["turn"]]
        return p
    for i, nme in enumerate(names):
        out.append(prog({nme: 7}, [], i % 2 == 1, ["val", 5]))
        out.append(prog({nme: 7, names[(i + 1) % len(names)]: 8}, [3, 4], i % 2 == 0, ["val", 5] if i % 3 else ["fail", 6]))
    out.append(prog({n: k for k, n in enumerate(names)}, [1, 2, 3], True, ["val", 5]))
    out.append(prog({}, [1, 2, 3, 4, 5], False, ["val", 5]))
    return out


def pr_callable_family(ctx):
    """the same dimension on the promise side: WHAT KIND OF OBJECT the observer's callback is (p._then(cb) / p._except(cb)
    / when(p).addBoth(cb): every kind of c17_impl.CALLABLE_KINDS) and what kind of object the RESOLUTION is (its method a
    plain function, a functools.partial built by a property, an instance attribute with __call__; an object that cannot
    be printed, compared, hashed or tested for truth: c17_impl.TARGET_KINDS): messages and observers before, during and
    after the resolution, directly / through a chain / through a Deferred result; a missing method on each kind of
    target.  Deterministic."""
    from harness import c17_impl as impl
    out = []
    for ck in range(impl.SHARED_KIND):
        for tk in range(len(impl.TARGET_KINDS)):
            if ck == 0 and tk == 0:
                continue
            for chain in (False, True):
                final = ["val", 5, tk]
                prog = [["new"], ["new"], ["send", 0, 1, ["ret", 41]], ["sendonly", 0, 2, ["raise", 62]],
                        ["when", 0, 101, "then", [[7], {"a": 1}], ck], ["when", 0, 102, "except", [[], {}], ck],
                        ["when", 0, 103, "when", [[], {}], ck]]
                if chain:
                    prog += [["resolve", 0, ["prom", 1]], ["sendonly", 0, 3, ["ret", 43]], ["turn"], ["resolve", 1, final]]
                else:
                    prog += [["resolve", 0, final]]
                prog += [["send", 0, 4, ["nometh"]], ["send", 0, 5, ["ret", 45, (tk + 1) % 4]], ["when", 0, 104, "then", [[], {}], ck],
                         ["turn"], ["when", 4, 105, "when", [[], {}], ck], ["send", 4, 6, ["ret", 46]], ["sendonly", 0, 7, ["retd"]],
                         ["turn"], ["fire", 7, ["val", 8, tk]], ["turn"], ["turn"], ["turn"]]
                out.append(prog)
        out.append([["new"], ["when", 0, 101, "except", [[7], {"a": 1}], ck], ["when", 0, 102, "then", [[], {}], ck], ["send", 0, 1, ["ret", 41]],
                    ["resolve", 0, ["fail", 6]], ["when", 0, 103, "except", [[], {}], ck], ["when", 1, 104, "when", [[], {}], ck],
                    ["turn"], ["turn"], ["turn"]])
    for tk in range(len(impl.TARGET_KINDS)):        # the Deferred a method returns fires with each kind of object
        out.append([["new"], ["resolve", 0, ["val", 5, tk]], ["send", 0, 1, ["retd"]], ["when", 1, 101, "when"], ["turn"],
                    ["fire", 1, ["val", 9, tk]], ["send", 1, 2, ["ret", 42]], ["send", 1, 3, ["nometh"]], ["turn"], ["turn"], ["turn"]])
    return out


def pr_target_state_family(ctx):
    """promise 0 is resolved WITH A PROMISE that is in each possible state at that moment: EVENTUAL; CHAINED to an
    unresolved promise (one / two hops); CHAINED to itself (never settles); NEAR / BROKEN directly; NEAR / BROKEN through
    a chain that has already fired; resolved a moment ago with its notification still queued.  Promise 0 has an observer
    of each kind and a send + a sendOnly before the resolution, between the resolution and the settling of the end of
    the chain, and afterwards; the end settles with a value / a Failure / never; with and without reactor calls in the
    gaps.  Deterministic.  (seeded change C17-r6s2: only an EVENTUAL other promise was followed, the _target of any other
    one taken over -- a CHAINED promise has none.)"""
    out = []
    shapes = ["eventual", "chained1", "chained2", "self", "near", "broken", "near-via-chain", "broken-via-chain", "just-resolved"]
    for shape in shapes:
        for settle in ("val", "fail", "never"):
            if settle != "val" and shape in ("near", "broken", "near-via-chain", "broken-via-chain", "just-resolved", "self"):
                continue        # nothing is left to settle
            for turns in (False, True):
                prog = [["new"] for _ in range(4)]
                mid, w = [0], [100]

                def traffic():
                    o = []
                    for kind in ("when", "then", "except"):
                        w[0] += 1
                        o.append(["when", 0, w[0], kind])
                    mid[0] += 2
                    return o + [["send", 0, mid[0] - 1, ["ret", 40 + mid[0]]], ["sendonly", 0, mid[0], ["ret", 0]]]
                T = [["turn"]] if turns else []
                end = None
                if shape == "chained1":
                    prog += [["resolve", 1, ["prom", 2]]]
                    end = 2
                elif shape == "chained2":
                    prog += [["resolve", 2, ["prom", 3]]] + T + [["resolve", 1, ["prom", 2]]]
                    end = 3
                elif shape == "self":
                    prog += [["resolve", 1, ["prom", 1]]]
                elif shape == "near":
                    prog += [["resolve", 1, ["val", 7]]]
                elif shape == "broken":
                    prog += [["resolve", 1, ["fail", 8]]]
                elif shape in ("near-via-chain", "broken-via-chain"):
                    prog += [["resolve", 1, ["prom", 2]], ["resolve", 2, ["val", 7] if shape[0] == "n" else ["fail", 8]], ["turn"]]
                elif shape == "eventual":
                    end = 1
                prog += T + traffic()
                if shape == "just-resolved":            # promise 1 is CHAINED to 2, 2 resolves: 1's notification is still queued
                    prog += [["resolve", 1, ["prom", 2]], ["resolve", 2, ["val", 7]]]
                prog += [["resolve", 0, ["prom", 1]]] + traffic() + T + T
                if end is not None and settle != "never":
                    prog += [["resolve", end, ["val", 5] if settle == "val" else ["fail", 6]]]
                prog += T + traffic() + [["turn"], ["turn"], ["turn"], ["turn"]]
                out.append(prog)
    return out


def pr_send_state_family(ctx):
    """send / sendOnly to promise 0 IN EVERY STATE it can be in at the moment of the send: unresolved (settling later with
    a value / a Failure / never), resolved to a value, BROKEN, resolved to another promise (unresolved and settling later
    with a value / a Failure; already resolved to a value; already BROKEN) -- one batch of messages before the state is
    entered, one right after it IN THE SAME TURN, one in a later turn, one after the end of a chain settled; with and
    without a reactor call in each gap.  Every result promise gets an observer of each kind (when / _then / _except) in
    the turn of the send, and a late one at the end.  The oracle's rule is the property's: no observer of a result hears
    anything in the sender's turn, and the outcomes of the messages sent to one promise are observed in send order.
    Deterministic; the first program is the fixed witness (send, break, send in the same turn).  (seeded change C17-r8s1:
    a send to a BROKEN promise resolved its result on the spot instead of going through the eventual-send queue.)"""
    out = []
    #        name              enter promise 0's state                                        settle later
    states = [("broken", [["resolve", 0, ["fail", 6]]], []),
              ("near", [["resolve", 0, ["val", 5]]], []),
              ("eventual-never", [], []),
              ("eventual-val", [], [["resolve", 0, ["val", 5]]]),
              ("eventual-fail", [], [["resolve", 0, ["fail", 6]]]),
              ("chained-val", [["resolve", 0, ["prom", 1]]], [["resolve", 1, ["val", 7]]]),
              ("chained-fail", [["resolve", 0, ["prom", 1]]], [["resolve", 1, ["fail", 8]]]),
              ("chained-never", [["resolve", 0, ["prom", 1]]], []),
              ("to-near", [["resolve", 1, ["val", 7]], ["resolve", 0, ["prom", 1]]], []),
              ("to-broken", [["resolve", 1, ["fail", 8]], ["resolve", 0, ["prom", 1]]], []),
              ("to-broken-settled", [["resolve", 1, ["fail", 8]], ["turn"], ["resolve", 0, ["prom", 1]]], [])]
    for name, enter, settle in states:
        for gaps in itertools.product((False, True), repeat=3):
            for rich in (False, True):
                if rich and gaps not in ((False, False, False), (True, True, True), (False, True, False)):
                    continue
                prog = [["new"], ["new"]]
                st = dict(n=2, mid=0, w=100, results=[])

                def batch(behs):
                    o = []
                    for how, beh in behs:
                        st["mid"] += 1
                        o.append([how, 0, st["mid"], beh])
                        if how == "send":
                            r = st["n"]
                            st["n"] += 1
                            st["results"].append(r)
                            for kind in (("when", "then", "except") if rich else ("when",)):
                                st["w"] += 1
                                o.append(["when", r, st["w"], kind])
                    return o
                if rich:
                    A = [("send", ["ret", 41]), ("sendonly", ["ret", 0]), ("send", ["raise", 62])]
                    B = [("send", ["ret", 43]), ("sendonly", ["raise", 64]), ("send", ["nometh"]), ("send", ["ret", 45])]
                else:
                    A = [("send", ["ret", 41])]
                    B = [("send", ["ret", 43]), ("sendonly", ["ret", 0])]
                C = [("send", ["ret", 46]), ("sendonly", ["ret", 0]), ("send", ["raise", 67])]
                T = [[["turn"]] if g else [] for g in gaps]
                prog += batch(A) + T[0] + enter + batch(B) + T[1] + batch(C) + T[2] + settle + batch(A[:1])
                prog += [["turn"], ["turn"], ["turn"]] + batch(B[:1]) + [["turn"], ["turn"], ["turn"]]
                for r in st["results"]:
                    st["w"] += 1
                    prog.append(["when", r, st["w"], "when"])
                prog += [["turn"], ["turn"]]
                out.append(prog)
    return out


def pr_programs(ctx):
    out = pr_send_state_family(ctx) + pr_chain_family(ctx) + pr_args_family(ctx) + pr_deferred_family(ctx) + pr_backlog_family(ctx) + pr_callable_family(ctx) \
        + pr_target_state_family(ctx)
    maxlen = ctx.n(3, 4)
    thorough = ctx.tier == "thorough"
    for n in range(1, maxlen + 1):
        letters = PR_LETTERS_THOROUGH if thorough else PR_LETTERS
        for wd in itertools.product(letters, repeat=n):
            out.append(pr_word(wd))
    if not thorough:
        # quick tier: the missing-method letter N only over a small alphabet (every word of length <= 3 that uses it)
        for n in range(1, 4):
            for wd in itertools.product(PR_NOMETH_CORE, repeat=n):
                if "N" in wd:
                    out.append(pr_word(wd))
    # every word of length 4..5 over the core alphabet that has a resolution, a send, an observer and a turn
    core = "SWVBCvbT"
    for n in sorted(set((4, ctx.n(4, 5)))):
        for wd in itertools.product(core, repeat=n):
            if "T" in wd and "S" in wd and ("V" in wd or "B" in wd or "C" in wd):
                out.append(pr_word(wd))
    for _ in range(ctx.n(900, 60000)):
        out.append(pr_random(ctx.rng))
    return out


# ---------------------------------------------------------------------------------- volume: big batches, exact order
VOL_SIZES = [0, 1, 2, 255, 256, 257, 999, 1000, 1001, 1023, 1024, 1025, 2048, 3000]
ZH_MOD = 2305843009213693951


def zhash(xs):
    h = 0
    for x in xs:
        h = (h * 1000003 + x + 7) & ZH_MOD
    return h


def vol_specs(ctx):
    """(n, [(position, kind)], turns): n callables / messages submitted in one go; the ones at the listed positions
    (1-based) enqueue / send more work while they run (kind 0), and also raise an Exception (1) / a BaseException (2)"""
    specs = []
    # quick tier (CPU budget): sizes up to 2048 and one random size between 1002 and 1500; thorough: up to 3000 + 6 random
    sizes = (VOL_SIZES + [ctx.rng.randrange(3, 3000) for _ in range(6)]) if ctx.tier == "thorough" else \
        ([n for n in VOL_SIZES if n <= 2048] + [ctx.rng.randrange(1002, 1500)])
    for n in sizes:
        bounds = [x for b in (256, 1000, 1024, 2048) for x in (b - 1, b, b + 1) if 1 <= x <= n]
        allpos = sorted(set(([1, (n + 1) // 2, n] if n else []) + bounds))
        sets = [allpos]
        if n >= 1:
            sets.append([1])
        if bounds:
            sets.append(bounds[-3:])
        if ctx.tier == "thorough":
            sets += [[]] + ([[n], [(n + 1) // 2], [1, n]] if n else [])
            for b in (256, 1000, 1024, 2048):
                near = [x for x in (b - 1, b, b + 1) if 1 <= x <= n]
                if near:
                    sets += [near, [1] + near]
        seen = []
        for k, st in enumerate(sets):
            st = sorted(set(st))
            if st in seen:
                continue
            seen.append(st)
            specs.append((n, [(pos, (k + j) % 3) for j, pos in enumerate(st)], 3))
    return specs


def vol_ev_prog(spec):
    n, sp, turns = spec
    d = dict(sp)
    prog = []
    for i in range(1, n + 1):
        if i in d:
            prog.append(["act", ["enq", [i, [["enq", [n + i, [], 0]]], [0, 1, 2][d[i]]]]])
        else:
            prog.append(["act", ["enq", [i, [], 0]]])
    return prog + [["turn"]] * turns


def vol_pr_prog(spec, before):
    """n messages to promise 0: the first `before` while it is unresolved, the rest after; every 97th is a send()"""
    n, sp, turns = spec
    d = dict(sp)
    prog = [["new"]]
    for i in range(1, n + 1):
        if i == before + 1:
            prog.append(["resolve", 0, ["val", 5]])
        beh = ["sendret", 0, n + i, 7] if i in d else ["ret", 3]
        prog.append(["send" if i % 97 == 0 else "sendonly", 0, i, beh])
    if before >= n:
        prog.append(["resolve", 0, ["val", 5]])
    return prog + [["turn"]] * turns


VOL_COQ = """
Definition zhash (l : list Z) : Z := fold_left (fun h x => Z.land (h * 1000003 + x + 7) 2305843009213693951)%Z l 0%Z.
Definition lookup (sp : list (Z * Z)) (i : Z) : option Z :=
  match find (fun x => Z.eqb (fst x) i) sp with Some x => Some (snd x) | None => None end.
Definition digest (r : list Z * list Z) : Z * Z * list Z :=
  (Z.of_nat (List.length (fst r)), zhash (fst r), if Nat.leb (List.length (snd r)) 8 then snd r else [zhash (snd r)]).
"""

VOL_EV_COQ = VOL_COQ + """
Definition vol_sc (n : Z) (sp : list (Z * Z)) (i : Z) : script :=
  match lookup sp i with
  | Some k => Sc i [AEnq (Sc (n + i) [] RNo)] (if Z.eqb k 0 then RNo else if Z.eqb k 1 then RExc else RBase)
  | None => Sc i [] RNo
  end.
Definition vol_prog (c : Z * list (Z * Z) * nat) : list op :=
  let '(n, sp, turns) := c in
  map (fun i => OAct (AEnq (vol_sc n sp (Z.of_nat i)))) (List.seq 1 (Z.to_nat n)) ++ repeat OTurn turns.
"""

VOL_PR_COQ = VOL_COQ + """
Definition vol_msg (n before : Z) (sp : list (Z * Z)) (i : Z) : list pop :=
  (if Z.eqb i (before + 1) then [PResolve 0 (RVal 5)] else []) ++
  [let b := match lookup sp i with Some _ => BSendRet 0 (n + i) 7 | None => BRet 3 end in
   if Z.eqb (i mod 97) 0 then PSend 0 i b else PSendOnly 0 i b].
Definition vol_prog (c : Z * Z * list (Z * Z) * nat) : list pop :=
  let '(n, before, sp, turns) := c in
  [PNew] ++ flat_map (fun i => vol_msg n before sp (Z.of_nat i)) (List.seq 1 (Z.to_nat n)) ++
  (if Z.leb n before then [PResolve 0 (RVal 5)] else []) ++ repeat PTurn turns.
"""


def volume(ctx, impl, model_ok):
    specs = vol_specs(ctx)
    # ---- eventual queue
    evr = []
    with impl.E.quiet():
        for spec in specs:
            p = vol_ev_prog(spec)
            r = impl.run_ev(p)
            evr.append(r)
            for sig, text in r["viol"]:
                ctx.fail(sig, "%s; program %s" % (text, short(p)), replay=dict(kind="ev", program=p))
            ctx.case(["ev-volume", list(spec)], nontrivial=r["nrun"] > 0)
            ctx.hist("volume_ev_batch", spec[0])
    # ---- promises: all before the resolution / all after / split at the middle and around 1000
    prs, prr = [], []
    with impl.E.quiet():
        for spec in specs:
            n = spec[0]
            if n > 1025 and ctx.tier != "thorough":
                continue            # CPU budget of the quick tier: the promise volume cases stop at 1025 messages
            choices = sorted(set([0, n, n // 2]))
            if ctx.tier != "thorough":
                choices = [choices[(len(prs) + n) % len(choices)]]
            for before in choices:
                p = vol_pr_prog(spec, before)
                r = impl.run_pr(p)
                prs.append((spec, before))
                prr.append(r)
                for sig, text in r["viol"]:
                    ctx.fail(sig, "%s; program %s" % (text, short(p)), replay=dict(kind="pr", program=p))
                ctx.case(["pr-volume", list(spec), before], nontrivial=r["ndeliv"] > 0)
                ctx.hist("volume_pr_messages", n)
    ctx.extra["volume_ev_programs"] = len(specs)
    ctx.extra["volume_pr_programs"] = len(prs)
    ctx.extra["volume_max_batch"] = max(s[0] for s in specs)
    if not model_ok:
        return

    def coq_sp(sp):
        return coq_list(sp, lambda x: "(%d, %d)%%Z" % x)

    def compare(kind, name, body, requires, cases, results):
        try:
            (vals,) = ctx.coq_eval(name, body, requires=requires)
        except common.CoqEvalError as e:
            ctx.fail("correspondence-broken", "the %s volume model could not be evaluated: %s" % (kind, str(e)[-1500:]), has_input=False)
            return
        for c, r, v in zip(cases, results, vals):
            ctx.traces += 1
            st = r["state"] if len(r["state"]) <= 8 else [zhash(r["state"])]
            mine = (len(r["trace"]), zhash(r["trace"]), st)
            theirs = (v[0], v[1], list(v[2]))
            if mine != theirs:
                ctx.fail("correspondence/%s-volume" % kind, "model and implementation disagree on the volume case %r: (trace length, "
                         "trace hash, state) model %r, implementation %r" % (c, theirs, mine), replay=dict(kind=kind, case=c), has_input=False)
    K = 40
    for k in range(0, len(specs), K):
        chunk = specs[k:k + K]
        body = VOL_EV_COQ + "Definition cases := %s.\nEval vm_compute in map (fun c => digest (run_enc (vol_prog c))) cases.\n" % \
            coq_list(chunk, lambda s: "(%d%%Z, %s, %d%%nat)" % (s[0], coq_sp(s[1]), s[2]))
        compare("ev", "C17_vol_ev_%d" % (k // K), body, REQ_EV, chunk, evr[k:k + K])
    for k in range(0, len(prs), K):
        chunk = prs[k:k + K]
        body = VOL_PR_COQ + "Definition cases := %s.\nEval vm_compute in map (fun c => digest (prun_enc (vol_prog c))) cases.\n" % \
            coq_list(chunk, lambda c: "(%d%%Z, %d%%Z, %s, %d%%nat)" % (c[0][0], c[1], coq_sp(c[0][1]), c[0][2]))
        compare("pr", "C17_vol_pr_%d" % (k // K), body, REQ_PR, chunk, prr[k:k + K])
