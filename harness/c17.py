"""C17 -- eventual-sends and Promises deliver in order, exactly once, never synchronously."""
import itertools, json, os
from harness import common
from harness.common import coq_list

REQ_EV = ["Verif.gen.EventualGen", "Verif.lib.Eventual"]
REQ_PR = ["Verif.gen.EventualGen", "Verif.lib.Promise"]
SHARD = 500


def run(ctx):
    ctx.rule = ("programs over {eventually(script), fireEventually, flushEventualQueue, one reactor call} with scripts that "
                "enqueue further scripts, call flush and/or raise; programs over {makePromise, send, sendOnly, when/_then/"
                "_except, resolve with value / promise / Failure, one reactor call} with methods that return, raise or "
                "return a promise; all words up to a length over a template alphabet plus seeded random longer ones; "
                "a case is non-trivial when at least one callable ran / one message was delivered or one observer fired")
    ctx.assumptions = [
        "Twisted's Deferred (callback/addCallback/succeed/fail/maybeDeferred) and task.Clock are used as they are; the "
        "reactor is modelled as a single pending call of _turn, run on request",
        "log.err() in _turn is modelled as 'the exception is swallowed'",
        "the Promise model shares the FIFO discipline proved for the queue model (one reactor turn = run the tasks "
        "queued at its start, in order); promise.py's calls of eventually() are modelled as appends to that FIFO",
        "method results that are Deferreds are not generated (values, raised exceptions and promises are)",
        "measured, not proved: Promise._resolve2 is never entered on a promise that is already NEAR/BROKEN (the model "
        "records such an entry as a crash that leaves the promise alone); checked on every generated program",
        "the global exactly-once/in-order accounting of promise messages is proved only as three local facts "
        "(C17_pr_*_partial); the global statement is evaluated directly on the code (oracle/delivery-order)",
        "flush observers' callbacks are modelled as 'enqueue these scripts'; callbacks that themselves call "
        "flushEventualQueue() are not generated"]
    ok, log = ctx.coq_build(["props/C17.vo"])
    from harness import c17_impl as impl
    before = len(ctx.failures)
    model_ok = ok
    if not ok:
        ok2, _ = ctx.coq_build(["lib/Eventual.vo", "lib/Promise.vo"])
        model_ok = ok2

    # ---- corpus (regression witnesses of D10 / D11) first
    cdir = os.path.join(common.VERIF, "corpus", "C17")
    ev_cases, pr_cases = [], []
    if os.path.isdir(cdir):
        for fn in sorted(os.listdir(cdir)):
            if fn.endswith(".json"):
                c = json.load(open(os.path.join(cdir, fn)))
                (ev_cases if c["kind"] == "ev" else pr_cases).append((fn, c["program"]))
    ctx.extra["corpus_cases"] = len(ev_cases) + len(pr_cases)

    # ---- eventual-send queue
    progs = [p for _, p in ev_cases] + ev_programs(ctx)
    results = []
    with impl.E.quiet():
        for p in progs:
            r = impl.run_ev(p)
            results.append(r)
            for sig, text in r["viol"]:
                ctx.fail(sig, "%s; program %s" % (text, json.dumps(p)), replay=dict(kind="ev", program=p, trace=r["full"]))
            ctx.case(["ev", p], nontrivial=r["nrun"] > 0)
            ctx.hist("ev_program_length", len(p))
            ctx.hist("ev_callables_run", min(r["nrun"], 10))
            ctx.hist("ev_raising_callables", min(r["raised"], 5))
            ctx.hist("ev_reentrant_submissions", min(r["reentrant"], 5))
    ctx.sample(dict(kind="ev", program=progs[len(progs) // 2], trace=results[len(progs) // 2]["full"]))
    ctx.sample(dict(kind="ev", program=progs[-1], trace=results[-1]["full"]))
    if model_ok:
        correspond(ctx, "ev", progs, results, impl.coq_evprog, "run_enc", REQ_EV)

    # ---- promises
    if hasattr(impl, "run_pr"):
        pprogs = [p for _, p in pr_cases] + pr_programs(ctx)
        presults = []
        with impl.E.quiet():
            for p in pprogs:
                r = impl.run_pr(p)
                presults.append(r)
                for sig, text in r["viol"]:
                    ctx.fail(sig, "%s; program %s" % (text, json.dumps(p)), replay=dict(kind="pr", program=p, trace=r["full"]))
                ctx.case(["pr", p], nontrivial=r["ndeliv"] + r["nobs"] > 0)
                ctx.hist("pr_program_length", len(p))
                ctx.hist("pr_deliveries", min(r["ndeliv"], 10))
                ctx.hist("pr_observations", min(r["nobs"], 10))
                ctx.hist("pr_refused", min(r["nrefused"], 5))
                ctx.hist("pr_chained", min(r["nchained"], 5))
        ctx.sample(dict(kind="pr", program=pprogs[len(pprogs) // 2], trace=presults[len(pprogs) // 2]["full"]))
        ctx.sample(dict(kind="pr", program=pprogs[-1], trace=presults[-1]["full"]))
        if model_ok:
            correspond(ctx, "pr", pprogs, presults, impl.coq_prprog, "prun_enc", REQ_PR)
        impl.observer_list_oracle(ctx)
        impl.flush_observer_oracle(ctx)

    if not ok and len(ctx.failures) == before:
        ctx.fail("proof-broken", "theorem closure props/C17.vo no longer builds against the regenerated gen/EventualGen.v:\n"
                 + log[-2500:], replay=dict(log=log[-6000:]), has_input=False)
    elif not ok:
        ctx.note("proof broken AND a failing input was found (reported above)")


# ---------------------------------------------------------------------------------- correspondence
def correspond(ctx, kind, progs, results, to_coq, fn, requires):
    nbad = 0
    for k in range(0, len(progs), SHARD):
        chunk = progs[k:k + SHARD]
        body = "\nDefinition cases := %s.\nEval vm_compute in map %s cases.\n" % (coq_list(chunk, to_coq), fn)
        try:
            (vals,) = ctx.coq_eval("C17_%s_%d" % (kind, k // SHARD), body, requires=requires)
        except common.CoqEvalError as e:
            ctx.fail("correspondence-broken", "the %s model could not be evaluated: %s" % (kind, str(e)[-1500:]), has_input=False)
            return
        if len(vals) != len(chunk):
            ctx.fail("correspondence-broken", "expected %d model results, got %d" % (len(chunk), len(vals)), has_input=False)
            return
        for p, r, v in zip(chunk, results[k:k + SHARD], vals):
            ctx.traces += 1
            mt, ms = list(v[0]), list(v[1])
            if kind == "pr":
                from harness import c17_impl as impl
                mt = impl.filter_model_trace(mt, r["kinds"])
            if mt != r["trace"] or ms != r["state"]:
                nbad += 1
                ctx.fail("correspondence/%s" % kind,
                         "model and implementation disagree on program %s: model trace %r state %r, implementation trace %r state %r"
                         % (json.dumps(p), mt, ms, r["trace"], r["state"]),
                         replay=dict(kind=kind, program=p, model=[mt, ms], impl=[r["trace"], r["state"]]), has_input=False)
    ctx.extra["correspondence_%s_cases" % kind] = len(progs)
    ctx.extra["correspondence_%s_disagreements" % kind] = nbad


# ---------------------------------------------------------------------------------- generators (eventual)
class Ids:
    def __init__(self):
        self.n = 0

    def __call__(self):
        self.n += 1
        return self.n


EV_LETTERS = "NRBQFTLXVK"


def ev_letter(ch, ids):
    """template alphabet -> op with fresh ids"""
    if ch == "N":
        return ["act", ["enq", [ids(), [], False]]]                                   # plain callable
    if ch == "R":
        return ["act", ["enq", [ids(), [], 1]]]                                       # callable raising an Exception
    if ch == "B":
        i = ids()
        return ["act", ["enq", [i, [], 2 + i % 4]]]                                   # ... SystemExit / KeyboardInterrupt / GeneratorExit / BaseException subclass
    if ch == "Q":
        return ["act", ["enq", [ids(), [["enq", [ids(), [], False]]], False]]]        # enqueues more work
    if ch == "F":
        return ["act", ["enq", [ids(), [["flush", ids()]], False]]]                   # calls flush from inside (D11)
    if ch == "X":
        i = ids()
        return ["act", ["enq", [i, [["enq", [ids(), [["flush", ids()]], True]], ["flush", ids()]], True]]]  # all of it, raises
    if ch == "V":
        return ["act", ["fire", ids()]]
    if ch == "T":
        return ["turn"]
    if ch == "L":
        return ["act", ["flush", ids()]]
    if ch == "K":
        return ["act", ["flush", ids(), [[ids(), [], False]]]]                        # flush whose callback enqueues work
    raise ValueError(ch)


def ev_word(w):
    ids = Ids()
    return [ev_letter(ch, ids) for ch in w]


def rand_script(rng, ids, depth):
    acts = []
    for _ in range(rng.choice([0, 0, 1, 1, 2, 3])):
        k = rng.random()
        if k < 0.5 and depth > 0:
            acts.append(["enq", rand_script(rng, ids, depth - 1)])
        elif k < 0.65:
            acts.append(["fire", ids()])
        elif k < 0.9:
            acts.append(["flush", ids()] + ([[rand_script(rng, ids, 0)]] if rng.random() < 0.4 else []))
        else:
            acts.append(["enq", [ids(), [], rng.choice([0, 0, 1, 2, 5])]])
    return [ids(), acts, rng.choice([0, 0, 0, 0, 0, 1, 1, 2, 3, 4, 5])]


def ev_raise_family(ctx):
    """one batch of n callables, the one at position pos raises (every kind, every position); the others are plain,
    enqueue more work, call flush or raise an ordinary Exception; optionally a flush is outstanding and a second batch
    follows"""
    out = []
    for n in range(1, ctx.n(4, 6) + 1):
        for pos in range(n):
            for kind in (1, 2, 3, 4, 5):
                for flavour in range(4):
                    ids = Ids()
                    prog = []
                    if flavour == 2:
                        prog.append(["act", ["flush", ids()]])
                    for k in range(n):
                        if k == pos:
                            acts = [["enq", [ids(), [], 0]]] if flavour == 1 else []
                            prog.append(["act", ["enq", [ids(), acts, kind]]])
                        elif flavour == 1:
                            prog.append(["act", ["enq", [ids(), [["enq", [ids(), [], 0]]], 0]]])
                        elif flavour == 2:
                            prog.append(["act", ["enq", [ids(), [["flush", ids()]], 0]]])
                        elif flavour == 3:
                            prog.append(["act", ["enq", [ids(), [], 1 if k % 2 else 0]]])
                        else:
                            prog.append(["act", ["enq", [ids(), [], 0]]])
                    prog.append(["turn"])
                    if flavour in (1, 2):
                        prog += [["act", ["flush", ids()]], ["act", ["enq", [ids(), [], 0]]], ["turn"]]
                    out.append(prog)
    return out


def ev_programs(ctx):
    out = ev_raise_family(ctx)
    maxlen = ctx.n(4, 5)
    letters = EV_LETTERS if ctx.tier == "thorough" else "NRBQFTLK"
    for n in range(1, maxlen + 1):
        for w in itertools.product(letters, repeat=n):
            if "T" not in w and n > 2:
                continue            # without a turn nothing runs: keep only the short ones
            out.append(ev_word(w))
    for _ in range(ctx.n(600, 30000)):
        ids = Ids()
        prog = []
        for _ in range(ctx.rng.randint(2, 14)):
            k = ctx.rng.random()
            if k < 0.35:
                prog.append(["turn"])
            elif k < 0.5:
                prog.append(["act", ["flush", ids()] + ([[rand_script(ctx.rng, ids, 1)]] if ctx.rng.random() < 0.5 else [])])
            elif k < 0.58:
                prog.append(["act", ["fire", ids()]])
            else:
                prog.append(["act", ["enq", rand_script(ctx.rng, ids, 3)]])
        out.append(prog)
    return out


PR_LETTERS = "SsOWXEVBCvbTRZz"


def pr_letter(ch, st):
    """st: dict(n=number of promises so far, mid=.., w=..)"""
    def mid():
        st["mid"] += 1
        return st["mid"]

    def w():
        st["w"] += 1
        return st["w"]
    last = st["n"] - 1
    if ch == "S":
        st["n"] += 1
        return ["send", 0, mid(), ["ret", 10 + st["mid"]]]
    if ch == "s":
        st["n"] += 1
        return ["send", 1, mid(), ["raise", 20 + st["mid"]]]
    if ch == "R":
        st["n"] += 1
        return ["send", 0, mid(), ["retp", 1]]
    if ch == "Z":
        st["n"] += 1
        return ["send", last, mid(), ["ret", 30 + st["mid"]]]
    if ch == "z":
        return ["when", last, w(), "when"]
    if ch == "O":
        return ["sendonly", 0, mid(), ["ret", 0]]
    if ch == "W":
        return ["when", 0, w(), "when"]
    if ch == "X":
        return ["when", 0, w(), "then"]
    if ch == "E":
        return ["when", 1, w(), "except"]
    if ch == "V":
        return ["resolve", 0, ["val", 5]]
    if ch == "B":
        return ["resolve", 0, ["fail", 6]]
    if ch == "C":
        return ["resolve", 0, ["prom", 1]]
    if ch == "v":
        return ["resolve", 1, ["val", 7]]
    if ch == "b":
        return ["resolve", 1, ["fail", 8]]
    if ch == "T":
        return ["turn"]
    raise ValueError(ch)


def pr_word(w):
    st = dict(n=2, mid=0, w=100)
    return [["new"], ["new"]] + [pr_letter(ch, st) for ch in w]


def pr_random(rng):
    prog = []
    n = 0
    mid = 0
    w = 100
    for _ in range(rng.randint(1, 3)):
        prog.append(["new"])
        n += 1
    for _ in range(rng.randint(3, 18)):
        k = rng.random()
        p = rng.randrange(n) if rng.random() < 0.7 else n - 1
        if k < 0.25:
            prog.append(["turn"])
        elif k < 0.45:
            mid += 1
            b = rng.choice([["ret", mid + 40], ["ret", mid + 40], ["raise", mid + 60], ["retp", rng.randrange(n + 1)]])
            if rng.random() < 0.75:
                prog.append(["send", p, mid, b])
                n += 1
            else:
                prog.append(["sendonly", p, mid, b])
        elif k < 0.65:
            w += 1
            prog.append(["when", p, w, rng.choice(["when", "when", "then", "except"])])
        elif k < 0.93:
            x = rng.choice([["val", rng.randrange(1, 9)], ["fail", rng.randrange(1, 9)], ["prom", rng.randrange(n)],
                            ["prom", rng.randrange(n)]])
            prog.append(["resolve", p, x])
        else:
            prog.append(["new"])
            n += 1
    for _ in range(rng.choice([0, 0, 1, 2, 4])):
        prog.append(["turn"])
    return prog


def pr_chain_family(ctx):
    """p0 -> p1 -> ... -> ph (1..3 hops of resolve-with-an-unresolved-promise, performed in every order), ph finally
    resolved with a value or a Failure; a send/sendOnly to p0 (thorough: also to the inner promises) in every subset of
    the gaps between those steps; no turns / a turn in every gap / a turn in some gaps.  Send order must be delivery order."""
    out = []
    thorough = ctx.tier == "thorough"
    for h in (1, 2, 3):
        steps = [["resolve", i, ["prom", i + 1]] for i in range(h)]
        finals = [["resolve", h, ["val", 5]]] + ([["resolve", h, ["fail", 6]]] if thorough or h < 3 else [])
        for final in finals:
            for order in itertools.permutations(steps + [final]):
                nslots = len(order) + 1
                for mask in range(1, 2 ** nslots):
                    if bin(mask).count("1") < 2 and not thorough:
                        continue
                    for turns in (0, 1, 2):
                        if turns == 2:
                            tm = ctx.rng.randrange(1, 2 ** nslots)
                        else:
                            tm = 0 if turns == 0 else 2 ** nslots - 1
                        if h == 3 and not thorough and turns == 1 and mask % 3:
                            continue
                        prog = [["new"] for _ in range(h + 1)]
                        mid = 0
                        for slot in range(nslots):
                            if mask >> slot & 1:
                                mid += 1
                                tgt = 0
                                if thorough and ctx.rng.random() < 0.25:
                                    tgt = ctx.rng.randrange(h + 1)
                                if mid % 2:
                                    prog.append(["send", tgt, mid, ["ret", 40 + mid]])
                                else:
                                    prog.append(["sendonly", tgt, mid, ["ret", 40 + mid]])
                                if ctx.rng.random() < 0.3:
                                    mid += 1
                                    prog.append(["sendonly", tgt, mid, ["raise", 60 + mid]])
                            if tm >> slot & 1:
                                prog.append(["turn"])
                            if slot < len(order):
                                prog.append(order[slot])
                        out.append(prog)
    return out


def pr_programs(ctx):
    out = pr_chain_family(ctx)
    maxlen = ctx.n(3, 4)
    for n in range(1, maxlen + 1):
        for wd in itertools.product(PR_LETTERS, repeat=n):
            out.append(pr_word(wd))
    # every word of length 4..5 over the core alphabet that has a resolution, a send, an observer and a turn
    core = "SWVBCvbT"
    for n in sorted(set((4, ctx.n(4, 5)))):
        for wd in itertools.product(core, repeat=n):
            if "T" in wd and "S" in wd and ("V" in wd or "B" in wd or "C" in wd):
                out.append(pr_word(wd))
    for _ in range(ctx.n(1500, 60000)):
        out.append(pr_random(ctx.rng))
    return out
