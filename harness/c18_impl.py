"""C18: drivers of the real foolscap logging code (FoolscapLogger, IncidentReporter, Subscription, flogfile,
LogFileObserver, dumper) under the virtual clock; value-spec language for hostile event arguments."""
import io, json, os, re, shutil, sys, weakref
from twisted.internet import defer
from twisted.python import failure
from harness import implenv as E
from foolscap.logging import log, flogfile, incident, publish, dumper

SCRATCH = os.path.join(os.path.dirname(os.path.dirname(os.path.abspath(__file__))), "_build", "C18")

FACS = {0: None, 1: "foolscap/internal-error", 2: "fac/a", 3: "fac/b", 4: 7}
FAC_ID = {v: k for k, v in FACS.items()}


# ------------------------------------------------------------------ hostile values
class BadRepr(object):
    def __repr__(self):
        raise RuntimeError("no repr")


class BadStr(object):
    def __str__(self):
        raise RuntimeError("no str")

    def __repr__(self):
        return "<BadStr>"


class BadBoth(object):
    def __str__(self):
        raise RuntimeError("no str")
    __repr__ = __str__


class Plain(object):
    def __repr__(self):
        return "<Plain>"


def build(spec):
    """value spec (json-able) -> python object"""
    k = spec[0]
    if k in ("int", "str", "float", "bool"):
        return spec[1]
    if k == "none":
        return None
    if k == "bytes":
        return spec[1].encode("latin-1")
    if k == "list":
        return [build(x) for x in spec[1]]
    if k == "tuple":
        return tuple(build(x) for x in spec[1])
    if k == "set":
        return set(build(x) for x in spec[1])
    if k == "dict":
        return {build(a): build(b) for a, b in spec[1]}
    if k == "badrepr":
        return BadRepr()
    if k == "badstr":
        return BadStr()
    if k == "badboth":
        return BadBoth()
    if k == "obj":
        return Plain()
    if k == "nan":
        return float("nan")
    if k == "hugeint":
        return 10 ** spec[1]
    if k == "cyclist":
        l = [1]
        l.append(l)
        return l
    if k == "cycdict":
        d = {"a": 1}
        d["self"] = d
        return d
    if k == "deep":
        l = []
        for i in range(spec[1]):
            l = [l]
        return l
    if k == "failure":
        try:
            raise ValueError("boom")
        except ValueError:
            return failure.Failure()
    raise ValueError("unknown value spec %r" % (spec,))


def native(spec):
    """survives a JSON round trip unchanged (so that the rendered message must be equal after read-back)"""
    k = spec[0]
    if k in ("int", "str", "bool", "none"):
        return True
    if k == "float":
        return spec[1] == spec[1]
    if k == "list":
        return all(native(x) for x in spec[1])
    if k == "dict":
        return all(a[0] == "str" and native(b) for a, b in spec[1])
    return False


def has_badrepr(spec):
    k = spec[0]
    if k in ("badrepr", "badboth"):
        return True
    if k in ("list", "tuple", "set"):
        return any(has_badrepr(x) for x in spec[1])
    if k == "dict":
        return any(has_badrepr(a) or has_badrepr(b) for a, b in spec[1])
    return False


LEAVES_OK = [["int", 5], ["int", -2 ** 70], ["str", "text"], ["str", u"\u00e9\u4e2d"], ["none"], ["bool", True], ["float", 1.5],
             ["bytes", "ab\xff"], ["obj"], ["badrepr"], ["badstr"], ["nan"], ["failure"], ["set", [["int", 1]]],
             ["tuple", [["int", 1], ["str", "t"]]], ["dict", [[["int", 1], ["int", 2]]]], ["str", u"\ud800"], ["deep", 200]]
# json.dumps does not consult default= for these (D12-json, repaired by f18c38a: must be encodable now)
LEAVES_ODD = [["dict", [[["tuple", [["int", 1], ["int", 2]]], ["int", 3]]]], ["cyclist"], ["cycdict"],
              ["dict", [[["bytes", "k"], ["int", 1]]]], ["dict", [[["badrepr"], ["int", 1]]]],
              ["dict", [[["obj"], ["list", [["cyclist"]]]]]]]
# still not encodable on the current tree (findings): RecursionError / int digit limit
LEAVES_BAD = [["deep", 3000], ["hugeint", 5000]]


def gen_value(rng, family, depth=0):
    """random nested value; family 'ok' | 'odd' | 'bad': the latter two plant exactly one leaf of that family"""
    if family == "ok":
        r = rng.random()
        if depth < 3 and r < 0.35:
            return ["list", [gen_value(rng, "ok", depth + 1) for i in range(rng.randint(0, 3))]]
        if depth < 3 and r < 0.6:
            return ["dict", [[["str", "k%d" % i], gen_value(rng, "ok", depth + 1)] for i in range(rng.randint(0, 3))]]
        return rng.choice(LEAVES_OK)
    r = rng.random()
    if depth < 3 and r < 0.3:
        xs = [gen_value(rng, "ok", depth + 1) for i in range(rng.randint(0, 2))]
        xs.insert(rng.randint(0, len(xs)), gen_value(rng, family, depth + 1))
        return ["list", xs]
    if depth < 3 and r < 0.55:
        kv = [[["str", "k%d" % i], gen_value(rng, "ok", depth + 1)] for i in range(rng.randint(0, 2))]
        kv.append([["str", "hostile"], gen_value(rng, family, depth + 1)])
        return ["dict", kv]
    return rng.choice(LEAVES_ODD if family == "odd" else LEAVES_BAD)


def bad_kind(spec):
    """which kind of unencodable leaf a spec contains (for the finding's signature)"""
    k = spec[0]
    if k == "deep" and spec[1] > 900:
        return "deep-nesting"
    if k == "hugeint" and spec[1] >= 4300:
        return "huge-int"
    if k in ("list", "tuple", "set"):
        for x in spec[1]:
            if bad_kind(x):
                return bad_kind(x)
    if k == "dict":
        for a_, b_ in spec[1]:
            if bad_kind(a_) or bad_kind(b_):
                return bad_kind(a_) or bad_kind(b_)
    return None


def repr_ok(kwargs, args=()):
    try:
        "%r %r" % (args, kwargs)
        return True
    except Exception:
        return False


# ------------------------------------------------------------------ environment
def fresh_dir(name):
    d = os.path.join(SCRATCH, name)
    shutil.rmtree(d, ignore_errors=True)
    os.makedirs(d)
    return d


def setup_clock():
    E.reset_clock()
    incident.reactor = E.clock          # IncidentReporter's trailing timer runs on the virtual clock
    del E.logged_errors[:]


def json_ok(ev):
    """serialize_wrapper produces a line for this event (the property needs this for EVERY event)"""
    try:
        flogfile.serialize_wrapper(io.BytesIO(), ev, from_="x", rx_time=0.0)
        return True
    except Exception:
        return False


def plain_ok(ev):
    """the model's e_ok: the first-stage encoding json.dumps(.., cls=ExtendedEncoder) succeeds"""
    try:
        json.dumps({"from": "x", "rx_time": 0.0, "d": ev}, cls=flogfile.ExtendedEncoder)
        return True
    except Exception:
        return False


def ev_id(ev):
    """identity of an event: the cid kwarg, or -cid-1 for the internal-error fallback built from it"""
    if "cid" in ev:
        return ev["cid"]
    m = re.search(r"'cid': (\d+)", str(ev.get("message", "")))
    if m and str(ev.get("message", "")).startswith("internal error in log._msg"):
        return -int(m.group(1)) - 1
    return None


def fac_id(f):
    try:
        return FAC_ID.get(f, 99)
    except TypeError:
        return 99


# ------------------------------------------------------------------ event numbers of any kind (log.msg(num=ANYTHING))
class NumObj(object):
    """an application object passed as num=: not an int, isinstance works, not JSON-encodable"""
    def __repr__(self):
        return "<NumObj>"


class NumEvilClass(object):
    """isinstance(x, int) ITSELF raises on this object (its __class__ attribute is a property that raises)"""
    @property
    def __class__(self):
        raise RuntimeError("no __class__ for you")

    def __repr__(self):
        return "<NumEvilClass>"


class NumIntSub(int):
    """an int subclass (isinstance holds) whose ordering raises"""
    def __lt__(self, other):
        raise RuntimeError("NumIntSub.__lt__")
    __gt__ = __le__ = __ge__ = __lt__


# kind name -> (builder, model kind, code).  The code stands for the object in every view / return value the harness
# compares with the model (e_num of a NumOdd / NumHostile event is exactly this identity tag).
NUM_KINDS = {
    "str": (lambda: "x", "NumOdd", -7000001),
    "none": (lambda: None, "NumOdd", -7000002),
    "float": (lambda: 1.5, "NumOdd", -7000003),
    "list": (lambda: [1], "NumOdd", -7000004),
    "obj": (NumObj, "NumOdd", -7000005),
    "evilclass": (NumEvilClass, "NumHostile", -7000006),
    "intsub": (lambda: NumIntSub(5), None, -7000007),        # outside the model's three kinds (oracle only)
}
NUM_NATIVE = ["str", "none", "float"]        # JSON scalars: the number itself reads back unchanged from every stage (a list is replaced by the last-resort stage)
_NOTHING = object()


def build_num(spec):
    """op[1] of a msg op: None (the logger numbers the event), an int, or ["odd", kind]"""
    if isinstance(spec, (list, tuple)):
        return NUM_KINDS[spec[1]][0]()
    return spec


def numcode(v, default=None):
    """canonical integer for an event number of any kind (also after a JSON round trip)"""
    if type(v) is int:
        return v
    if v is None:
        return default if default is not None else NUM_KINDS["none"][2]
    if isinstance(v, NumEvilClass) or type(v) is NumEvilClass:
        return NUM_KINDS["evilclass"][2]
    if type(v) is NumIntSub:
        return NUM_KINDS["intsub"][2]
    if v == "x":
        return NUM_KINDS["str"][2]
    if type(v) is float and v == 1.5:
        return NUM_KINDS["float"][2]
    if v == [1]:
        return NUM_KINDS["list"][2]
    if isinstance(v, NumObj) or (isinstance(v, dict) and v.get("repr") == "<NumObj>") or v == "<NumObj>":
        return NUM_KINDS["obj"][2]
    if isinstance(v, dict) and v.get("repr") == "<NumEvilClass>":
        return NUM_KINDS["evilclass"][2]
    if isinstance(v, int):          # bool, other int subclasses
        return int(v)
    return -7999999


def view(ev):
    if not isinstance(ev, dict):       # an event that was read back as something else (a replacement text)
        return [None, None]
    if "num" not in ev:
        return [None, ev_id(ev)]
    return [numcode(ev["num"]), ev_id(ev)]


class RaisingQualifier(incident.IncidentQualifier):
    def check_event(self, ev):
        if ev['level'] >= log.WEIRD:
            raise RuntimeError("qualifier fault")
        return False


from zope.interface import implementer as _implementer
from foolscap.logging.interfaces import IIncidentReporter as _IIR


@_implementer(_IIR)
class RaisingReporter(incident.IncidentReporter):
    def incident_declared(self, triggering_event):
        raise RuntimeError("reporter fault")


# how many trailing events a reporter had left when it stopped, keyed by (logger, trigger number): recorded by wrapping
# IncidentReporter.stop_recording (the wrapper only records and calls the original)
STOPPED_WITH = {}
_orig_stop_recording = incident.IncidentReporter.stop_recording


def _trig_num(ir):
    t = getattr(ir, "trigger", None) or {}
    return numcode(t["num"]) if "num" in t else None


def _recording_stop(self):
    STOPPED_WITH[(id(self.logger), _trig_num(self))] = getattr(self, "remaining_events", None)
    return _orig_stop_recording(self)


incident.IncidentReporter.stop_recording = _recording_stop


class LoggerRig(object):
    """a FoolscapLogger with logdir/reporter configured as the model's cfg says; records what happened"""

    def __init__(self, name, qual, trailing, logfile=False, factory=None):
        setup_clock()
        self.dir = fresh_dir(name)
        self.L = log.FoolscapLogger()
        self.emitted = {}           # (num, id) -> the event dict as handed to observers
        self.order = []
        self.at_emission = {}
        self.n_timer_iters = 0
        self.batch_idx = 0
        self.react = None
        self.reaction_result = []
        self.L.addImmediateObserver(self._saw)
        self.L.addObserver(self._app_observer)
        self.incdir = os.path.join(self.dir, "incidents")
        if factory is None:
            factory = incident.IncidentReporter if trailing else incident.NonTrailingIncidentReporter
        self.L.setIncidentReporterFactory(factory)
        if qual:
            self.L.setLogDir(self.incdir)
        else:
            os.makedirs(self.incdir)
        self.published = []
        self.contents = {}
        self.fault = None
        self.factory = factory
        self.recorded_cb = []
        self.L.addImmediateIncidentObserver(lambda name, trigger: self.recorded_cb.append(name))
        self.lfo = None
        if logfile:
            self.lfo_path = os.path.join(self.dir, "all.flog")
            self.lfo = log.LogFileObserver(self.lfo_path, level=0)
            self.L.addObserver(self.lfo.msg)

    def _saw(self, ev):
        self.emitted[(numcode(ev.get("num")), ev_id(ev))] = ev
        self.order.append(ev)
        L = self.L
        ir = L.get_active_incident_reporter()
        subscribed = any(getattr(o, "__name__", "") == "trailing_event" for o in L._observers)
        # (never keep a strong reference to a reporter: the logger tracks the active one through a weakref)
        self.at_emission[id(ev)] = dict(reporter=(weakref.ref(ir) if ir is not None else None), subscribed=subscribed,
                                        trigger_num=_trig_num(ir) if ir is not None else None,
                                        phase=("none" if ir is None else
                                               "recording" if getattr(ir, "still_recording", True) else "stopped-but-active"))

    def _app_observer(self, ev):
        """an application observer (registered before any reporter): reacts to the k-th event of this batch that was
        emitted while a reporter was subscribed, by making one more call from inside the eventual-send batch"""
        if not self.at_emission.get(id(ev), {}).get("subscribed"):
            return
        k = self.batch_idx
        self.batch_idx += 1
        if self.react is not None and self.react[0] == k:
            op = self.react[1]
            self.react = None
            self.reaction_result.append(do_call(self, op))

    def iteration(self, it):
        """one reactor iteration of the fine-grained model -> list of (ret, exc, reprok) per call (reaction last)"""
        out = []
        self.batch_idx = 0
        self.reaction_result = []
        if it[0] == "calls":
            for o in it[1]:
                out.append(do_call(self, o))
            self.react = tuple(it[2]) if it[2] is not None else None
            self.turn()
            self.react = None
            out += self.reaction_result
        else:
            delay = incident.IncidentReporter.TRAILING_DELAY
            res_b, res_a = [], []
            # "before" calls run a little earlier each iteration, so that the timer of a reporter they start fires
            # BETWEEN the before- and the after-calls of the next timer iteration (as every other reporter's does)
            self.n_timer_iters += 1
            if it[1]:
                E.clock.callLater(delay - 0.001 * self.n_timer_iters, lambda: res_b.extend(do_call(self, o) for o in it[1]))
            if it[2]:
                E.clock.callLater(delay, lambda: res_a.extend(do_call(self, o) for o in it[2]))
            E.clock.advance(delay)
            self.turn()
            out = res_b + res_a
        return out

    def turn(self):
        E.turn()
        if not os.path.isdir(self.incdir):
            return
        # several incidents may be published in one turn: keep the order in which they were recorded
        rec = [os.path.basename(x) for x in self.L.recent_recorded_incidents]
        now = sorted((f for f in os.listdir(self.incdir) if f.endswith(".flog.bz2")),
                     key=lambda f: (rec.index(f) if f in rec else len(rec), f))
        for f in now:
            if f not in self.published:
                self.published.append(f)
                try:       # read at publication: a later fault may remove the directory
                    self.contents[f] = list(flogfile.get_events(os.path.join(self.incdir, f)))
                except Exception as e:
                    self.contents[f] = e

    def set_fault(self, kind, variant):
        """make the synchronous incident handling fail (kind 1: qualifier, 2: reporter) or heal it (kind 0)"""
        L = self.L
        # heal whatever is broken
        if self.fault == ("q",):
            L.setIncidentQualifier(incident.IncidentQualifier())
        elif self.fault == ("factory",):
            L.setIncidentReporterFactory(self.factory)
        elif self.fault in (("rmdir",), ("notadir",)):
            if os.path.isfile(self.incdir):
                os.unlink(self.incdir)
            os.makedirs(self.incdir, exist_ok=True)
        self.fault = None
        if kind == 1:
            L.setIncidentQualifier(RaisingQualifier())
            self.fault = ("q",)
        elif kind == 2:
            if variant == "factory":
                L.setIncidentReporterFactory(RaisingReporter)
            elif variant == "rmdir":
                shutil.rmtree(self.incdir)
            else:
                shutil.rmtree(self.incdir)
                open(self.incdir, "w").close()
            self.fault = (variant if variant in ("factory", "rmdir") else "notadir",)

    def timer(self):
        E.clock.advance(incident.IncidentReporter.TRAILING_DELAY + 1 if incident.IncidentReporter.TRAILING_DELAY else 6)
        self.turn()

    def bufs(self):
        out = []
        for f, d1 in self.L.buffers.items():
            out.append([fac_id(f), [[lvl, [view(e) for e in q]] for lvl, q in d1.items()]])
        return out

    def tmp_count(self):
        if not os.path.isdir(self.incdir):
            return 0
        return len([f for f in os.listdir(self.incdir) if f.endswith(".tmp")])

    def files(self):
        """published incident files in order of publication -> list of [trigger view] + event views"""
        out = []
        for f in self.published:
            evs = self.contents[f]
            if isinstance(evs, Exception):
                raise evs
            out.append([view(evs[0]["header"]["trigger"])] + [view(e["d"]) for e in evs[1:]])
        return out

    def close(self):
        if self.lfo:
            self.lfo._stop()
        ir = self.L.get_active_incident_reporter()
        if ir is not None:
            for fh in (getattr(ir, "f1", None), getattr(ir, "f2", None)):
                try:
                    fh.close()
                except Exception:
                    pass


def disk_at_return(rig, wr0):
    """what an INDEPENDENT reader (a second file handle: what survives the death of the process, os._exit / SIGKILL /
    abort, or what `flogtool dump` of the incident directory sees during the trailing window) finds of the incident a
    reporter created by the call that just returned -- before any turn of the reactor.  wr0 = the logger's reporter
    weakref before the call (a new reporter gets a new weakref object).  None: the call created no reporter / no file."""
    wr = getattr(rig.L, "active_incident_reporter_weakref", None)
    if wr is None or wr is wr0:
        return None
    ir = wr()
    if ir is None:
        return None
    fn = getattr(ir, "abs_filename", None)
    del ir
    if fn is None:
        return None
    if not os.path.exists(fn):
        fn = fn + ".bz2"        # (a reporter that completes synchronously leaves only the compressed file)
        if not os.path.exists(fn):
            return None
    out = dict(file=os.path.basename(fn), size=os.path.getsize(fn), header=None, events=[], error=None)
    try:
        for e in flogfile.get_events(fn):
            if "header" in e:
                out["header"] = view((e["header"] or {}).get("trigger"))
            elif "d" in e:
                out["events"].append(view(e["d"]))
    except Exception as ex:
        out["error"] = repr(ex)
    return out


BAD_CALLS = {
    # _msg raises before add_event
    "level-str": lambda cid: dict(level="high", cid=cid),
    "level-none": lambda cid: dict(level=None, cid=cid),
    "level-obj": lambda cid: dict(level=Plain(), cid=cid),
    "facility-list": lambda cid: dict(facility=[1, 2], cid=cid),
    "facility-dict": lambda cid: dict(facility={}, cid=cid),
    "message-badstr": lambda cid: dict(message=BadStr(), cid=cid, level=45),    # above every threshold the generator sets
    "message-badboth": lambda cid: dict(message=BadBoth(), cid=cid, level=45),
    "level-str-badrepr": lambda cid: dict(level="x", cid=cid, x=BadRepr()),
}


def call_msg(rig, op):
    """perform one model op on the real logger, then a full turn -> (returned value or None, exception or None, reprok)"""
    out = do_call(rig, op)
    rig.turn()
    return out


def do_call(rig, op):
    """the call only (no turn of the eventual queue)"""
    L = rig.L
    kind = op[0]
    reprok = True
    try:
        if kind == "msg":
            _, num, fac, lvl, vspec, shape, cid = op
            kw = dict(level=lvl, cid=cid, x=build(vspec))
            if fac != 0:
                kw["facility"] = FACS[fac]
            if num is not None:
                kw["num"] = build_num(num)
            args = ("m%d" % cid,)
            if shape == "format":
                kw["format"] = "m%d %%(cid)s %%(x)s" % cid
                args = ()
            elif shape == "format-missing":
                kw["format"] = "m%d %%(nosuchkey)s" % cid
                args = ()
            elif shape == "message-kw":
                kw["message"] = "m%d" % cid
                args = ()
            elif shape == "posargs":
                args = ("m%d %%s" % cid, "arg")
            elif shape == "posargs2":
                args = ("m%d %%s and %%d" % cid, "arg", 7)
            reprok = repr_ok(kw, args)
            r = L.msg(*args, **kw)
        elif kind == "bad":
            _, variant, cid = op
            kw = BAD_CALLS[variant](cid)
            args = () if variant.startswith("message") else ("m%d" % cid,)
            reprok = repr_ok(kw, args)
            r = L.msg(*args, **kw)
        elif kind == "size":
            L.set_buffer_size(op[2], op[3], FACS[op[1]])
            r = None
        elif kind == "thr":
            L.set_generation_threshold(op[2], FACS[op[1]])
            r = None
        elif kind == "timer":
            rig.timer()        # (turns the queue itself)
            r = None
        elif kind == "fault":
            rig.set_fault(op[1], op[2])
            r = None
        else:
            raise ValueError(op)
    except Exception as e:       # the property: this never happens for msg
        return None, e, reprok
    return r, None, reprok


# ------------------------------------------------------------------ reader framing (lines against block boundaries)
class _FixedWidthTime(object):
    """stands in for the `time` module inside foolscap.logging.log / incident while a framing history is written:
    time() has a repr of constant width, so a line's length depends on the event alone; everything else is the real module"""

    def __init__(self, real):
        self._real = real

    def time(self):
        return 1700000000.5

    def __getattr__(self, name):
        return getattr(self._real, name)


class fixed_width_time(object):
    def __enter__(self):
        self.saved = (log.time, incident.time)
        log.time = incident.time = _FixedWidthTime(self.saved[0])

    def __exit__(self, *a):
        log.time, incident.time = self.saved


def raw_content(path):
    """the decompressed bytes of a flogfile, read without foolscap"""
    if path.endswith(".bz2"):
        import bz2
        with bz2.BZ2File(path, "r") as f:
            return f.read()
    with open(path, "rb") as f:
        return f.read()


def write_framing_history(name, writer, pads, trigger_at=None):
    """n = len(pads) events e<i> (message padded with pads[i] ASCII characters) through the real logger into real writers
    -> ({label: path}, events as an immediate observer saw them).
       writer "logfile":  a LogFileObserver on a plain file and one on a .bz2 file
       writer "incident": setLogDir + reporter; trigger_at=None: NonTrailingIncidentReporter, the trigger follows the last
                          event; trigger_at=k: IncidentReporter, the trigger follows event k-1, the rest are trailing events"""
    setup_clock()
    d = fresh_dir(name)
    L = log.FoolscapLogger()
    seen = []
    L.addImmediateObserver(seen.append)
    n = len(pads)
    paths = {}
    with fixed_width_time():
        if writer == "logfile":
            obs = []
            for label, fn in (("plain", "framing.flog"), ("bz2", "framing.flog.bz2")):
                paths[label] = os.path.join(d, fn)
                ob = log.LogFileObserver(paths[label], level=0)
                L.addObserver(ob.msg)
                obs.append(ob)
        else:
            incdir = os.path.join(d, "incidents")
            L.set_buffer_size(log.OPERATIONAL, n + 10, "framing")
            L.setIncidentReporterFactory(incident.NonTrailingIncidentReporter if trigger_at is None else incident.IncidentReporter)
            L.setLogDir(incdir)
        for i in range(n):
            if trigger_at == i:
                L.msg("framing trigger", cid=-1, level=log.WEIRD)
            # (text a reader might take for the end of a line, escaped by the writers: CR, VT, FF, FS..RS, NEL, LS, PS)
            L.msg("e%04d \u00e9\r\x0b\x0c\x1c\x1e\x85\u2028\u2029 %s" % (i, "x" * pads[i]), cid=i, level=log.OPERATIONAL, facility="framing")
            if i % 64 == 63:
                E.turn()
        if writer == "incident" and trigger_at is None:
            L.msg("framing trigger", cid=-1, level=log.WEIRD)
        E.turn()
        if writer == "incident":
            E.clock.advance((incident.IncidentReporter.TRAILING_DELAY or 5) + 1)
            E.turn()
            for f in sorted(os.listdir(incdir)):
                if f.endswith(".flog.bz2"):
                    paths["incident"] = os.path.join(incdir, f)
        else:
            for ob in obs:
                ob._stop()
    return paths, seen


# ------------------------------------------------------------------ Subscription rig
class FakeObserver(object):
    def __init__(self):
        self.calls = []        # (event, Deferred)
        self.only = []

    def notifyOnDisconnect(self, cb):
        return 1

    def dontNotifyOnDisconnect(self, marker):
        pass

    def callRemote(self, name, event):
        d = defer.Deferred()
        self.calls.append((event, d))
        return d

    def callRemoteOnly(self, name, event):
        self.only.append(event)


def make_subscription(maxq, maxfl, prefill=(), catch_up=False):
    """a real Subscription (or a subclass with small limits) on a logger whose buffers were filled by `prefill`
    (ops ["size", fac, lvl, n] / ["msg", fac, lvl, cid]; facility id 0 = None, k = "f<k>") BEFORE subscribing"""
    setup_clock()
    if maxq is None:
        cls = publish.Subscription
    else:
        class Small(publish.Subscription):
            MAX_QUEUE_SIZE = maxq
            MAX_IN_FLIGHT = maxfl
        cls = Small
    L = log.FoolscapLogger()
    fac = lambda k: None if k == 0 else "f%d" % k
    for o in prefill:
        if o[0] == "size":
            L.set_buffer_size(o[2], o[3], fac(o[1]))
        else:
            kw = dict(level=o[2], cid=o[3])
            if o[1]:
                kw["facility"] = fac(o[1])
            if len(o) > 4 and o[4] is not None:
                kw["num"] = build_num(o[4])          # the caller's own number, of any kind
            L.msg("m", **kw)
    E.turn()
    obs = FakeObserver()
    s = cls(obs, L)
    raised = None
    try:
        s.subscribe(catch_up)
    except Exception as e:          # (publish.py runs subscribe from the eventual queue: the exception is logged there)
        raised = e
    return L, obs, s, raised


def run_subscription(maxq, maxfl, ops, rng, prefill=(), catch_up=False):
    """ops: list of 'S'/'T'/'A'/'N'; -> observation right after subscribe(), per-step observations, final
    delivered/queue ids, the catch-up batch handed to callRemoteOnly"""
    L, obs, s, sub_raised = make_subscription(maxq, maxfl, prefill, catch_up)
    pending = []
    seen = 0
    steps = []
    cid = len([o for o in prefill if o[0] == "msg"])
    first_cid = cid
    rets = []

    def see():
        nonlocal seen
        while seen < len(obs.calls):
            pending.append(obs.calls[seen][1])
            seen += 1
        return [len(s.queue), s.in_flight, bool(s.marked_for_sending), bool(s.subscribed), len(obs.calls)]
    at_subscribe = see()
    for o in ops:
        if o == "S":
            rets.append(L.msg("m", cid=cid))
            cid += 1
        elif o == "T":
            E.turn()
        elif o in ("A", "N"):
            if pending:
                d = pending.pop(rng.randrange(len(pending)))
                if o == "A":
                    d.callback(None)
                else:
                    d.errback(failure.Failure(RuntimeError("subscriber failed")))
        steps.append(see())
    delivered = [e["cid"] for e, d in obs.calls]
    queue = [e["cid"] for e in s.queue]
    for d in pending:          # do not leave unfired Deferreds with errbacks around
        d.addErrback(lambda f: None)
    return dict(steps=steps, delivered=delivered, queue=queue, emitted=cid, first_cid=first_cid, rets=rets,
                at_subscribe=at_subscribe, only=[e["cid"] for e in obs.only], subscribe_raised=sub_raised,
                buffered=sorted(e["cid"] for e in L.get_buffered_events() if e["cid"] < first_cid),
                limits=(s.MAX_QUEUE_SIZE, s.MAX_IN_FLIGHT))


# ------------------------------------------------------------------ dumper
class _DumpOpts(dict):
    pass


def dump_file(path):
    o = _DumpOpts({"verbose": False, "just-numbers": False, "rx-time": False, "timestamps": "short-local"})
    o.dumpfile = path
    o.stdout = io.StringIO()
    o.stderr = io.StringIO()
    rc = dumper.LogDumper().run(o)
    return rc, o.stdout.getvalue(), o.stderr.getvalue()


# ------------------------------------------------------------------ JSON fallback chain (lib/LogJson.v)
class ReallyBad(object):
    """repr() raises an exception whose own repr() raises"""
    def __repr__(self):
        class E(Exception):
            def __repr__(s):
                raise RuntimeError("no repr of the exception either")
        raise E()


class JBuilder(object):
    """value spec -> (python object, Coq term of type pv); keeps the table id -> python object for texts, floats and
    opaque objects so that the model's answer (which only names them) can be turned back into the real strings.

    spec:  ["none"] ["bool",b] ["int",n] ["pow2",bits] ["negpow2",bits] ["float",x] ["nan"] ["str",s] ["bytes",latin1] ["obj"] ["badstr"]
           ["badrepr"] ["badboth"] ["reallybad"] ["failure"] ["set",[ints]] ["setbad"]
           ["list",name,[spec..]] ["tuple",[spec..]] ["dict",name,[[keyspec,spec]..]] ["ref",name] ["deep",n,spec]
    keyspec: ["str",s] ["int",n] ["pow2",bits] ["float",x] ["bool",b] ["none"] ["bytes",s] ["tuple",[ints]] ["obj"] ["badrepr"]
    `name` (or None) names a list / dict so that ["ref", name] inside it denotes the container itself."""
    FIXED_KEYS = {"from": 1, "rx_time": 2, "d": 3, "header": 4, "type": 5, "trigger": 6, "num": 7, "level": 8, "message": 9, "format": 10}

    def __init__(self):
        self.table = {}
        self.next = 100
        self.cid = 1000
        self.names = {}
        self.strs = dict(self.FIXED_KEYS)
        for s, i in self.FIXED_KEYS.items():
            self.table[i] = s

    def reg(self, obj):
        if isinstance(obj, str) and obj in self.strs:
            return self.strs[obj]
        i = self.next
        self.next += 1
        self.table[i] = obj
        if isinstance(obj, str):
            self.strs[obj] = i
        return i

    @staticmethod
    def z(n):
        return "(%d)" % n if n < 0 else "%d" % n

    def key(self, ks):
        k = ks[0]
        if k == "str":
            return ks[1], "KStr %d" % self.reg(ks[1])
        if k == "int":
            return ks[1], "KInt %s" % self.z(ks[1])
        if k == "pow2":
            return 2 ** ks[1], "KInt (Z.shiftl 1 %d)" % ks[1]
        if k == "float":
            return ks[1], "KFloat %d" % self.reg(ks[1])
        if k == "bool":
            return ks[1], "KBool %s" % ("true" if ks[1] else "false")
        if k == "none":
            return None, "KNone"
        if k == "bytes":
            o = ks[1].encode("latin-1")
            return o, "KBytes %d" % self.reg(o)
        if k == "tuple":
            o = tuple(ks[1])
            return o, "KTuple %d" % self.reg(o)
        if k == "obj":
            o = Plain()
            return o, "KObj %d" % self.reg(o)
        if k == "badrepr":
            o = BadRepr()
            return o, "KBadRepr %d" % self.reg(o)
        raise ValueError(ks)

    def val(self, sp):
        k = sp[0]
        if k == "none":
            return None, "PNone"
        if k == "bool":
            return sp[1], "PBool %s" % ("true" if sp[1] else "false")
        if k == "int":
            return sp[1], "PInt %s" % self.z(sp[1])
        if k == "pow2":
            return 2 ** sp[1], "PInt (Z.shiftl 1 %d)" % sp[1]
        if k == "negpow2":
            return -(2 ** sp[1]), "PInt (- (Z.shiftl 1 %d))" % sp[1]
        if k == "float":
            return sp[1], "PFloat %d" % self.reg(sp[1])
        if k == "nan":
            return float("nan"), "PFloat %d" % self.reg(float("nan"))
        if k == "str":
            return sp[1], "PStr %d" % self.reg(sp[1])
        opaque = {"bytes": ("OBytes", lambda: sp[1].encode("latin-1")), "obj": ("OReprOk", Plain), "badstr": ("OReprOk", BadStr),
                  "badrepr": ("OReprRaises", BadRepr), "badboth": ("OReprRaises", BadBoth), "reallybad": ("OReallyBad", ReallyBad),
                  "failure": ("OFailure", lambda: build(["failure"])), "set": ("OReprOk", lambda: set(sp[1])),
                  "setbad": ("OReprRaises", lambda: {BadRepr()})}
        if k in opaque:
            kind, mk = opaque[k]
            o = mk()
            return o, "POpaque %s %d" % (kind, self.reg(o))
        if k == "list":
            o = []
            i = self.cid
            self.cid += 1
            if sp[1] is not None:
                self.names[sp[1]] = (o, i)
            terms = []
            for x in sp[2]:
                v, t = self.val(x)
                o.append(v)
                terms.append(t)
            return o, "PList %d [%s]" % (i, "; ".join("(%s)" % t for t in terms))
        if k == "tuple":
            i = self.cid
            self.cid += 1
            vs = [self.val(x) for x in sp[1]]
            return tuple(v for v, t in vs), "PTuple %d [%s]" % (i, "; ".join("(%s)" % t for v, t in vs))
        if k == "dict":
            o = {}
            i = self.cid
            self.cid += 1
            if sp[1] is not None:
                self.names[sp[1]] = (o, i)
            terms = []
            for ks, x in sp[2]:
                kk, kt = self.key(ks)
                v, t = self.val(x)
                o[kk] = v
                terms.append("(%s, %s)" % (kt, t))
            return o, "PDict %d [%s]" % (i, "; ".join(terms))
        if k == "ref":
            o, i = self.names[sp[1]]
            return o, "PBack %d" % i
        if k == "deep":
            v, t = self.val(sp[2])
            for _ in range(sp[1]):
                v = [v]
            return v, "PDeep %d (%s)" % (sp[1], t)
        raise ValueError(sp)

    # ---- the model's answer (token stream, see JSON_DEFS in c18.py) -> python value as json.loads would return it
    FIXED = {0: "@", 1: "message", 2: "repr", 3: "exception_repr", 4: "str", 5: "traceback", 6: "Failure", 7: "UnJSONable",
             8: "Unreprable", 9: "ReallyUnreprable"}

    def fixed(self, c, learned):
        if c in self.FIXED:
            return self.FIXED[c]
        if c == 10:
            return ANYTEXT
        return learned[c]

    def derived(self, d, s):
        o = self.table[s]
        if d == 0:
            return repr(o)
        if d == 1:
            try:
                repr(o)
            except Exception as e:
                return repr(e)
            return "<repr did not raise>"
        if d == 2:
            return str(o)
        return o.getTraceback()

    def decode(self, toks, learned):
        pos = [0]

        def nxt():
            pos[0] += 1
            return toks[pos[0] - 1]

        def key():
            t, a = nxt(), nxt()
            if t == 0:
                return self.table[a]
            if t == 1:
                return str(a)
            if t == 2:
                return json.dumps(self.table[a])
            if t == 3:
                return "true" if a else "false"
            if t == 4:
                return "null"
            if t == 5:
                return repr(self.table[a])
            if t == 6:
                return self.fixed(a, learned)
            return "<key the model should never emit>"

        def val():
            t = nxt()
            if t == 0:
                return None
            if t == 1:
                return bool(nxt())
            if t == 2:
                return nxt()
            if t in (3, 4):
                return self.table[nxt()]
            if t == 5:
                return self.fixed(nxt(), learned)
            if t == 6:
                d = nxt()
                return self.derived(d, nxt())
            if t == 7:
                return [val() for _ in range(nxt())]
            if t == 8:
                out = {}
                for _ in range(nxt()):
                    k = key()
                    out[k] = val()
                return out
            if t == 9:
                n = nxt()
                v = val()
                for _ in range(n):
                    v = [v]
                return v
            raise ValueError("token %r" % t)
        v = val()
        assert pos[0] == len(toks), (pos[0], len(toks))
        return v


class _AnyText(object):
    def __eq__(self, other):
        return isinstance(other, str)

    def __ne__(self, other):
        return not isinstance(other, str)

    def __repr__(self):
        return "<any text>"


ANYTEXT = _AnyText()


def same_json(a, b):
    """equality of two json.loads-style values; NaN equals NaN, ANYTEXT equals every text; iterative on single-element lists"""
    while isinstance(a, list) and isinstance(b, list) and len(a) == 1 and len(b) == 1:
        a, b = a[0], b[0]
    if isinstance(a, float) and isinstance(b, float):
        return a == b or (a != a and b != b)
    if isinstance(a, dict) and isinstance(b, dict):
        return list(a) == list(b) and all(same_json(a[k], b[k]) for k in a)
    if isinstance(a, list) and isinstance(b, list):
        return len(a) == len(b) and all(same_json(x, y) for x, y in zip(a, b))
    if isinstance(a, bool) != isinstance(b, bool):
        return False
    if a is ANYTEXT or b is ANYTEXT:
        return a == b
    return type(a) == type(b) and a == b


def learned_texts():
    """the replacement texts of the current source, asked from the source itself"""
    out = {}
    try:
        out[13] = flogfile._last_resort(object())
        out[11] = list(flogfile._last_resort({1: 1}, 1))[0]
        out[12] = list(flogfile._make_jsonable({BadRepr(): 1}))[0]
    except Exception:
        pass
    for c, dflt in ((11, "<key>"), (12, "<unreprable key>"), (13, "<value that could not be encoded into JSON>")):
        if not isinstance(out.get(c), str):
            out[c] = dflt
    return out


def loads_deep(line):
    """json.loads, also for lines nested deeper than the decoder's recursion budget (peels leading '[' off)"""
    s = line.decode("utf-8") if isinstance(line, bytes) else line
    try:
        return json.loads(s)
    except RecursionError:
        import sys
        old = sys.getrecursionlimit()
        sys.setrecursionlimit(max(old, s.count("[") + s.count("{") + 1000))
        try:
            return json.loads(s)
        finally:
            sys.setrecursionlimit(old)


def real_serialize(obj, how):
    """-> ("ok", parsed value) | ("raise", class name); how = "raw" | "wrapper" | "header" """
    f = io.BytesIO()
    try:
        if how == "wrapper":
            flogfile.serialize_wrapper(f, obj, from_="tub", rx_time=1.5)
        elif how == "header":
            flogfile.serialize_header(f, "incident", trigger=obj)
        else:
            flogfile.serialize_to_json_utf8(f, obj)
    except Exception as e:
        return "raise", type(e).__name__
    return "ok", loads_deep(f.getvalue())
