"""C09 on the library's own in-process transport (broker.LoopbackTransport: what a Tub uses for a reference to one of its
own objects).  A real Tub talks to itself; references travel in both directions (call arguments, answers, callbacks);
one side is shut down at EVERY point of the eventual-send schedule while such data is in flight; afterwards both
Brokers of the pair must have forgotten everything, no request may complete with a proxy after its Broker finished,
and nothing may stay pinned."""
import gc, weakref
from twisted.python import failure
from twisted.internet import error
from harness import implenv as E
from harness.implenv import Net, make_tub, pems_sorted, quiet, Referenceable
import foolscap.eventual as ev


class LThing(Referenceable):
    def __init__(self, name):
        self.name = name


class Callback(Referenceable):
    """lives on the 'client' half; the service calls it back with references"""

    def __init__(self, log):
        self.log = log

    def remote_notify(self, x):
        self.log.append(("notify", x))
        return x


class LService(Referenceable):
    """registered in the Tub; hands out and accepts pass-by-reference objects; things it makes are held weakly"""

    def __init__(self, log):
        self.made = []
        self.cb = None
        self.log = log

    def remote_give(self):
        t = LThing("given%d" % len(self.made))
        self.made.append(weakref.ref(t))
        return t

    def remote_take(self, x):
        self.log.append(("take", x))
        return [x, x]

    def remote_register(self, cb):
        self.cb = cb
        return True

    def remote_poke(self):
        if self.cb is not None:
            t = LThing("pushed%d" % len(self.made))
            self.made.append(weakref.ref(t))
            self.cb.callRemoteOnly("notify", t)
            self.cb.callRemote("notify", t).addErrback(lambda f: None)
        return None


def step_once():
    """exactly one generation of the eventual-send queue"""
    q = ev._theSimpleQueue
    t = q._timer
    if t is None:
        return False
    if t.active():
        t.cancel()
    q._turn()
    return True


TABLES = ("myReferenceByPUID", "myReferenceByCLID", "yourReferenceByCLID", "yourReferenceByURL", "myGifts", "myGiftsByGiftID")
OPS = ("give", "take", "poke", "echo-home")
CLOSERS = ("client.shutdown", "server.shutdown", "client.loseConnection", "server.loseConnection", "tub.stopService")


def loopback_scenario(ops, ksteps, closer):
    """issue `ops` (without running the eventual queue), run ksteps generations, close with `closer`, drain.
    -> (problems, nontrivial)"""
    from foolscap.referenceable import RemoteReference
    problems = []
    E.reset_clock()
    net = Net()
    T = make_tub(net, "t", pems_sorted(1)[0][1])
    log = []
    svc = LService(log)
    furl = T.registerReference(svc)
    got = []
    T.getReference(furl).addBoth(got.append)
    E.turn()
    if not got or not isinstance(got[0], RemoteReference):
        return [("oracle/loopback-setup-failed", "getReference of an own FURL: %r" % (got,))], 0
    rsvc = got[0]
    b1 = rsvc.tracker.broker
    b2 = b1.transport.peer.protocol
    from foolscap import broker as fbroker
    if not isinstance(b1.transport, fbroker.LoopbackTransport):
        return [("oracle/loopback-setup-failed", "not a LoopbackTransport: %r" % (b1.transport,))], 0
    cb = Callback(log)
    r = []
    rsvc.callRemote("register", cb).addBoth(r.append)
    first = []
    rsvc.callRemote("give").addBoth(first.append)
    E.turn()
    if r != [True] or not (first and isinstance(first[0], RemoteReference)):
        return [("oracle/loopback-setup-failed", "plain calls over the loopback pair: %r %r" % (r, first))], 0
    held = first[0]        # a proxy obtained while connected, still held at shutdown
    del first[:]
    # --- the operations in flight
    outcomes = []          # (op, result, was the client's Broker already finished when it was delivered?)
    local = LThing("client-local")
    wlocal = weakref.ref(local)

    def record(op):
        return lambda res: outcomes.append((op, res, b1.disconnected))
    for op in ops:
        if op == "give":
            rsvc.callRemote("give").addBoth(record(op))
        elif op == "take":
            rsvc.callRemote("take", local).addBoth(record(op))
        elif op == "poke":
            rsvc.callRemote("poke").addBoth(record(op))
        elif op == "echo-home":
            rsvc.callRemote("take", held).addBoth(record(op))
    nlog = len(log)
    ran = 0
    for i in range(ksteps):
        if not step_once():
            break
        ran += 1
    inflight = ev._theSimpleQueue._timer is not None
    why = failure.Failure(error.ConnectionDone("closing"))
    if closer == "client.shutdown":
        b1.shutdown(why)
    elif closer == "server.shutdown":
        b2.shutdown(why)
    elif closer == "client.loseConnection":
        b1.transport.loseConnection()
    elif closer == "server.loseConnection":
        b2.transport.loseConnection()
    else:
        T.stopService()
    E.turn()
    gc.collect()
    E.turn()
    cfg = "operations %r issued, %d eventual-send generations run, then %s (data still queued: %s)" % (list(ops), ran, closer, inflight)
    if not (b1.disconnected and b2.disconnected):
        problems.append(("oracle/loopback-not-closed", "the loopback pair is not down on both sides; " + cfg))
    for nm, b in (("client half", b1), ("server half", b2)):
        t = {n: sorted(map(repr, getattr(b, n)))[:4] for n in TABLES if getattr(b, n)}
        if t:
            problems.append(("oracle/table-survives-connection-loss", "the %s still holds %r after the connection was lost; %s" % (nm, t, cfg)))
    if len(outcomes) != len(ops):
        problems.append(("oracle/request-unresolved", "%d of %d requests have an outcome; %s" % (len(outcomes), len(ops), cfg)))

    def proxies(x):
        if isinstance(x, RemoteReference):
            return [x]
        if isinstance(x, (list, tuple)):
            return [p for y in x for p in proxies(y)]
        return []
    for op, res, dead in outcomes:
        if dead and proxies(res):
            problems.append(("oracle/reference-delivered-after-loss", "request %r completed with a proxy %r after its Broker had finished: "
                             "a reference to an id the owner has forgotten; %s" % (op, res, cfg)))
    # calls that were parsed but never run: a finished Broker keeps them, with their target and arguments, in
    # inboundDeliveryQueue for as long as anything (e.g. a stale proxy the application still holds) keeps the Broker alive
    for nm, b in (("client half", b1), ("server half", b2)):
        if b.disconnected and (b.inboundDeliveryQueue or b.activeLocalCalls):
            problems.append(("oracle/dead-broker-keeps-undelivered-calls", "the %s has finished but still holds %d parsed, never "
                             "delivered call(s) in inboundDeliveryQueue and %d in activeLocalCalls, with their targets and arguments; %s"
                             % (nm, len(b.inboundDeliveryQueue), len(b.activeLocalCalls), cfg)))
            del b.inboundDeliveryQueue[:]
            b.activeLocalCalls.clear()
    # nothing stays pinned (drop every reference this function still has: results, failures and their frames)
    op = res = dead = None
    del outcomes[:], log[:], r[:], got[:]
    held = None
    local = None
    gc.collect()
    E.turn()
    gc.collect()
    alive = [w().name for w in svc.made if w() is not None]
    if alive:
        problems.append(("oracle/table-survives-connection-loss", "objects %r made by the service stay pinned after the connection was "
                         "lost and every proxy dropped; %s" % (alive, cfg)))
    if wlocal() is not None:
        problems.append(("oracle/table-survives-connection-loss", "the client's object passed by reference stays pinned; " + cfg))
    try:
        T.stopService()
        E.turn()
    except Exception:
        pass
    return problems, int(inflight)


def loopback(ctx):
    import itertools
    gc.disable()
    try:
        with quiet():
            seen = set()
            subsets = [c for n in (1, 2, 3) for c in itertools.combinations(OPS, n)]
            if ctx.tier != "thorough":
                subsets = [s for s in subsets if len(s) <= 2] + [OPS[:3], OPS[1:]]
            maxk = ctx.n(8, 14)
            for ops in subsets:
                for k in range(0, maxk):
                    for closer in CLOSERS:
                        try:
                            problems, ok = loopback_scenario(ops, k, closer)
                        except Exception:
                            import traceback
                            problems, ok = [("oracle/loopback-exception", "loopback scenario raised: %s" % traceback.format_exc()[-800:])], 0
                        ctx.case(["loopback", list(ops), k, closer], nontrivial=bool(ok))
                        ctx.hist("loopback_outcome", "held" if not problems else problems[0][0])
                        ctx.hist("loopback_closer", closer)
                        for sig, text in problems:
                            if sig not in seen:
                                seen.add(sig)
                                ctx.fail(sig, text, replay=dict(scenario="loopback pair (Tub talking to itself) shut down with reference-bearing "
                                                                "data in flight", ops=list(ops), steps=k, closer=closer))
    finally:
        gc.enable()


# ------------------------------------------------------------------------------------------------------------
# three parties: the owner A holds an object ONLY through its connection tables (made by a factory method); the gifter B
# passes its proxy on to C and forgets it at EVERY point of the introduction (their-reference queued / delivered,
# C's lookup on its way to A / answered, decgift on its way / delivered), under three link priorities (so that B's release
# can overtake C's lookup).  "keeps it reachable ... for as long as the other side holds a live proxy or a message carrying
# the reference is in flight": the object must stay alive until C has its proxy and for as long as C holds it, calls reach
# it, and once C lets go and traffic drains nothing pins it.
def _step_one(net, prefer):
    """deliver one (coalesced) segment, choosing the first deliverable link in `prefer` order (others afterwards)"""
    E.turn()
    c = net.deliverable()
    if not c:
        return False

    def rank(ch):
        l = ch[0]
        pair = frozenset((getattr(l, "client_tub", None), getattr(l, "server_tub", None)))
        return prefer.index(pair) if pair in prefer else len(prefer)
    c.sort(key=rank)
    l, what = c[0]
    if not isinstance(what, tuple):
        q = l.q[what]
        k = 0
        while k < len(q) and q[k] is not None:
            k += 1
        if k > 1:
            q[:k] = [b"".join(q[:k])]
    net.step(c[0])
    return True


GIFT_KINDS = ("bare", "twice-in-list", "two-calls")
GIFT_POLICIES = ("gifter-owner-first", "recipient-owner-first", "gifter-recipient-first")


def gift_drop_scenario(kind, policy, drop_after):
    """-> (problems, total steps, nontrivial)"""
    from harness import c08_impl as G
    from foolscap.referenceable import RemoteReference
    E.reset_clock()
    net = Net()
    pems = [p for _, p in pems_sorted(3)]
    A, B, C = [make_tub(net, n, pems[i]) for i, n in enumerate("abc")]
    fac, sink = G.Factory("a"), G.GiftSink()
    fa, fc = A.registerReference(fac), C.registerReference(sink)
    got = {}
    for k, tub, f in (("fa", B, fa), ("sink", B, fc), ("ca", C, fa)):
        tub.getReference(f).addCallback(lambda r, k=k: got.setdefault(k, r))
    G.run_net(net)
    if not all(isinstance(got.get(k), RemoteReference) for k in ("fa", "sink", "ca")):
        return [("oracle/gift-setup-failed", "setup: %r" % (sorted(got),))], 0, 0
    p = G._call(net, got["fa"], "make", 1)
    if not isinstance(p, RemoteReference):
        return [("oracle/gift-setup-failed", "factory returned %r" % (p,))], 0, 0
    w = fac.made["a1"]
    orig_id = id(w())
    pairs = {"gifter-owner-first": [frozenset((B, A)), frozenset((C, A)), frozenset((B, C))],
             "recipient-owner-first": [frozenset((C, A)), frozenset((B, A)), frozenset((B, C))],
             "gifter-recipient-first": [frozenset((B, C)), frozenset((B, A)), frozenset((C, A))]}[policy]
    res = []
    if kind == "bare":
        got["sink"].callRemote("take", p).addBoth(res.append)
        ncalls = 1
    elif kind == "twice-in-list":
        got["sink"].callRemote("take", [p, p]).addBoth(res.append)
        ncalls = 1
    else:
        got["sink"].callRemote("take", p).addBoth(res.append)
        got["sink"].callRemote("take", [p]).addBoth(res.append)
        ncalls = 2
    problems = []
    cfg = "gift %s, link priority %s, the gifter forgets its proxy after %s delivery steps" % (kind, policy, drop_after)
    steps = 0
    dropped = False
    early = None
    pin_dead = []
    for i in range(400):
        if not dropped and steps == drop_after:
            p = None
            gc.collect()
            dropped = True
        if w() is None and early is None and len(sink.seen) < ncalls:
            early = steps
        # the model's gproxy_alive: an outstanding gift (entry in a gift table of B) means the gifted proxy is alive
        for b in B.brokers.values():
            for (ob, clid) in list(b.myGifts):
                t = ob.yourReferenceByCLID.get(clid)
                if (t is None or t.ref is None or t.ref() is None) and not pin_dead:
                    pin_dead.append(steps)
        if not _step_one(net, pairs):
            if dropped:
                break
            # nothing left to deliver before the requested drop point: drop now
            p = None
            gc.collect()
            dropped = True
            continue
        steps += 1
    for i in range(3):
        if len(res) >= ncalls:
            break
        E.clock.advance(130)
        G.run_net(net)
    if pin_dead:
        problems.append(("oracle/gift-outstanding-proxy-dead", "after %d delivery steps the gifter's gift table still counts an "
                         "outstanding gift but the gifted proxy is dead (its release can reach the owner before the recipient's "
                         "lookup); %s" % (pin_dead[0], cfg)))
    if early is not None:
        problems.append(("oracle/gift-released-early", "the owner let go of the object (alive only through its connection tables) after "
                         "%d delivery steps, while the reference was still on its way to the third party; %s" % (early, cfg)))
    if len(res) != ncalls or not all(isinstance(r, int) for r in res) or len(sink.seen) != ncalls:
        problems.append(("oracle/gift-released-early" if w() is None else "oracle/gift-not-delivered",
                         "the call(s) carrying the gift did not complete: answers %r, invocations %d, original alive: %s; %s"
                         % ([getattr(r, "value", r) for r in res], len(sink.seen), w() is not None, cfg)))
    else:
        proxies = [x for _, items in sink.seen for x in items]
        if not proxies or not all(isinstance(x, RemoteReference) for x in proxies):
            problems.append(("oracle/gift-not-delivered", "the recipient got %r; %s" % (proxies, cfg)))
        else:
            if w() is None:
                problems.append(("oracle/released-early", "the recipient holds a proxy but the owner has let go of the object; " + cfg))
            r = G._call(net, proxies[0], "whoami")
            if r != ["a1", orig_id]:
                problems.append(("oracle/released-early", "a call through the recipient's proxy returned %r instead of reaching the "
                                 "original; %s" % (getattr(r, "value", r), cfg)))
        del proxies
    # everybody lets go: nothing may pin the object, and the gift tables are empty
    del sink.seen[:]
    p = None
    gc.collect()
    G.run_net(net)
    gc.collect()
    G.run_net(net)
    if not problems:
        if w() is not None:
            problems.append(("oracle/leak", "after gifter and recipient dropped their proxies and traffic drained the owner's object is "
                             "still pinned; " + cfg))
        for t in (A, B, C):
            for b in t.brokers.values():
                if b.myGifts or b.myGiftsByGiftID:
                    problems.append(("oracle/leak", "a gift table is not empty after the introduction completed: %r; %s"
                                     % (dict(b.myGifts), cfg)))
    for t in (A, B, C):
        t.stopService()
    E.turn()
    return problems, steps, 1


def gift_drops(ctx):
    gc.disable()
    try:
        with quiet():
            seen = set()
            for kind in GIFT_KINDS:
                for policy in GIFT_POLICIES:
                    try:
                        _, total, _ = gift_drop_scenario(kind, policy, 10 ** 6)
                    except Exception:
                        import traceback
                        ctx.fail("oracle/gift-exception", "gift/drop scenario raised: %s" % traceback.format_exc()[-800:],
                                 replay=dict(scenario="gift-drop", kind=kind, policy=policy))
                        return
                    for k in range(0, total + 1):
                        try:
                            problems, _, ok = gift_drop_scenario(kind, policy, k)
                        except Exception:
                            import traceback
                            problems, ok = [("oracle/gift-exception", "gift/drop scenario raised: %s" % traceback.format_exc()[-800:])], 0
                        ctx.case(["gift-drop", kind, policy, k], nontrivial=bool(ok))
                        ctx.hist("giftdrop_outcome", "held" if not problems else problems[0][0])
                        for sig, text in problems:
                            if sig not in seen:
                                seen.add(sig)
                                ctx.fail(sig, text, replay=dict(scenario="three parties: the gifter forgets its proxy at a chosen point of the "
                                                                "introduction; the owner holds the object only through its tables",
                                                                kind=kind, policy=policy, drop_after=k))
    finally:
        gc.enable()


# ------------------------------------------------------------------------------------------------------------
# what one Broker forgets when the connection is lost, beyond the reference tables: the calls that were parsed but never
# run (inboundDeliveryQueue) with their activeLocalCalls entries, and the gift tables -- against the model lib/Conn.v
# (qstep / qfinish).  A pair of real Brokers on the synchronous Loopback transport of foolscap's own tests; k1 calls are
# RUNNING (their method returned a Deferred that never fires), k2 callRemote + k3 callRemoteOnly are parsed and queued (the
# eventual queue has not run), g gifts are registered; then the connection is given up in one of three ways.
def conn_tables_case(k1, k2, k3, g, how):
    from types import SimpleNamespace
    from twisted.internet import defer
    from twisted.python import failure as tfail
    from twisted.internet.error import ConnectionLost
    E.reset_clock()
    tb, cb = E.broker_pair()

    class T(Referenceable):
        def remote_slow(self):
            return defer.Deferred()

        def remote_fast(self, x=None):
            return 1
    t = T()
    tr = tb.getTrackerForMyReference(t.processUniqueID(), t)
    tr.send()
    rr = cb.getTrackerForYourReference(tr.clid, None).getRef()
    ops = []
    for i in range(k1):
        rr.callRemote("slow").addErrback(lambda f: None)
    ids_before = set()
    E.turn()
    running = sorted(tb.activeLocalCalls)
    for rid in running:
        ops += [("QCall", rid), ("QRun",)]
    before = set(tb.activeLocalCalls)
    for i in range(k2):
        rr.callRemote("fast", LThing("arg")).addErrback(lambda f: None)
    for i in range(k3):
        rr.callRemoteOnly("fast", LThing("arg"))
    queued = [d.reqID for d, rd in tb.inboundDeliveryQueue]
    ops += [("QCall", rid) for rid in queued]
    for i in range(g):
        gid = tb.makeGift(SimpleNamespace(tracker=SimpleNamespace(broker=cb, clid=100 + i)))
        ops.append(("QGift", gid))
    obs0 = dict(inq=queued, active=sorted(tb.activeLocalCalls), gifts=len(tb.myGifts), giftids=len(tb.myGiftsByGiftID))
    why = tfail.Failure(ConnectionLost())
    if how == "connectionLost":
        tb.connectionLost(why)
    elif how == "shutdown":
        tb.transport.loseConnection = lambda *a: None      # the transport never reports the loss
        tb.shutdown(why)
    else:
        tb.transport.loseConnection = lambda *a: None
        tb.connectionTimedOut()
    obs1 = dict(inq=[d.reqID for d, rd in tb.inboundDeliveryQueue], active=sorted(tb.activeLocalCalls), gifts=len(tb.myGifts),
                giftids=len(tb.myGiftsByGiftID))
    E.turn()
    obs2 = dict(inq=[d.reqID for d, rd in tb.inboundDeliveryQueue], active=sorted(tb.activeLocalCalls), gifts=len(tb.myGifts),
                giftids=len(tb.myGiftsByGiftID))
    problems = []
    cfg = "%d running calls, %d + %d parsed-but-not-run calls (callRemote + callRemoteOnly), %d gifts, connection given up by %s" % (k1, k2, k3, g, how)
    for where, o in (("right after", obs1), ("one turn after", obs2)):
        if o["inq"] or o["gifts"] or o["giftids"] or o["active"] != running:
            problems.append(("oracle/dead-broker-keeps-undelivered-calls" if (o["inq"] or o["active"] != running) else "oracle/table-survives-connection-loss",
                             "%s the Broker finished it still holds: inboundDeliveryQueue %r, activeLocalCalls %r (running calls: %r), "
                             "myGifts %d, myGiftsByGiftID %d; %s" % (where, o["inq"], o["active"], running, o["gifts"], o["giftids"], cfg)))
            break
    try:
        cb.connectionLost(why)
    except Exception:
        pass
    E.turn()
    return ops, obs0, obs1, problems


def conn_tables(ctx, model_ok):
    from harness import common
    import itertools
    cases = []
    seen = set()
    with quiet():
        for k1, k2, k3, g in itertools.product((0, 1, 2), (0, 1, 2), (0, 2), (0, 1, 2)):
            for how in ("connectionLost", "shutdown", "timeout"):
                try:
                    ops, obs0, obs1, problems = conn_tables_case(k1, k2, k3, g, how)
                except Exception:
                    import traceback
                    ctx.fail("oracle/loopback-exception", "conn-tables scenario raised: %s" % traceback.format_exc()[-800:],
                             replay=dict(scenario="conn-tables", k=[k1, k2, k3, g], how=how))
                    return
                ctx.case(["conn-tables", k1, k2, k3, g, how], nontrivial=bool(k1 and (k2 or k3)))
                ctx.hist("conn_tables_outcome", "held" if not problems else problems[0][0])
                for sig, text in problems:
                    if sig not in seen:
                        seen.add(sig)
                        ctx.fail(sig, text, replay=dict(scenario="a Broker with running calls, parsed-but-not-run calls and gifts gives the "
                                                        "connection up", running=k1, queued_call=k2, queued_callonly=k3, gifts=g, how=how))
                cases.append((ops, obs0, obs1, (k1, k2, k3, g, how)))
    if not model_ok or not cases:
        return

    def qop(o):
        return "%s %d" % (o[0], o[1]) if len(o) == 2 else o[0]
    body = ("Local Open Scope Z_scope.\nDefinition qobs (b : btabs) := (b_inq b, b_active b, [Z.of_nat (List.length (b_gifts b)); "
            "Z.of_nat (List.length (b_giftids b))]).\n"
            "Definition qrun (l : list qop) := fold_left qstep l btabs0.\n")
    for ops, _, _, _ in cases:
        body += "Eval vm_compute in (qobs (qrun %s), qobs (qfinish (qrun %s))).\n" % ((common.coq_list([qop(o) for o in ops]),) * 2)
    try:
        vals = ctx.coq_eval("C09_conn_tables", body, requires=["Verif.lib.PyLite", "Verif.gen.RefsGen", "Verif.lib.Refs", "Verif.lib.Conn"])
    except common.CoqEvalError as e:
        ctx.fail("correspondence-broken", "lib/Conn.v could not be evaluated: " + str(e)[-800:], has_input=False)
        return
    bad = 0
    for (ops, obs0, obs1, cfg), v in zip(cases, vals):
        ctx.traces += 1
        i0, a0, g0, (i1, a1, g1) = v
        m0 = dict(inq=list(i0), active=sorted(a0), gifts=g0[0], giftids=g0[1])
        m1 = dict(inq=list(i1), active=sorted(a1), gifts=g1[0], giftids=g1[1])
        if (m0, m1) != (obs0, obs1):
            bad += 1
            if bad == 1:
                ctx.fail("correspondence/conn-tables", "lib/Conn.v and the real Broker disagree for %r: before the loss model %r / Broker %r, "
                         "after finish() model %r / Broker %r" % (cfg, m0, obs0, m1, obs1), replay=dict(case=list(cfg)), has_input=False)
    ctx.extra["conn_tables_cases"] = len(cases)
