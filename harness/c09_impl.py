"""C09 on the library's own in-process transport (broker.LoopbackTransport: what a Tub uses for a reference to one of its
own objects).  A real Tub talks to itself; references travel in both directions (call arguments, answers, callbacks);
one side is shut down at EVERY point of the eventual-send schedule while such data is in flight; afterwards both
Brokers of the pair must have forgotten everything, no request may complete with a proxy after its Broker finished,
and nothing may stay pinned."""
import gc, weakref
from twisted.python import failure
from twisted.internet import error
from harness import implenv as E
from harness.implenv import Net, make_tub, pems_sorted, quiet, Referenceable
import foolscap.eventual as ev


class LThing(Referenceable):
    def __init__(self, name):
        self.name = name


class Callback(Referenceable):
    """lives on the 'client' half; the service calls it back with references"""

    def __init__(self, log):
        self.log = log

    def remote_notify(self, x):
        self.log.append(("notify", x))
        return x


class LService(Referenceable):
    """registered in the Tub; hands out and accepts pass-by-reference objects; things it makes are held weakly"""

    def __init__(self, log):
        self.made = []
        self.cb = None
        self.log = log

    def remote_give(self):
        t = LThing("given%d" % len(self.made))
        self.made.append(weakref.ref(t))
        return t

    def remote_take(self, x):
        self.log.append(("take", x))
        return [x, x]

    def remote_register(self, cb):
        self.cb = cb
        return True

    def remote_poke(self):
        if self.cb is not None:
            t = LThing("pushed%d" % len(self.made))
            self.made.append(weakref.ref(t))
            self.cb.callRemoteOnly("notify", t)
            self.cb.callRemote("notify", t).addErrback(lambda f: None)
        return None


def step_once():
    """exactly one generation of the eventual-send queue"""
    q = ev._theSimpleQueue
    t = q._timer
    if t is None:
        return False
    if t.active():
        t.cancel()
    q._turn()
    return True


TABLES = ("myReferenceByPUID", "myReferenceByCLID", "yourReferenceByCLID", "yourReferenceByURL", "myGifts", "myGiftsByGiftID")
OPS = ("give", "take", "poke", "echo-home")
CLOSERS = ("client.shutdown", "server.shutdown", "client.loseConnection", "server.loseConnection", "tub.stopService")


def loopback_scenario(ops, ksteps, closer):
    """issue `ops` (without running the eventual queue), run ksteps generations, close with `closer`, drain.
    -> (problems, nontrivial)"""
    from foolscap.referenceable import RemoteReference
    problems = []
    E.reset_clock()
    net = Net()
    T = make_tub(net, "t", pems_sorted(1)[0][1])
    log = []
    svc = LService(log)
    furl = T.registerReference(svc)
    got = []
    T.getReference(furl).addBoth(got.append)
    E.turn()
    if not got or not isinstance(got[0], RemoteReference):
        return [("oracle/loopback-setup-failed", "getReference of an own FURL: %r" % (got,))], 0
    rsvc = got[0]
    b1 = rsvc.tracker.broker
    b2 = b1.transport.peer.protocol
    from foolscap import broker as fbroker
    if not isinstance(b1.transport, fbroker.LoopbackTransport):
        return [("oracle/loopback-setup-failed", "not a LoopbackTransport: %r" % (b1.transport,))], 0
    cb = Callback(log)
    r = []
    rsvc.callRemote("register", cb).addBoth(r.append)
    first = []
    rsvc.callRemote("give").addBoth(first.append)
    E.turn()
    if r != [True] or not (first and isinstance(first[0], RemoteReference)):
        return [("oracle/loopback-setup-failed", "plain calls over the loopback pair: %r %r" % (r, first))], 0
    held = first[0]        # a proxy obtained while connected, still held at shutdown
    del first[:]
    # --- the operations in flight
    outcomes = []          # (op, result, was the client's Broker already finished when it was delivered?)
    local = LThing("client-local")
    wlocal = weakref.ref(local)

    def record(op):
        return lambda res: outcomes.append((op, res, b1.disconnected))
    for op in ops:
        if op == "give":
            rsvc.callRemote("give").addBoth(record(op))
        elif op == "take":
            rsvc.callRemote("take", local).addBoth(record(op))
        elif op == "poke":
            rsvc.callRemote("poke").addBoth(record(op))
        elif op == "echo-home":
            rsvc.callRemote("take", held).addBoth(record(op))
    nlog = len(log)
    ran = 0
    for i in range(ksteps):
        if not step_once():
            break
        ran += 1
    inflight = ev._theSimpleQueue._timer is not None
    why = failure.Failure(error.ConnectionDone("closing"))
    if closer == "client.shutdown":
        b1.shutdown(why)
    elif closer == "server.shutdown":
        b2.shutdown(why)
    elif closer == "client.loseConnection":
        b1.transport.loseConnection()
    elif closer == "server.loseConnection":
        b2.transport.loseConnection()
    else:
        T.stopService()
    E.turn()
    gc.collect()
    E.turn()
    cfg = "operations %r issued, %d eventual-send generations run, then %s (data still queued: %s)" % (list(ops), ran, closer, inflight)
    if not (b1.disconnected and b2.disconnected):
        problems.append(("oracle/loopback-not-closed", "the loopback pair is not down on both sides; " + cfg))
    for nm, b in (("client half", b1), ("server half", b2)):
        t = {n: sorted(map(repr, getattr(b, n)))[:4] for n in TABLES if getattr(b, n)}
        if t:
            problems.append(("oracle/table-survives-connection-loss", "the %s still holds %r after the connection was lost; %s" % (nm, t, cfg)))
    if len(outcomes) != len(ops):
        problems.append(("oracle/request-unresolved", "%d of %d requests have an outcome; %s" % (len(outcomes), len(ops), cfg)))

    def proxies(x):
        if isinstance(x, RemoteReference):
            return [x]
        if isinstance(x, (list, tuple)):
            return [p for y in x for p in proxies(y)]
        return []
    for op, res, dead in outcomes:
        if dead and proxies(res):
            problems.append(("oracle/reference-delivered-after-loss", "request %r completed with a proxy %r after its Broker had finished: "
                             "a reference to an id the owner has forgotten; %s" % (op, res, cfg)))
    # calls that were parsed but never run: a finished Broker keeps them, with their target and arguments, in
    # inboundDeliveryQueue for as long as anything (e.g. a stale proxy the application still holds) keeps the Broker alive
    for nm, b in (("client half", b1), ("server half", b2)):
        if b.disconnected and (b.inboundDeliveryQueue or b.activeLocalCalls):
            problems.append(("oracle/dead-broker-keeps-undelivered-calls", "the %s has finished but still holds %d parsed, never "
                             "delivered call(s) in inboundDeliveryQueue and %d in activeLocalCalls, with their targets and arguments; %s"
                             % (nm, len(b.inboundDeliveryQueue), len(b.activeLocalCalls), cfg)))
            del b.inboundDeliveryQueue[:]
            b.activeLocalCalls.clear()
    # nothing stays pinned (drop every reference this function still has: results, failures and their frames)
    op = res = dead = None
    del outcomes[:], log[:], r[:], got[:]
    held = None
    local = None
    gc.collect()
    E.turn()
    gc.collect()
    alive = [w().name for w in svc.made if w() is not None]
    if alive:
        problems.append(("oracle/table-survives-connection-loss", "objects %r made by the service stay pinned after the connection was "
                         "lost and every proxy dropped; %s" % (alive, cfg)))
    if wlocal() is not None:
        problems.append(("oracle/table-survives-connection-loss", "the client's object passed by reference stays pinned; " + cfg))
    try:
        T.stopService()
        E.turn()
    except Exception:
        pass
    return problems, int(inflight)


def loopback(ctx):
    import itertools
    gc.disable()
    try:
        with quiet():
            seen = set()
            subsets = [c for n in (1, 2, 3) for c in itertools.combinations(OPS, n)]
            if ctx.tier != "thorough":
                subsets = [s for s in subsets if len(s) <= 2] + [OPS[:3], OPS[1:]]
            maxk = ctx.n(8, 14)
            for ops in subsets:
                for k in range(0, maxk):
                    for closer in CLOSERS:
                        try:
                            problems, ok = loopback_scenario(ops, k, closer)
                        except Exception:
                            import traceback
                            problems, ok = [("oracle/loopback-exception", "loopback scenario raised: %s" % traceback.format_exc()[-800:])], 0
                        ctx.case(["loopback", list(ops), k, closer], nontrivial=bool(ok))
                        ctx.hist("loopback_outcome", "held" if not problems else problems[0][0])
                        ctx.hist("loopback_closer", closer)
                        for sig, text in problems:
                            if sig not in seen:
                                seen.add(sig)
                                ctx.fail(sig, text, replay=dict(scenario="loopback pair (Tub talking to itself) shut down with reference-bearing "
                                                                "data in flight", ops=list(ops), steps=k, closer=closer))
    finally:
        gc.enable()
