"""C17: drives the real foolscap.eventual / foolscap.promise / foolscap.observer under the virtual clock,
one reactor call at a time, records canonical event lists, and evaluates the property directly."""
from harness import implenv as E
import foolscap.eventual as ev
import foolscap.promise as pm
import foolscap.observer as obs
from twisted.python.failure import Failure
from twisted.internet import defer


class Boom(Exception):
    def __init__(self, code):
        Exception.__init__(self, "boom %r" % (code,))
        self.code = code


def fresh_queue():
    E.reset_clock()
    ev._theSimpleQueue = ev._SimpleCallQueue()
    del E.logged_errors[:]
    return ev._theSimpleQueue


def one_reactor_call():
    """run exactly one pending reactor call (task.Clock.advance would also run the calls it causes).
    -> (ran?, exception that left it or None)"""
    calls = E.clock.calls
    if not calls:
        return False, None
    dc = calls.pop(0)
    dc.called = 1
    try:
        dc.func(*dc.args, **dc.kw)
    except Exception as e:       # noqa -- an exception leaving _turn is an observation, not a harness error
        return True, e
    return True, None


# =====================================================================================
#                                   eventual-send queue
# programs:  op = ["turn"] | ["act", act];  act = ["enq", script] | ["flush", fid] | ["fire", id]
#            script = [id, [act...], raises]
# events:    [1,id] submitted  [2,id] started  [3,id] raised  [4,id] exception left _turn
#            [5,fid,pending,running] flush notification (pending = submitted but not started)
# =====================================================================================
class EvRun:
    def __init__(self):
        self.q = fresh_queue()
        self.trace = []
        self.viol = []          # (signature, text)
        self.subs = []
        self.rans = []
        self.depth = 0
        self.in_submit = None
        self.turn_no = 0
        self.in_turn = False
        self.sub_turn = {}
        self.flush_req = []
        self.flush_fired = {}
        self.fire_vals = {}

    def bad(self, sig, text):
        self.viol.append((sig, text))

    # ---- callables
    def started(self, i):
        if self.in_submit is not None:
            self.bad("oracle/ran-synchronously", "callable %d ran before eventually(%d) returned" % (i, self.in_submit))
        if self.depth:
            self.bad("oracle/nested-run", "callable %d started while another one was running" % i)
        self.trace.append([2, i])
        nxt = len(self.rans)
        if nxt >= len(self.subs) or self.subs[nxt] != i:
            self.bad("oracle/order", "callable %d started, but the next one in submission order is %r (submitted %r, started %r)"
                     % (i, self.subs[nxt] if nxt < len(self.subs) else None, self.subs, self.rans))
        self.rans.append(i)
        if self.sub_turn.get(i) is not None and self.sub_turn[i] == self.turn_no:
            self.bad("oracle/reentrant-ran-in-same-turn", "callable %d was submitted and run in the same turn" % i)

    def make(self, script):
        i, acts, raises = script

        def cb():
            self.started(i)
            self.depth += 1
            try:
                for a in acts:
                    self.act(a)
                if raises:
                    self.trace.append([3, i])
                    raise Boom(i)
            finally:
                self.depth -= 1
        return cb

    def submit_mark(self, i):
        self.trace.append([1, i])
        self.subs.append(i)
        self.sub_turn[i] = self.turn_no if self.in_turn else None

    def act(self, a):
        if a[0] == "enq":
            s = a[1]
            self.submit_mark(s[0])
            self.in_submit = s[0]
            try:
                r = ev.eventually(self.make(s))
            finally:
                self.in_submit = None
            if r is not None:
                self.bad("oracle/eventually-returns", "eventually() returned %r" % (r,))
        elif a[0] == "fire":
            i = a[1]
            self.submit_mark(i)
            self.in_submit = i
            try:
                d = ev.fireEventually(("val", i))
            finally:
                self.in_submit = None
            if d.called:
                self.bad("oracle/ran-synchronously", "fireEventually's Deferred %d had fired when it was returned" % i)

            def fired(v, i=i):
                self.started(i)
                if v != ("val", i):
                    self.bad("oracle/fire-value", "fireEventually(%r) fired with %r" % (("val", i), v))
            d.addCallback(fired)
        elif a[0] == "flush":
            fid = a[1]
            self.flush_req.append(fid)
            running = 1 if self.depth else 0
            d = ev.flushEventualQueue()

            def fl(v, fid=fid):
                pending = len(self.subs) - len(self.rans)
                running = 1 if self.depth else 0
                self.trace.append([5, fid, pending, running])
                self.flush_fired[fid] = self.flush_fired.get(fid, 0) + 1
                if pending and running:
                    self.bad("oracle/flush-fires-while-batch-running",
                             "flush notification %d fired while a callable was running and %d submitted callables had not run" % (fid, pending))
                elif pending:
                    self.bad("oracle/flush-fires-nonempty", "flush notification %d fired with %d submitted callables not run" % (fid, pending))
                elif running:
                    self.bad("oracle/flush-fires-inside-callable", "flush notification %d fired while a callable of the batch was still running" % fid)
                if v is not None:
                    self.bad("oracle/flush-value", "flush fired with %r" % (v,))
            d.addCallback(fl)
        else:
            raise ValueError(a)

    def turn(self):
        self.turn_no += 1
        self.in_turn = True
        try:
            ran, exc = one_reactor_call()
        finally:
            self.in_turn = False
        if exc is not None:
            code = exc.code if isinstance(exc, Boom) else -1
            self.trace.append([4, code])
            self.depth = 0
            self.bad("oracle/exception-escaped-turn", "an exception raised by a callable left _turn: %r" % (exc,))
        return ran

    def state(self):
        q = self.q
        return [len(q._events), len(q._flushObservers), 1 if q._timer else 0, 1 if getattr(q, "_in_turn", False) else 0]

    def op(self, o):
        if o[0] == "turn":
            self.turn()
        else:
            self.act(o[1])

    def drain(self, limit=200):
        for _ in range(limit):
            if not self.turn():
                break
        else:
            self.bad("oracle/no-quiescence", "the queue did not drain in %d turns" % limit)
        if self.rans != self.subs and not any(s == "oracle/order" for s, _ in self.viol):
            self.bad("oracle/callable-lost", "after draining: submitted %r, run %r" % (self.subs, self.rans))
        for fid in self.flush_req:
            n = self.flush_fired.get(fid, 0)
            if n != 1:
                self.bad("oracle/flush-count", "flush request %d was notified %d times after the queue drained" % (fid, n))
        if self.q._events or self.q._flushObservers:
            self.bad("oracle/not-empty-after-drain", "state after drain: %r" % (self.state(),))


def run_ev(prog):
    """-> dict(trace=flat ints, state=[...], viol=[(sig,text)], ntrace_events)"""
    r = EvRun()
    for o in prog:
        r.op(o)
    trace = [x for e in r.trace for x in e]
    state = r.state()
    r.drain()
    return dict(trace=trace, state=state, viol=r.viol, full=[list(e) for e in r.trace],
                nrun=len(r.rans), raised=sum(1 for e in r.trace if e[0] == 3),
                reentrant=sum(1 for v in r.sub_turn.values() if v is not None))


# ---- Coq syntax of a program
def coq_script(s):
    return "(Sc %d [%s] %s)" % (s[0], "; ".join(coq_act(a) for a in s[1]), "true" if s[2] else "false")


def coq_act(a):
    if a[0] == "enq":
        return "AEnq %s" % coq_script(a[1])
    if a[0] == "fire":
        return "AEnq (Sc %d [] false)" % a[1]
    return "AFlush %d" % a[1]


def coq_evprog(prog):
    return "[" + "; ".join("OTurn" if o[0] == "turn" else "OAct (%s)" % coq_act(o[1]) for o in prog) + "]"
