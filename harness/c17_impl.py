"""C17: drives the real foolscap.eventual / foolscap.promise / foolscap.observer under the virtual clock,
one reactor call at a time, records canonical event lists, and evaluates the property directly."""
from harness import implenv as E
import foolscap.eventual as ev
import foolscap.promise as pm
import foolscap.observer as obs
from twisted.python.failure import Failure
from twisted.internet import defer
import functools


def diffwin(a, b, w=6):
    """the two lists around their first difference (they can be thousands long)"""
    if len(a) <= 40 and len(b) <= 40:
        return "%r vs %r" % (a, b)
    k = 0
    while k < len(a) and k < len(b) and a[k] == b[k]:
        k += 1
    lo = max(0, k - w)
    return "lengths %d / %d, equal up to index %d, then ...%r vs ...%r" % (len(a), len(b), k, a[lo:k + w], b[lo:k + w])


class Boom(Exception):
    def __init__(self, code):
        Exception.__init__(self, "boom %r" % (code,))
        self.code = code


class BoomBase(BaseException):
    """a BaseException that is not an Exception (like SystemExit / KeyboardInterrupt / GeneratorExit)"""
    def __init__(self, code):
        BaseException.__init__(self, "boombase %r" % (code,))
        self.code = code


# raise codes of a script: 0 returns, 1 Exception, 2.. BaseException subclasses that are not Exceptions
RAISE = {1: Boom, 2: SystemExit, 3: KeyboardInterrupt, 4: GeneratorExit, 5: BoomBase}


def rcode(r):
    return 1 if r is True else (0 if r is False else int(r))


def exc_id(e):
    c = getattr(e, "code", None)
    if isinstance(c, int):
        return c
    if e.args and isinstance(e.args[0], int):
        return e.args[0]
    return -1


# =====================================================================================
#   WHAT KIND OF OBJECT the callable is.  eventually(cb, *args, **kwargs) promises to CALL cb later -- nothing else: the
#   queue may not depend on cb being a function (name, qualified name, module, code object, repr, truth value, equality,
#   hash).  Every script / observer / target method can be wrapped as one of these kinds; the behaviour of the call is
#   the same for all of them, so the model (polymorphic in the callable) and the expected trace do not change.
#   (seeded change C17-r6s1: the except clause of _turn named the callable with fullyQualifiedName(cb), which raises for
#   functools.partial objects and for instances with __call__.)
# =====================================================================================
class Hostile(Exception):
    """raised by the opaque kinds when anything but a call is attempted on them"""


def _hostile(*a, **kw):
    raise Hostile("the object was inspected instead of being called / passed on")


class _CallableInstance(object):
    """an instance with __call__: no __name__ / __qualname__ / __code__"""
    def __init__(self, f):
        self.f = f

    def __call__(self, *a, **kw):
        return self.f(*a, **kw)


class _OpaqueCallable(object):
    """can be called and nothing else: no attributes, repr / str / format / truth value / len / == / != raise, unhashable"""
    __slots__ = ("_f",)
    __hash__ = None

    def __init__(self, f):
        object.__setattr__(self, "_f", f)

    def __call__(self, *a, **kw):
        return object.__getattribute__(self, "_f")(*a, **kw)

    def __getattr__(self, name):
        raise Hostile("attribute %s of a callable was read" % name)
    __repr__ = __str__ = __format__ = __bool__ = __len__ = __eq__ = __ne__ = __iter__ = _hostile


CALLABLE_KINDS = ["function", "lambda", "bound method", "functools.partial", "functools.partial that binds the arguments",
                  "instance with __call__", "opaque instance with __call__ (no attributes, repr/bool/==/hash fail)",
                  "class (the call constructs an instance)", "function whose names contain format characters",
                  "function object that is submitted again and again (one object, equal arguments: every submission counts)"]
N_CALLABLE_KINDS = len(CALLABLE_KINDS)
SHARED_KIND = 9         # handled by EvRun (one function object per run, dispatching to the scripts in submission order)


def as_kind(f, kind, args=(), kwargs=None):
    """-> (callable of that kind which behaves like f, args, kwargs to submit with it)"""
    kwargs = dict(kwargs or {})
    args = tuple(args)
    if kind == 0 or kind == SHARED_KIND:
        return f, args, kwargs
    if kind == 1:
        return (lambda *a, **kw: f(*a, **kw)), args, kwargs
    if kind == 2:
        class Job(object):
            def go(self, *a, **kw):
                return f(*a, **kw)
        return Job().go, args, kwargs
    if kind == 3:
        return functools.partial(f), args, kwargs
    if kind == 4:
        return functools.partial(f, *args, **kwargs), (), {}
    if kind == 5:
        return _CallableInstance(f), args, kwargs
    if kind == 6:
        return _OpaqueCallable(f), args, kwargs
    if kind == 7:
        class Ctor(object):
            def __init__(self, *a, **kw):
                f(*a, **kw)
        return Ctor, args, kwargs
    if kind == 8:
        def g(*a, **kw):
            return f(*a, **kw)
        g.__name__ = "100%s"
        g.__qualname__ = "%(cb)s.{0}.%d%%"
        g.__module__ = "%s"
        return g, args, kwargs
    raise ValueError(kind)


class _OpaqueValue(object):
    """a value that can only be passed on"""
    __slots__ = ()
    __hash__ = None

    def __getattr__(self, name):
        raise Hostile("attribute %s of a value was read" % name)
    __repr__ = __str__ = __format__ = __bool__ = __len__ = __eq__ = __ne__ = __iter__ = _hostile


# the value given to fireEventually(): 0 a tuple naming the request; 1 no argument at all (the Deferred fires with None);
# 2.. values that are false / empty / cannot be inspected -- the Deferred must fire with that very object
FIRE_VALUE_KINDS = ["tuple", "no argument", "None", "0", "False", "empty string", "empty list", "empty tuple", "opaque object"]
N_FIRE_VALUE_KINDS = len(FIRE_VALUE_KINDS)


def fire_value(vk, i):
    """-> (positional arguments of fireEventually, the object its Deferred must fire with)"""
    if vk == 0:
        v = ("val", i)
    elif vk == 1:
        return (), None
    else:
        v = [None, 0, False, "", [], (), _OpaqueValue()][vk - 2]
    return (v,), v


def same_value(got, want):
    if want is None or isinstance(want, (list, _OpaqueValue)):
        return got is want
    return type(got) is type(want) and got == want


def fresh_queue():
    E.reset_clock()
    ev._theSimpleQueue = ev._SimpleCallQueue()
    del E.logged_errors[:]
    return ev._theSimpleQueue


def one_reactor_call():
    """run exactly one pending reactor call (task.Clock.advance would also run the calls it causes).
    -> (ran?, exception that left it or None)"""
    calls = E.clock.calls
    if not calls:
        return False, None
    dc = calls.pop(0)
    dc.called = 1
    try:
        dc.func(*dc.args, **dc.kw)
    except BaseException as e:   # noqa -- an exception (also SystemExit & co) leaving _turn is an observation, not a harness error
        return True, e
    return True, None


# =====================================================================================
#                                   eventual-send queue
# programs:  op = ["turn"] | ["act", act];  act = ["enq", script] | ["flush", fid] | ["fire", id]
#            script = [id, [act...], raises];  ["flush", fid, [act...]]: the Deferred's callback performs the acts
#            (eventually / fireEventually / flushEventualQueue again, with a callback of the same kind: any depth);
#            old form, still read: a callback element that is a script [id, acts, raises] means ["enq", script]
# events:    [1,id] submitted  [2,id] started  [3,id] raised  [4,id] exception left _turn
#            [5,fid,pending,running] flush notification (pending = submitted but not started)
#            [6,fid,deferred] flushEventualQueue() called; deferred = the Deferred had not fired when it was returned
#            [7,fid] a deferred flush request is about to be notified (always followed by its [5,fid,..])
# =====================================================================================
def cb_acts(l):
    """the actions of a flush callback; a bare script (old corpus form) stands for ["enq", script]"""
    return [x if isinstance(x[0], str) else ["enq", x] for x in l]


class EvRun:
    def __init__(self):
        self.q = fresh_queue()
        self.trace = []
        self.viol = []          # (signature, text)
        self.subs = []
        self.rans = []
        self.depth = 0
        self.in_submit = None
        self.turn_no = 0
        self.in_turn = False
        self.sub_turn = {}
        self.flush_req = []     # fid of every request, by request number
        self.flush_fired = {}   # request number -> times notified
        self.flush_waiting = [] # request numbers of the deferred requests not notified yet, oldest first
        self.fire_vals = {}
        self.cbargs = {}
        self.last_started = None
        self.shared_pending = []    # scripts submitted through the one shared function object, oldest first
        self.kind_of = {}       # id -> what kind of object was submitted (callable kind / fireEventually value kind)

    def bad(self, sig, text):
        self.viol.append((sig, text))

    # ---- callables
    def started(self, i):
        if self.in_submit is not None:
            self.bad("oracle/ran-synchronously", "callable %d ran before eventually(%d) returned" % (i, self.in_submit))
        if self.depth:
            self.bad("oracle/nested-run", "callable %d started while another one was running" % i)
        self.trace.append([2, i])
        nxt = len(self.rans)
        if nxt >= len(self.subs) or self.subs[nxt] != i:
            self.bad("oracle/order", "callable %d started, but the next one in submission order is %r (submitted vs started: %s)"
                     % (i, self.subs[nxt] if nxt < len(self.subs) else None, diffwin(self.subs, self.rans + [i])))
        self.rans.append(i)
        self.last_started = i
        if self.sub_turn.get(i) is not None and self.sub_turn[i] == self.turn_no:
            self.bad("oracle/reentrant-ran-in-same-turn", "callable %d was submitted and run in the same turn" % i)

    def make(self, script):
        i, acts, raises = script[:3]

        def cb(*a, **kw):
            if (tuple(a), kw) != self.cbargs.get(i, ((), {})):
                self.bad("oracle/arguments-changed", "callable %d was submitted with arguments %r and called with %r %r"
                         % (i, self.cbargs.get(i, ((), {})), tuple(a), kw))
            self.started(i)
            self.depth += 1
            try:
                for a in acts:
                    self.act(a)
                if rcode(raises):
                    self.trace.append([3, i])
                    raise RAISE[rcode(raises)](i)
            finally:
                self.depth -= 1
        return cb

    def shared(self, *a, **kw):
        """ONE function object for every script of SHARED_KIND: each call stands for the oldest such submission that has
        not run yet (a queue that coalesces equal entries, or keeps them in a set / dict, calls it too rarely)"""
        if not self.shared_pending:
            self.bad("oracle/ran-twice", "the shared function object was called more often than it was submitted")
            return None
        return self.make(self.shared_pending.pop(0))(*a, **kw)

    def submit_mark(self, i):
        self.trace.append([1, i])
        self.subs.append(i)
        self.sub_turn[i] = self.turn_no if self.in_turn else None

    def escaped_from_submit(self, i, e):
        self.trace.append([4, exc_id(e) if exc_id(e) != -1 else i])
        self.bad("oracle/eventually-raised", "eventually()/fireEventually() for callable %d raised %r to its caller" % (i, e))

    def act(self, a):
        if a[0] == "enq":
            s = a[1]
            xp, xk = (a[2][0], a[2][1]) if len(a) > 2 else ([], {})
            self.cbargs[s[0]] = (tuple(xp), dict(xk))
            self.submit_mark(s[0])
            self.in_submit = s[0]
            r = None
            # s[3] (optional): what kind of object is submitted (CALLABLE_KINDS); the model does not see it
            if len(s) > 3 and s[3] == SHARED_KIND:
                self.shared_pending.append(s)
                cb, sp, sk = self.shared, tuple(xp), dict(xk)
            else:
                cb, sp, sk = as_kind(self.make(s), s[3] if len(s) > 3 else 0, xp, xk)
            self.kind_of[s[0]] = "a " + CALLABLE_KINDS[s[3] if len(s) > 3 else 0]
            try:
                r = ev.eventually(cb, *sp, **sk)
            except BaseException as e:   # noqa -- an exception coming out of eventually() is an observation
                self.escaped_from_submit(s[0], e)
            finally:
                self.in_submit = None
            if r is not None:
                self.bad("oracle/eventually-returns", "eventually() returned %r" % (r,))
        elif a[0] == "fire":
            i = a[1]
            self.submit_mark(i)
            self.in_submit = i
            d = None
            fargs, fwant = fire_value(a[2] if len(a) > 2 else 0, i)     # a[2] (optional): FIRE_VALUE_KINDS
            self.kind_of[i] = "the Deferred of fireEventually(%s)" % FIRE_VALUE_KINDS[a[2] if len(a) > 2 else 0]
            try:
                d = ev.fireEventually(*fargs)
            except BaseException as e:   # noqa
                self.escaped_from_submit(i, e)
            finally:
                self.in_submit = None
            if d is None:
                return
            if d.called:
                self.bad("oracle/ran-synchronously", "fireEventually's Deferred %d had fired when it was returned" % i)

            def fired(v, i=i, vk=a[2] if len(a) > 2 else 0):
                self.started(i)
                if not same_value(v, fwant):
                    self.bad("oracle/fire-value", "the Deferred of fireEventually(%s) [request %d] did not fire with the value "
                             "it was given (got an object of type %s)" % (FIRE_VALUE_KINDS[vk], i, type(v).__name__))
            d.addCallback(fired)
        elif a[0] == "flush":
            fid = a[1]
            cbs = cb_acts(a[2]) if len(a) > 2 else []
            cbend = a[3] if len(a) > 3 else 0     # how the callback ends: 0 returns None, 1 raises, 2 / 3 returns an unfired / a fired Deferred
            rid = len(self.flush_req)
            self.flush_req.append(fid)
            d = ev.flushEventualQueue()
            deferred = 0 if d.called else 1
            self.trace.append([6, fid, deferred])
            if deferred:
                self.flush_waiting.append(rid)

            def fl(v, fid=fid, rid=rid, deferred=deferred):
                pending = len(self.subs) - len(self.rans)
                running = 1 if self.depth else 0
                if deferred:
                    self.trace.append([7, fid])
                    if rid in self.flush_waiting:
                        if self.flush_waiting[0] != rid:
                            self.bad("oracle/flush-order", "deferred flush request %d was notified before the earlier deferred "
                                     "request %d" % (fid, self.flush_req[self.flush_waiting[0]]))
                        self.flush_waiting.remove(rid)
                self.trace.append([5, fid, pending, running])
                self.flush_fired[rid] = self.flush_fired.get(rid, 0) + 1
                if self.flush_fired[rid] > 1:
                    self.bad("oracle/flush-count", "flush request %d was notified %d times" % (fid, self.flush_fired[rid]))
                if pending and running:
                    self.bad("oracle/flush-fires-while-batch-running",
                             "flush notification %d fired while a callable was running and %d submitted callables had not run" % (fid, pending))
                elif pending:
                    self.bad("oracle/flush-notified-after-earlier-observer-enqueued" if self.in_turn else "oracle/flush-fires-nonempty",
                             "flush notification %d fired with %d submitted callables not run" % (fid, pending))
                elif running:
                    self.bad("oracle/flush-fires-inside-callable", "flush notification %d fired while a callable of the batch was still running" % fid)
                if v is not None:
                    self.bad("oracle/flush-value", "flush fired with %r" % (v,))
                for x in cbs:            # the observer's callback: more work, more flush requests (nested to any depth)
                    self.act(x)
                if cbend == 1:
                    raise Boom(fid)      # stays inside the Deferred: the queue must not notice
                if cbend == 2:
                    return defer.Deferred()
                if cbend == 3:
                    return defer.succeed(7)
            d.addCallback(fl)
            if cbend:
                d.addErrback(lambda f: None)
        else:
            raise ValueError(a)

    def turn(self):
        self.turn_no += 1
        self.in_turn = True
        try:
            ran, exc = one_reactor_call()
        finally:
            self.in_turn = False
        if exc is not None:
            self.trace.append([4, exc_id(exc)])
            self.depth = 0
            self.bad("oracle/exception-escaped-turn", "an exception raised by a callable left _turn: %r; the last callable started "
                     "was %r (%s)" % (exc, self.last_started, self.kind_of.get(self.last_started, "?")))
        return ran

    def state(self):
        q = self.q
        return [len(q._events), len(q._flushObservers), 1 if q._timer else 0, 1 if getattr(q, "_in_turn", False) else 0]

    def op(self, o):
        if o[0] == "turn":
            self.turn()
        else:
            self.act(o[1])

    def drain(self, limit=200):
        for _ in range(limit):
            if not self.turn():
                break
        else:
            self.bad("oracle/no-quiescence", "the queue did not drain in %d turns" % limit)
        if self.rans != self.subs and not any(s == "oracle/order" for s, _ in self.viol):
            self.bad("oracle/callable-lost", "after draining: submitted vs run: %s" % diffwin(self.subs, self.rans))
        for rid, fid in enumerate(self.flush_req):
            n = self.flush_fired.get(rid, 0)
            if n != 1 and not (n > 1 and any(s == "oracle/flush-count" for s, _ in self.viol)):
                self.bad("oracle/flush-count", "flush request %d was notified %d times after the queue drained" % (fid, n))
        if getattr(self.q, "_in_turn", False):
            self.bad("oracle/in-turn-stuck", "after draining, the queue still believes a batch is running (_in_turn is True): "
                     "flushEventualQueue() on the idle queue will not fire")
        if self.q._events or self.q._flushObservers:
            self.bad("oracle/not-empty-after-drain", "state after drain: %r" % (self.state(),))


def run_ev(prog):
    """-> dict(trace=flat ints, state=[...], viol=[(sig,text)], ntrace_events)"""
    r = EvRun()
    for o in prog:
        r.op(o)
    trace = [x for e in r.trace for x in e]
    state = r.state()
    r.drain()
    return dict(trace=trace, state=state, viol=r.viol, full=[list(e) for e in r.trace],
                nrun=len(r.rans), raised=sum(1 for e in r.trace if e[0] == 3), in_turn_after=getattr(r.q, "_in_turn", False),
                reentrant=sum(1 for v in r.sub_turn.values() if v is not None))


# ---- Coq syntax of a program
def coq_script(s):
    return "(Sc %d [%s] %s)" % (s[0], "; ".join(coq_act(a) for a in s[1]), ["RNo", "RExc", "RBase"][min(rcode(s[2]), 2)])


def coq_act(a):
    if a[0] == "enq":
        return "AEnq %s" % coq_script(a[1])
    if a[0] == "fire":
        return "AEnq (Sc %d [] RNo)" % a[1]
    return "AFlush %d [%s]" % (a[1], "; ".join(coq_act(x) for x in cb_acts(a[2] if len(a) > 2 else [])))


def coq_evprog(prog):
    return "[" + "; ".join("OTurn" if o[0] == "turn" else "OAct (%s)" % coq_act(o[1]) for o in prog) + "]"


# =====================================================================================
#                                        promises
# programs: ["new"] | ["send",p,mid,beh] | ["sendonly",p,mid,beh] | ["when",p,w,kind] | ["resolve",p,x] | ["turn"]
#           | ["fire",mid,x]   the program fires the Deferred that the method of message mid returns (beh ["retd"])
#           beh = ["ret",v] | ["raise",f] | ["retp",q] | ["sendret",q,mid2,v] | ["retd"];  x = ["val",v] | ["fail",f] | ["prom",q]
#               | ["nometh"]   the message names a method the target does not have: send(p).nosuch_method(..) -- accepted and
#                              queued like any other; at delivery getattr fails inside maybeDeferred: nothing is invoked, the
#                              result promise is BROKEN with the AttributeError (failure code -1), a sendOnly swallows it
#               | ["private"]  send(p)._private_method: AttributeError at the call site (_MethodGetterWrapper), nothing is
#                              queued, no result promise exists; direct oracle only -- the model never sees this operation
#           kind = "when" | "then" | "except"
# events:   [1,p,mid] sent  [2,p,mid,v] method invoked on value v  [3,p,w,0,v]/[3,p,w,1,f] observer told
#           [4,p] UsageError raised to the caller  [5,p] AttributeError raised to the caller
# =====================================================================================
_MISSING = object()
NOMETH_NAME = "nosuch_method"       # not an attribute of Target
PRIVATE_NAME = "_private_method"
ATTR_ERROR = -1                     # canon_outcome() of a Failure carrying an exception that is not ours (Promise.v: attr_error)


def invocable(beh):
    return beh[0] != "nometh"


def canon_outcome(x):
    """-> (0, v) for a Target, (1, f) for a Failure"""
    if isinstance(x, Failure):
        return (1, x.value.code if isinstance(x.value, (Boom, BoomBase)) else -1)
    if isinstance(x, Target):
        return (0, x.v)
    return (0, -999)


class Target(object):
    def __init__(self, run, v):
        self.run = run
        self.v = v

    def m(*a, **kw):
        # no named parameters at all: every keyword of the message (also `self`, `mid`, ...) lands in kw
        return a[0].run.invoked(a[0], a[1], a[2], tuple(a[3:]), kw)


class _DynTarget(Target):
    """the method is not a function of the class: reading the attribute builds a functools.partial each time (proxy style)"""
    m = property(lambda self: functools.partial(Target.m, self))


class _InstAttrTarget(Target):
    """the method is an instance attribute holding an instance with __call__"""
    def __init__(self, run, v):
        Target.__init__(self, run, v)
        self.m = _CallableInstance(functools.partial(Target.m, self))


class _OpaqueTarget(Target):
    """an ordinary method, but the object itself cannot be printed, compared, hashed or tested for truth"""
    __hash__ = None
    __repr__ = __str__ = __format__ = __bool__ = __len__ = __eq__ = __ne__ = __iter__ = _hostile


TARGET_KINDS = [Target, _DynTarget, _InstAttrTarget, _OpaqueTarget]
TARGET_KIND_NAMES = ["plain method", "method built by a property (functools.partial)", "method = instance attribute with __call__",
                     "object without repr / == / hash / truth value"]


def make_target(run, x):
    """x = ["val", v] or ["val", v, target kind]"""
    return TARGET_KINDS[x[2] if len(x) > 2 else 0](run, x[1])


# measured, not proved: _resolve2 is never entered on a promise that is already NEAR/BROKEN (the model records such an
# entry as a crash that leaves the promise alone)
_r2_hits = []
_orig_resolve2 = pm.Promise._resolve2


def _watched_resolve2(self, x):
    if self._state in (pm.NEAR, pm.BROKEN):
        _r2_hits.append(self._state)
    return _orig_resolve2(self, x)


pm.Promise._resolve2 = _watched_resolve2


class PrRun:
    def __init__(self):
        self.q = fresh_queue()
        del _r2_hits[:]
        self.P = []                 # promises by index (None: creation failed half-way)
        self.trace = []
        self.viol = []
        self.sent = {}              # p -> [mid]
        self.deliv = {}             # p -> [mid]
        self.msg = {}               # mid -> (p, beh, result index or None)
        self.result_of = {}         # result promise index -> mid
        self.returned = {}          # mid -> what the method actually did: ("val",v) ("fail",f) ("prom",q)
        self.accepted = {}          # p -> x   first resolution accepted from the program
        self.watch = {}             # p -> [(w, kind)]
        self.seen = {}              # w -> [outcome]
        self.in_op = False
        self.nrefused = 0
        self.nchained = 0
        self.extra = {}             # mid -> (positional extras, keyword extras) of the message
        self.dfs = {}               # mid -> the Deferred the method of message mid returns (beh "retd")
        self.fired = {}             # mid -> x   what the program fired that Deferred with
        self.nlogged = 0            # how many entries of E.logged_errors have been looked at
        self.nnometh = 0            # messages sent to a missing method
        self.nturn = 0              # reactor calls so far
        self.sent_turn = {}         # mid -> nturn when the program sent it
        self.reg_turn = {}          # w -> nturn when the observer was registered
        self.told_order = []        # (promise, w) in the order in which observers were told

    def deferred(self, mid):
        if mid not in self.dfs:
            self.dfs[mid] = defer.Deferred()
        return self.dfs[mid]

    def bad(self, sig, text):
        self.viol.append((sig, text))

    def reactor_call(self):
        """one reactor call; an AttributeError that the queue had to catch and log means that the delivery machinery itself
        raised (a missing method's AttributeError belongs inside maybeDeferred: it goes to the resolver, not to the queue)"""
        self.nturn += 1
        ran, exc = one_reactor_call()
        if exc is not None:
            self.bad("oracle/exception-escaped-turn", "an exception left _turn: %r" % (exc,))
        new = E.logged_errors[self.nlogged:]
        self.nlogged = len(E.logged_errors)
        for ev_ in new:
            f = ev_.get("failure")
            if f is not None and f.check(AttributeError):
                self.bad("oracle/delivery-raised-into-queue", "an AttributeError was raised by a queued delivery and caught by "
                         "the eventual-send queue instead of reaching the message's resolver: %s" % (str(f.value)[:200],))
        return ran

    def invoked(self, target, mid, beh, pos=(), kw=None):
        p = self.msg[mid][0]
        self.trace.append([2, p, mid, target.v])
        self.deliv.setdefault(p, []).append(mid)
        want = self.extra.get(mid, ((), {}))
        if (tuple(pos), dict(kw or {})) != (tuple(want[0]), dict(want[1])):
            self.bad("oracle/arguments-changed", "message %d was sent with extra arguments %r %r and arrived with %r %r"
                     % (mid, tuple(want[0]), want[1], tuple(pos), kw))
        if self.in_op:
            self.bad("oracle/delivered-synchronously", "message %d was delivered to promise %d's target before the send returned / "
                     "outside a reactor turn" % (mid, p))
        if beh[0] == "ret":              # ["ret", v] or ["ret", v, kind of object returned (TARGET_KINDS)]
            self.returned[mid] = ("val", beh[1])
            return make_target(self, beh)
        if beh[0] == "raise":
            self.returned[mid] = ("fail", beh[1])
            raise (BoomBase if beh[1] % 3 == 0 else Boom)(beh[1])
        if beh[0] == "retd":             # the method returns a Deferred (already fired, or fired later by the program)
            self.returned[mid] = ("deferred", mid)
            return self.deferred(mid)
        if beh[0] == "sendret":          # the method sends another message (re-entrantly), then returns a value
            q, m2, v = beh[1], beh[2], beh[3]
            if q < len(self.P) and self.P[q] is not None:
                self.msg[m2] = (q, ["ret", 0], None)
                pm.sendOnly(self.P[q]).m(m2, ["ret", 0])
                self.trace.append([1, q, m2])
                self.sent.setdefault(q, []).append(m2)
            self.returned[mid] = ("val", v)
            return Target(self, v)
        q = beh[1]
        if q < len(self.P) and self.P[q] is not None:
            self.returned[mid] = ("prom", q)
            return self.P[q]
        self.returned[mid] = ("val", 0)
        return Target(self, 0)

    def op(self, o):
        k = o[0]
        if k == "turn":
            self.reactor_call()
            return
        if k == "new":
            p, r = pm.makePromise()
            self.P.append(p)
            return
        if k == "fire":
            mid, x = o[1], o[2]
            if x[0] == "val":
                arg = make_target(self, x)
            elif x[0] == "fail":
                arg = Failure(Boom(x[1]))
            else:
                if x[1] >= len(self.P) or self.P[x[1]] is None:
                    return
                arg = self.P[x[1]]
            d = self.deferred(mid)
            if d.called:
                return
            self.fired[mid] = x
            self.in_op = True
            try:
                d.callback(arg)
            except Exception as e:   # noqa
                self.trace.append([6, 0])
                self.bad("oracle/operation-raised", "firing the Deferred of message %d raised %s: %s" % (mid, type(e).__name__, str(e)[:200]))
            finally:
                self.in_op = False
            return
        p = o[1]
        if p >= len(self.P) or self.P[p] is None:
            return
        prom = self.P[p]
        if k in ("send", "sendonly") and o[3][0] == "private":
            self.private_send(k, p, prom)
            return
        self.in_op = True
        try:
            if k in ("send", "sendonly"):
                mid, beh = o[2], o[3]
                xp, xk = (o[4][0], o[4][1]) if len(o) > 4 else ([], {})
                self.extra[mid] = (tuple(xp), dict(xk))
                ridx = len(self.P) if k == "send" else None
                self.msg[mid] = (p, beh, ridx)
                self.sent_turn[mid] = self.nturn
                meth = "m" if invocable(beh) else NOMETH_NAME
                if not invocable(beh):
                    self.nnometh += 1
                try:
                    if k == "send":
                        rp = getattr(pm.send(prom), meth)(mid, beh, *xp, **xk)
                        if not isinstance(rp, pm.Promise):
                            self.bad("oracle/send-result", "send() returned %r" % (rp,))
                        self.P.append(rp)
                        self.result_of[ridx] = mid
                    else:
                        r = getattr(pm.sendOnly(prom), meth)(mid, beh, *xp, **xk)
                        if r is not None:
                            self.bad("oracle/send-result", "sendOnly() returned %r" % (r,))
                    self.trace.append([1, p, mid])
                    self.sent.setdefault(p, []).append(mid)
                except (AttributeError, TypeError) as e:
                    if k == "send":
                        self.P.append(None)
                    self.trace.append([5, p])
                    self.bad("oracle/attribute-error", "send to promise %d raised %r" % (p, e))
            elif k == "when":
                w, kind = o[2], o[3]
                xp, xk = (o[4][0], o[4][1]) if len(o) > 4 and kind != "when" else ([], {})
                ckind = o[5] if len(o) > 5 else 0        # what kind of object the observer's callback is (CALLABLE_KINDS)
                self.watch.setdefault(p, []).append((w, kind))
                self.reg_turn[w] = self.nturn

                def told(*a, **kw):
                    x = a[0]
                    self.told_order.append((p, w))
                    # "never synchronously": whatever the state of the promise a message is sent to (unresolved, resolved,
                    # chained, BROKEN), the result promise of the send cannot be resolved before the sender's turn is over
                    # -- an observer of it that hears anything before the next reactor call ran inside the sender's turn
                    # (a result promise the PROGRAM resolved itself, before the delivery, is the program's doing)
                    if p in self.result_of and p not in self.accepted and self.sent_turn.get(self.result_of[p]) == self.nturn:
                        self.bad("oracle/result-observed-in-senders-turn", "observer %d (%s) of promise %d = the result of message "
                                 "%d (sent to promise %d) was told %r before any reactor call followed the send: the result was "
                                 "resolved inside the sender's turn" % (w, kind, p, self.result_of[p],
                                                                          self.msg[self.result_of[p]][0], canon_outcome(x)))
                    if (tuple(a[1:]), kw) != (tuple(xp), dict(xk)):
                        self.bad("oracle/arguments-changed", "observer %d of promise %d was registered with extra arguments %r %r "
                                 "and called with %r %r" % (w, p, tuple(xp), xk, tuple(a[1:]), kw))
                    c = canon_outcome(x)
                    self.trace.append([3, p, w, c[0], c[1]])
                    self.seen.setdefault(w, []).append(c)
                    return None
                if ckind:       # (a partial cannot bind the extras in front of the outcome: kind 4 is run as kind 3)
                    told = as_kind(told, 3 if ckind == 4 else ckind)[0]
                try:
                    if kind == "when":
                        pm.when(prom).addBoth(told)
                    elif kind == "then":
                        if prom._then(told, *xp, **xk) is not prom:
                            self.bad("oracle/then-result", "_then did not return the promise")
                    else:
                        if prom._except(told, *xp, **xk) is not prom:
                            self.bad("oracle/then-result", "_except did not return the promise")
                except (AttributeError, TypeError) as e:
                    self.trace.append([5, p])
                    self.bad("oracle/attribute-error", "when/_then/_except on promise %d raised %r" % (p, e))
            elif k == "resolve":
                x = o[2]
                if x[0] == "val":
                    arg = make_target(self, x)
                elif x[0] == "fail":
                    arg = Failure(Boom(x[1]))
                else:
                    if x[1] >= len(self.P) or self.P[x[1]] is None:
                        return
                    arg = self.P[x[1]]
                    self.nchained += 1
                was_eventual = prom._state == pm.EVENTUAL
                user_made = p not in self.result_of
                try:
                    prom._resolve(arg)
                    ok = True
                except pm.UsageError:
                    ok = False
                    self.nrefused += 1
                    self.trace.append([4, p])
                except (AttributeError, TypeError) as e:
                    ok = None
                    self.trace.append([5, p])
                    self.bad("oracle/attribute-error", "resolving promise %d raised %r" % (p, e))
                must_refuse = (p in self.accepted) if user_made else (not was_eventual)
                if ok is True and must_refuse:
                    self.bad("oracle/second-resolve-accepted", "promise %d was resolved before, yet _resolve(%r) was accepted" % (p, x))
                if ok is False and not must_refuse:
                    self.bad("oracle/first-resolve-refused", "the first resolution %r of promise %d was refused" % (x, p))
                if ok is True and p not in self.accepted:
                    self.accepted[p] = x
                    if prom._state == pm.EVENTUAL:
                        self.bad("oracle/promise-not-broken" if x[0] == "fail" else "oracle/promise-not-resolved",
                                 "promise %d is still EVENTUAL after _resolve(%r) was accepted" % (p, x))
        except Exception as e:   # noqa
            self.trace.append([6, p])
            if k == "send" and len(self.P) == ridx:
                self.P.append(None)
            self.bad("oracle/operation-raised", "%s on promise %d raised %s: %s" % (k, p, type(e).__name__, str(e)[:200]))
        finally:
            self.in_op = False

    def private_send(self, k, p, prom):
        """send(p)._name / sendOnly(p)._name: refused at the call site with AttributeError; nothing is queued anywhere"""
        def sizes():
            return (len(self.q._events), len(prom.__dict__.get("_pendingMethods", ())), len(E.clock.calls))
        before = sizes()
        try:
            getattr((pm.send if k == "send" else pm.sendOnly)(prom), PRIVATE_NAME)
            self.bad("oracle/private-name-accepted", "%s(promise %d).%s did not raise AttributeError" % (k, p, PRIVATE_NAME))
        except AttributeError:
            pass
        if sizes() != before:
            self.bad("oracle/private-name-queued", "%s(promise %d).%s raised, yet (queue length, pending messages, reactor calls) "
                     "went from %r to %r" % (k, p, PRIVATE_NAME, before, sizes()))

    # ---- what the property says the resolution of promise p must finally be (None: unresolved)
    def expected(self, p, seen=()):
        if p in seen:
            return None
        if p in self.accepted:
            x = self.accepted[p]
        elif p in self.result_of:
            mid = self.result_of[p]
            tp = self.msg[mid][0]
            e = self.expected(tp, seen + (p,))
            if e is None:
                return None
            if e[0] == 1:
                return e
            if not invocable(self.msg[mid][1]):
                return (1, ATTR_ERROR)   # the target is a value without that method: the result is BROKEN with the AttributeError
            x = self.returned.get(mid)
            if x is None:
                return ("undelivered",)
            if x[0] == "deferred":       # the method returned a Deferred: the result follows what it was fired with
                x = self.fired.get(mid)
                if x is None:
                    return None
        else:
            return None
        if x[0] == "val":
            return (0, x[1])
        if x[0] == "fail":
            return (1, x[1])
        return self.expected(x[1], seen + (p,))

    def snapshot(self):
        out = [len(self.q._events)]
        for p in self.P:
            if p is None:
                out += [0, 0, 0]
                continue
            st = [pm.EVENTUAL, pm.CHAINED, pm.NEAR, pm.BROKEN].index(p._state)
            t = p.__dict__.get("_target", _MISSING)
            if t is _MISSING:
                out += [st, 0, 0]
            else:
                c = canon_outcome(t)
                out += [st, 1 + c[0], c[1]]
        return out

    def drain_and_judge(self, limit=400):
        for _ in range(limit):
            if not self.reactor_call():
                break
        else:
            self.bad("oracle/no-quiescence", "the queue did not drain in %d turns" % limit)
        if _r2_hits:
            self.bad("oracle/resolve2-on-resolved-promise", "_resolve2 was entered %d time(s) on a promise that was already "
                     "NEAR/BROKEN" % len(_r2_hits))
        for i, p in enumerate(self.P):
            if p is None:
                continue
            e = self.expected(i)
            if e == ("undelivered",):
                self.bad("oracle/message-lost", "the message whose result is promise %d was never delivered although its target "
                         "promise resolved to a value" % i)
                continue
            st = [pm.EVENTUAL, pm.CHAINED, pm.NEAR, pm.BROKEN].index(p._state)
            t = p.__dict__.get("_target", _MISSING)
            actual = None if st in (0, 1) and t is _MISSING else (canon_outcome(t) if t is not _MISSING else ("no-target",))
            if e is not None and e[0] == 1 and st != 3:
                self.bad("oracle/promise-not-broken", "promise %d must end BROKEN with failure %d, but its state is %s"
                         % (i, e[1], ["EVENTUAL", "CHAINED", "NEAR", "BROKEN"][st]))
            elif actual != e or (e is not None and st != (2 if e[0] == 0 else 3)):
                self.bad("oracle/wrong-resolution", "promise %d must end as %r, but is in state %d with target %r" % (i, e, st, actual))
            # a message to a missing method invokes nothing: the methods invoked must be exactly the OTHER messages, in send
            # order (what became of the missing-method ones is judged through their result promises, above)
            sent, got = [m for m in self.sent.get(i, []) if invocable(self.msg[m][1])], self.deliv.get(i, [])
            if e is not None and e[0] == 0:
                if got != sent:
                    self.bad("oracle/delivery-order", "messages sent to promise %d vs delivered to its resolution: %s" % (i, diffwin(sent, got)))
            elif got:
                self.bad("oracle/delivered-without-target", "promise %d did not resolve to a value, yet %r were delivered" % (i, got[:20]))
            for w, kind in self.watch.get(i, []):
                seen = self.seen.get(w, [])
                want = []
                if e is not None and not (kind == "then" and e[0] == 1) and not (kind == "except" and e[0] == 0):
                    want = [e]
                if seen != want:
                    sig = "oracle/observer-count" if len(seen) != len(want) else "oracle/observer-outcome"
                    self.bad(sig, "observer %d (%s) of promise %d was told %r; the promise's resolution is %r" % (w, kind, i, seen, e))
            self.judge_result_order(i, e)

    IMMEDIATE = ("ret", "raise", "nometh", "sendret")

    def judge_result_order(self, i, e):
        """'delivers every message sent to it, in send order', seen from outside: the messages sent to promise i whose
        outcome is decided by the delivery itself (all of them when the promise ends BROKEN; those whose method returns a
        value / raises / does not exist when it ends as a value) have their result promises resolved in send order.  An
        observer registered in the turn of the send is registered before the result can be resolved, so it is notified
        through the eventual-send queue at the moment of the resolution: the first notifications of such observers must
        come in send order."""
        if e is None or e == ("undelivered",):
            return
        first = {}
        for n, (rp, w) in enumerate(self.told_order):
            mid = self.result_of.get(rp)
            if mid is None or mid in first or self.msg[mid][0] != i or rp in self.accepted:
                continue
            if self.reg_turn.get(w) != self.sent_turn.get(mid):
                continue
            if e[0] == 0 and self.msg[mid][1][0] not in self.IMMEDIATE:
                continue
            first[mid] = n
        sent = [m for m in self.sent.get(i, []) if m in first]
        seen = sorted(first, key=first.get)
        if sent != seen:
            self.bad("oracle/result-order", "the results of the messages sent to promise %d (which ends as %r) were observed in the "
                     "order %r; they were sent in the order %r" % (i, e, seen[:20], sent[:20]))


def run_pr(prog):
    r = PrRun()
    for o in prog:
        r.op(o)
    trace = [x for e in r.trace for x in e]
    state = r.snapshot()
    full = [list(e) for e in r.trace]
    r.drain_and_judge()
    kinds = {}
    for p, ws in r.watch.items():
        for w, kind in ws:
            kinds[w] = kind
    return dict(trace=trace, state=state, viol=r.viol, full=full, kinds=kinds,
                ndeliv=sum(len(v) for v in r.deliv.values()), nobs=sum(len(v) for v in r.seen.values()),
                nrefused=r.nrefused, nchained=r.nchained, nnometh=r.nnometh)


def filter_model_trace(flat, kinds):
    """the model reports every observer; _then only hears values and _except only failures"""
    out = []
    i = 0
    size = {1: 3, 2: 4, 3: 5, 4: 2, 5: 2, 6: 2}
    while i < len(flat):
        n = size[flat[i]]
        e = flat[i:i + n]
        i += n
        if e[0] == 3:
            k = kinds.get(e[2], "when")
            if (k == "then" and e[3] == 1) or (k == "except" and e[3] == 0):
                continue
        out += e
    return out


def coq_beh(b):
    if b[0] == "retd":
        return "BRetD"
    if b[0] == "nometh":
        return "BNoMeth"
    if b[0] == "sendret":
        return "BSendRet %d %d %d" % (b[1], b[2], b[3])
    return {"ret": "BRet %d", "raise": "BRaise %d", "retp": "BRetP %d"}[b[0]] % b[1]


def coq_prop(o):
    k = o[0]
    if k == "new":
        return "PNew"
    if k == "turn":
        return "PTurn"
    if k == "send":
        return "PSend %d %d (%s)" % (o[1], o[2], coq_beh(o[3]))
    if k == "sendonly":
        return "PSendOnly %d %d (%s)" % (o[1], o[2], coq_beh(o[3]))
    if k == "when":
        return "PWhen %d %d" % (o[1], o[2])
    x = o[2]
    return "%s %d (%s)" % ("PFire" if k == "fire" else "PResolve", o[1],
                           {"val": "RVal %d", "fail": "RFail %d", "prom": "RProm %d"}[x[0]] % x[1])


def coq_prprog(prog):
    # a send to a private name never reaches the promise (AttributeError at the call site): not an operation of the model
    return "[" + "; ".join(coq_prop(o) for o in prog if not (o[0] in ("send", "sendonly") and o[3][0] == "private")) + "]"


# =====================================================================================
#                           observer.OneShotObserverList
# programs: ["w", wid] whenFired | ["f", r] fire(r) | ["t"] one reactor call
# =====================================================================================
def run_oso(prog):
    fresh_queue()
    o = obs.OneShotObserverList()
    out = []        # model-comparable: [1,w,r] watcher w is told r (in firing order) / [2] AssertionError
    viol = []
    told = {}
    state = dict(in_op=False)
    for op in prog:
        if op[0] == "t":
            one_reactor_call()
            continue
        state["in_op"] = True
        try:
            if op[0] == "w":
                d = o.whenFired()

                def cb(r, w=op[1]):
                    if state["in_op"]:
                        viol.append(("oracle/observer-fired-synchronously", "watcher %d was told %r in the turn it subscribed / "
                                     "the list fired" % (w, r)))
                    told.setdefault(w, []).append(r)
                    out.append([1, w, r])
                d.addCallback(cb)
            else:
                try:
                    o.fire(op[1])
                except AssertionError:
                    out.append([2])
                except AttributeError:
                    out.append([3])
        finally:
            state["in_op"] = False
    for _ in range(50):
        if not one_reactor_call()[0]:
            break
    fires = [op[1] for op in prog if op[0] == "f"]
    for op in prog:
        if op[0] == "w":
            want = [fires[0]] if fires else []
            if told.get(op[1], []) != want:
                viol.append(("oracle/observer-list-result", "watcher %d was told %r, the list was fired with %r"
                             % (op[1], told.get(op[1], []), fires[:1])))
    if len(fires) > 1 and out.count([2]) != len(fires) - 1:
        viol.append(("oracle/observer-list-refire", "fire() was called %d times and refused %d times" % (len(fires), out.count([2]))))
    return dict(out=out, viol=viol)


def observer_list_oracle(ctx):
    import itertools, json
    from harness import common
    progs = []
    for n in range(1, ctx.n(6, 8) + 1):
        for wd in itertools.product("WFT", repeat=n):
            k = [0]

            def nxt():
                k[0] += 1
                return k[0]
            progs.append([["w", nxt()] if ch == "W" else (["f", 50 + nxt()] if ch == "F" else ["t"]) for ch in wd])
    res = []
    with E.quiet():
        for p in progs:
            r = run_oso(p)
            res.append(r)
            for sig, text in r["viol"]:
                ctx.fail(sig, "%s; program %s" % (text, json.dumps(p)), replay=dict(kind="oso", program=p))
            ctx.case(["oso", p], nontrivial=any(e[0] == 1 for e in r["out"]))
            ctx.hist("oso_told", min(sum(1 for e in r["out"] if e[0] == 1), 6))
    # the model schedules eventual-sends in FIFO order; the order of [1,w,r] records after draining must be that order,
    # with the AssertionErrors taken out (they happen at operation time)
    for k in range(0, len(progs), 600):
        chunk = progs[k:k + 600]
        body = ("\nDefinition enc (o : oso_out) : list Z := match o with OEventually w r => [1; w; r]%Z | OAssert => [2]%Z | OCrash => [3]%Z end."
                "\nDefinition cases : list (list oso_op) := " +
                common.coq_list(chunk, lambda p: "[" + "; ".join(
                    ("OWhenFired %d" % o[1]) if o[0] == "w" else ("OFire %d" % o[1]) for o in p if o[0] != "t") + "]") +
                ".\nEval vm_compute in map (fun p => flat_map enc (snd (oso_run oso0 p))) cases.\n")
        try:
            (vals,) = ctx.coq_eval("C17_oso_%d" % (k // 600), body, requires=["Verif.gen.EventualGen", "Verif.lib.Promise"])
        except common.CoqEvalError as e:
            ctx.fail("correspondence-broken", "the observer-list model could not be evaluated: " + str(e)[-1500:], has_input=False)
            return
        for p, r, v in zip(chunk, res[k:k + 600], vals):
            ctx.traces += 1
            impl_told = [x for e in r["out"] if e[0] == 1 for x in e]
            impl_as = [e[0] for e in r["out"] if e[0] != 1]
            mv = list(v)
            m_told, m_as, i = [], [], 0
            while i < len(mv):
                if mv[i] == 1:
                    m_told += mv[i:i + 3]
                    i += 3
                else:
                    m_as.append(mv[i])
                    i += 1
            if m_told != impl_told or m_as != impl_as:
                ctx.fail("correspondence/oso", "observer-list model and implementation disagree on %s: model %r, implementation %r"
                         % (json.dumps(p), mv, r["out"]), replay=dict(kind="oso", program=p, model=mv, impl=r["out"]), has_input=False)
    ctx.extra["correspondence_oso_cases"] = len(progs)


# =====================================================================================
#   flush observers whose callbacks enqueue work and / or call flush again: a direct oracle that does not go through
#   EvRun (the same shapes are also in c17.ev_flushcb_family, where they are compared with the model)
# =====================================================================================
def flush_observer_oracle(ctx):
    """k flush requests are outstanding when the queue drains; the callback of observer `enq_by` enqueues a callable; the
    callback of observer `again` calls flushEventualQueue() once more (before / after enqueueing, when it is the same
    observer), and the callback of THAT request does so a second time.  Every notification must be delivered exactly once,
    with nothing queued, the outstanding ones in request order."""
    import json
    for k in (2, 3):
        for enq_by in range(k):
            for again in [None] + list(range(k)):
                for again_first in ((False, True) if again == enq_by else (False,)):
                    for inside in (False, True):
                        q = fresh_queue()
                        log = []
                        ran = []

                        def ask(i, level=0):
                            d = ev.flushEventualQueue()

                            def cb(_, i=i, level=level):
                                log.append((i, len(q._events)))
                                if level == 0 and i == again and again_first:
                                    ask(k + i, 1)
                                if level == 0 and i == enq_by:
                                    ev.eventually(lambda: ran.append("late"))
                                if level == 0 and i == again and not again_first:
                                    ask(k + i, 1)
                                if level == 1:
                                    ask(2 * k + i, 2)
                            d.addCallback(cb)

                        def first():
                            ran.append("first")
                            if inside:
                                for i in range(k):
                                    ask(i)
                        ev.eventually(first)
                        if not inside:
                            for i in range(k):
                                ask(i)
                        for _ in range(20):
                            if not one_reactor_call()[0]:
                                break
                        cfg = dict(observers=k, enqueuing_observer=enq_by, requested_inside_callable=inside,
                                   observer_calling_flush_again=again, flush_before_enqueue=again_first)
                        ctx.case(["flushobs", k, enq_by, inside, again, again_first], nontrivial=True)
                        bad = [(i, n) for i, n in log if n]
                        want = list(range(k)) + ([k + again, 3 * k + again] if again is not None else [])
                        outer = [i for i, _ in log if i < k]
                        if sorted(i for i, _ in log) != sorted(want) or ran != ["first", "late"]:
                            ctx.fail("oracle/flush-observer-lost", "flush observers notified %r (expected each of %r once), callables "
                                     "run %r for %s" % (log, want, ran, json.dumps(cfg)), replay=dict(kind="flushobs", cfg=cfg, log=log))
                        elif bad:
                            ctx.fail("oracle/flush-notified-after-earlier-observer-enqueued",
                                     "flush observer %d was notified while %d callable(s) queued by an earlier observer's callback had not "
                                     "run; %s" % (bad[0][0], bad[0][1], json.dumps(cfg)), replay=dict(kind="flushobs", cfg=cfg, log=log))
                        elif outer != list(range(k)):
                            ctx.fail("oracle/flush-order", "outstanding flush observers were notified in the order %r; %s"
                                     % (outer, json.dumps(cfg)), replay=dict(kind="flushobs", cfg=cfg, log=log))


# =====================================================================================
#   argument names that collide with parameters / locals of the functions on the delivery path
# =====================================================================================
def colliding_names():
    """every parameter and local-variable name of the functions of foolscap.promise / foolscap.eventual (read from the
    tree under test) and of the Twisted functions they call, plus a fixed list; deterministic order"""
    import inspect, keyword
    names = set(["f", "callable", "func", "self", "args", "kwargs", "methname", "resolver", "_", "name", "cb", "method",
                 "callback", "errback", "result", "value", "fn", "function", "target", "kw", "a", "k"])
    def scan(obj):
        for _, fn in inspect.getmembers(obj, lambda x: inspect.isfunction(x)):
            names.update(fn.__code__.co_varnames)
    for mod in (pm, ev):
        scan(mod)
        for _, cls in inspect.getmembers(mod, inspect.isclass):
            if cls.__module__ == mod.__name__:
                scan(cls)
    for fn in (defer.maybeDeferred, defer.Deferred.addCallbacks, defer.Deferred.addBoth, defer.Deferred.addCallback,
               defer.Deferred.callback, defer.succeed, defer.fail, defer.execute):
        names.update(fn.__code__.co_varnames[:fn.__code__.co_argcount + 2])
    return sorted(n for n in names if n.isidentifier() and not keyword.iskeyword(n))


def entry_point_params(fn):
    """named parameters of a public entry point: a caller cannot pass its callable a keyword of that name (Python binds
    it to the entry point's own parameter: TypeError at the call, nothing is queued)"""
    import inspect
    return [p.name for p in inspect.signature(fn).parameters.values()
            if p.kind in (p.POSITIONAL_OR_KEYWORD, p.KEYWORD_ONLY)]
