"""C02 / C12: drivers of the real schema machinery (constraint.py, schema.py, slicers/*, remoteinterface.py,
call.py, broker.py) on a loopback Broker pair, plus the converters between the JSON case language, the
real Python objects and the Coq terms of lib/Schema.v.

Case language (all JSON-able):
  constraint spec  cs :=  ["any"] | ["int", mb] | ["number", mb] | ["bytes", maxL, minL] | ["text", maxL, minL]
                        | ["bool", v] | ["none"] | ["list", cs, maxL, minL] | ["tuple", [cs..]] | ["dict", k, v, maxK]
                        | ["set", cs, maxL, mut] | ["choice", [cs..]] | ["opt", cs]
                        | ["py", "int"|"str"|"bytes"|"bool"|"float"|"none"]      (public shorthand, adapted by IConstraint)
                        | ["pytuple", [cs..]]                                     (python tuple shorthand -> TupleConstraint)
  value spec       vs :=  ["i", n] | ["f", bits] | ["b", [byte..]] | ["t", [codepoint..]] | ["B", bool] | ["N"]
                        | ["l", [vs..]] | ["T", [vs..]] | ["s", [vs..]] | ["fs", [vs..]] | ["d", [[k, v]..]]
  wire spec        ws :=  ["wi", tbname, size, value] | ["wf", bits] | ["ws", vocab?, size, [byte..]]   (also inside
                          OPEN unicode: the payload is the BODY BYTES, whatever they are -- a peer can put any there)
                        | ["wo", opentype, [ws..]] | ["wr", vs, argno]   (wr: OPEN reference to an earlier argument of shape vs;
                                          argno = ["sib", i, up=0]: to the i-th, already CLOSED, member of the enclosing sequence `up` levels out)
                        | ["wq", k, partial vs]  (the same for an enclosing list / dict: the receiver holds the real, partially
                                          filled container; partial = the value it has when the reference arrives)
                        | ["wp", k]      (OPEN reference to the k-th ENCLOSING sequence, which is still open; k = 0 is the
                                          sequence that directly contains the reference; the target must be a tuple)
"""
import struct
from zope.interface import implementer
from harness import implenv as E
from foolscap import schema, constraint as C, tokens, banana
from foolscap.api import Referenceable, RemoteInterface
from foolscap.remoteinterface import RemoteMethodSchema
from foolscap.slicers.unicode import UnicodeConstraint
from foolscap.slicers.bool import BooleanConstraint
from foolscap.slicers.none import Nothing
from foolscap.slicers.list import ListConstraint
from foolscap.slicers.tuple import TupleConstraint
from foolscap.slicers.dict import DictConstraint
from foolscap.slicers.set import SetConstraint
from foolscap.tokens import Violation, BananaError

# ------------------------------------------------------------------ a family of RemoteInterfaces (with inheritance)
_family = {}
FAMILY_PARENTS = {"RIVBase": ["RemoteInterface"], "RIVDerived": ["RIVBase", "RemoteInterface"],
                  "RIVSub": ["RIVDerived", "RIVBase", "RemoteInterface"], "RIVOther": ["RemoteInterface"], "RemoteInterface": []}


def family():
    """RIVBase <- RIVDerived <- RIVSub, and the unrelated RIVOther (created once per process)"""
    if not _family:
        meta = RemoteInterface.__class__
        _family["RemoteInterface"] = RemoteInterface
        _family["RIVBase"] = meta("RIVBase", (RemoteInterface,), {"__remote_name__": "RIVBase"})
        _family["RIVDerived"] = meta("RIVDerived", (_family["RIVBase"],), {"__remote_name__": "RIVDerived"})
        _family["RIVSub"] = meta("RIVSub", (_family["RIVDerived"],), {"__remote_name__": "RIVSub"})
        _family["RIVOther"] = meta("RIVOther", (RemoteInterface,), {"__remote_name__": "RIVOther"})
    return _family


def referenceable_claiming(name):
    """a Referenceable that implements the named interface of the family (None: no RemoteInterface at all)"""
    if name is None:
        return Referenceable()
    cls = implementer(family()[name])(type("RefTo" + name, (Referenceable,), {}))
    return cls()


# ------------------------------------------------------------------ constraints
PYSHORT = {"int": int, "str": str, "bytes": bytes, "bool": bool, "float": float, "none": None}


def build(cs):
    """constraint spec -> object handed to the PUBLIC vocabulary (may be a python type: adapted later by IConstraint)"""
    k = cs[0]
    if k == "any":
        return schema.Any()
    if k == "int":
        return schema.IntegerConstraint(maxBytes=cs[1])
    if k == "number":
        return schema.NumberConstraint(maxBytes=cs[1])
    if k == "bytes":
        return schema.ByteStringConstraint(maxLength=cs[1], minLength=cs[2])
    if k == "text":
        return schema.UnicodeConstraint(maxLength=cs[1], minLength=cs[2])
    if k == "bool":
        return schema.BooleanConstraint(cs[1])
    if k == "none":
        return schema.Nothing()
    if k == "list":
        return schema.ListOf(build(cs[1]), maxLength=cs[2], minLength=cs[3])
    if k == "tuple":
        return schema.TupleOf(*[build(x) for x in cs[1]])
    if k == "dict":
        return schema.DictOf(build(cs[1]), build(cs[2]), maxKeys=cs[3])
    if k == "set":
        return schema.SetOf(build(cs[1]), maxLength=cs[2], mutable=cs[3])
    if k == "choice":
        return schema.ChoiceOf(*[build(x) for x in cs[1]])
    if k == "opt":
        return schema.Optional(build(cs[1]), None)
    if k == "remote":
        # the public shorthand: the RemoteInterface itself is the constraint (adapted to RemoteInterfaceConstraint)
        from foolscap.remoteinterface import RemoteInterfaceConstraint
        return RemoteInterfaceConstraint(None) if cs[1] is None else family()[cs[1]]
    if k == "py":
        return PYSHORT[cs[1]]
    if k == "pytuple":
        return tuple(build(x) for x in cs[1])
    raise ValueError(cs)


def coq_opt_Z(x):
    return "None" if x is None else "(Some (%d))" % x


def to_ctr(c):
    """REAL constraint object -> Coq `ctr` term, read from the object's attributes (exact classes only)"""
    t = type(c)
    if t is C.Any:
        return "CAny"
    if t is C.IntegerConstraint:
        return "(CInt %s)" % coq_opt_Z(c.maxBytes)
    if t is C.NumberConstraint:
        return "(CNumber %s)" % coq_opt_Z(c.maxBytes)
    if t is C.ByteStringConstraint:
        return "(CBytes %s (%d))" % (coq_opt_Z(c.maxLength), c.minLength)
    if t is UnicodeConstraint:
        if c.regexp is not None:
            raise ValueError("regexp constraints are outside the model")
        return "(CText %s (%d))" % (coq_opt_Z(c.maxLength), c.minLength)
    if t is BooleanConstraint:
        return "(CBool %s)" % ("None" if c.value is None else "(Some %s)" % ("true" if c.value else "false"))
    if t is Nothing:
        return "CNone"
    if t is ListConstraint:
        return "(CList %s %s (%d))" % (to_ctr(c.constraint), coq_opt_Z(c.maxLength), c.minLength)
    if t is TupleConstraint:
        return "(CTuple [%s])" % "; ".join(to_ctr(x) for x in c.constraints)
    if t is DictConstraint:
        return "(CDict %s %s %s)" % (to_ctr(c.keyConstraint), to_ctr(c.valueConstraint), coq_opt_Z(c.maxKeys))
    if t is SetConstraint:
        m = c.mutable
        return "(CSet %s %s %s)" % (to_ctr(c.constraint), coq_opt_Z(c.maxLength),
                                    "None" if m is None else "(Some %s)" % ("true" if m else "false"))
    if t is schema.PolyConstraint:
        return "(CChoice [%s])" % "; ".join(to_ctr(x) for x in c.alternatives)
    if t is C.Optional:
        return "(COpt %s)" % to_ctr(c.constraint)
    from foolscap.remoteinterface import RemoteInterfaceConstraint
    if t is RemoteInterfaceConstraint:
        if c.interface is None:
            return "(CRemote None)"
        return "(CRemote (Some %s))" % coq_zlist(list(c.interface.__remote_name__.encode()))
    raise ValueError("constraint class outside the model: %r" % (t,))


# ------------------------------------------------------------------ values
def f_of_bits(bits):
    return struct.unpack("!d", struct.pack("!Q", bits))[0]


def bits_of_f(x):
    return struct.unpack("!Q", struct.pack("!d", x))[0]


def to_py(vs, memo=None):
    """["sh", id, vs]: every occurrence with the same id is ONE python object (pass one memo dict per call)"""
    k = vs[0]
    if k == "sh":
        if memo is None:
            return to_py(vs[2])
        if vs[1] not in memo:
            memo[vs[1]] = to_py(vs[2], memo)
        return memo[vs[1]]
    if memo is not None and k in ("l", "T", "s", "fs"):
        seq = [to_py(x, memo) for x in vs[1]]
        return {"l": list, "T": tuple, "s": set, "fs": frozenset}[k](seq)
    if memo is not None and k == "d":
        return {to_py(a, memo): to_py(b, memo) for a, b in vs[1]}
    if k == "i":
        return vs[1]
    if k == "f":
        return f_of_bits(vs[1])
    if k == "b":
        return bytes(vs[1])
    if k == "t":
        return "".join(chr(x) for x in vs[1])
    if k == "B":
        return bool(vs[1])
    if k == "N":
        return None
    if k == "l":
        return [to_py(x) for x in vs[1]]
    if k == "T":
        return tuple(to_py(x) for x in vs[1])
    if k == "s":
        return set(to_py(x) for x in vs[1])
    if k == "fs":
        return frozenset(to_py(x) for x in vs[1])
    if k == "d":
        return {to_py(a): to_py(b) for a, b in vs[1]}
    raise ValueError(vs)


def canon(o, _stack=()):
    """python object -> canonical value spec (sets / dicts sorted by the repr of the canonical form).  A cyclic object
    (a container that contains itself) is cut where it re-enters an ancestor: ["P", k], k = number of container levels
    between the occurrence's own container and that ancestor (0 = its own container)"""
    if isinstance(o, bool):
        return ["B", o]
    if isinstance(o, int):
        return ["i", o]
    if isinstance(o, float):
        return ["f", bits_of_f(o)]
    if isinstance(o, bytes):
        return ["b", list(o)]
    if isinstance(o, str):
        return ["t", [ord(ch) for ch in o]]
    if o is None:
        return ["N"]
    if isinstance(o, (list, tuple, set, frozenset, dict)):
        for k, anc in enumerate(reversed(_stack)):
            if anc is o:
                return ["P", k]
        st = _stack + (o,)
        if isinstance(o, list):
            return ["l", [canon(x, st) for x in o]]
        if isinstance(o, tuple):
            return ["T", [canon(x, st) for x in o]]
        if isinstance(o, frozenset):
            return ["fs", sorted((canon(x, st) for x in o), key=repr)]
        if isinstance(o, set):
            return ["s", sorted((canon(x, st) for x in o), key=repr)]
        return ["d", sorted(([canon(a, st), canon(b, st)] for a, b in o.items()), key=repr)]
    if hasattr(o, "tracker") and hasattr(o.tracker, "interfaceName"):
        return ["R", o.tracker.interfaceName]            # a RemoteReference: the interface name its sender claimed
    return ["other", type(o).__name__]


def canon_vs(vs):
    return canon(to_py(vs))          # sharing marks are dropped: the tree value


def has_sharing(vs):
    if vs[0] == "sh":
        return True
    if vs[0] in ("l", "T", "s", "fs"):
        return any(has_sharing(x) for x in vs[1])
    if vs[0] == "d":
        return any(has_sharing(a) or has_sharing(b) for a, b in vs[1])
    return False


def unencodable(vs):
    """does the value hold text without a UTF-8 form (a lone surrogate, U+D800..U+DFFF)?  str.encode("UTF-8") refuses
    exactly those"""
    k = vs[0]
    if k == "sh":
        return unencodable(vs[2])
    if k == "t":
        return any(0xD800 <= c <= 0xDFFF for c in vs[1])
    if k in ("l", "T", "s", "fs"):
        return any(unencodable(x) for x in vs[1])
    if k == "d":
        return any(unencodable(a) or unencodable(b) for a, b in vs[1])
    return False


def coq_int(n):
    """Coq Z term for n; big decimal literals are catastrophically slow to parse (seconds each), so numbers beyond
    64 bits are written as 2^k +/- d when possible and in hexadecimal otherwise"""
    if abs(n) < 2 ** 64:
        return "(%d)" % n
    a = abs(n)
    k = a.bit_length() - 1
    if a - 2 ** k < 2 ** 64:
        t = "(2^%d + %d)" % (k, a - 2 ** k)
    elif 2 ** (k + 1) - a < 2 ** 64:
        t = "(2^%d - %d)" % (k + 1, 2 ** (k + 1) - a)
    else:
        t = "(%s)" % hex(a)
    return t if n >= 0 else "(- %s)" % t


def coq_zlist(xs):
    return "[" + ";".join(str(x) for x in xs) + "]"


def to_obj(vs):
    """value spec -> Coq `obj` term"""
    k = vs[0]
    if k == "i":
        return "(OInt %s)" % coq_int(vs[1])
    if k == "f":
        return "(OFloat %d)" % vs[1]
    if k == "b":
        return "(OBytes %s)" % coq_zlist(vs[1])
    if k == "t":
        return "(OText %s)" % coq_zlist(vs[1])
    if k == "B":
        return "(OBool %s)" % ("true" if vs[1] else "false")
    if k == "N":
        return "ONone"
    if k in ("l", "T", "s", "fs"):
        con = {"l": "OList", "T": "OTuple", "s": "OSet", "fs": "OFset"}[k]
        return "(%s [%s])" % (con, "; ".join(to_obj(x) for x in vs[1]))
    if k == "d":
        return "(ODict [%s] [%s])" % ("; ".join(to_obj(a) for a, b in vs[1]), "; ".join(to_obj(b) for a, b in vs[1]))
    if k == "P":
        return "(OPending %d)" % vs[1]
    if k == "R":
        return "(ORemote %s)" % coq_zlist(list((vs[1] or "").encode()))
    raise ValueError(vs)


# ------------------------------------------------------------------ wire trees
TB = {"INT": tokens.INT, "NEG": tokens.NEG, "LONGINT": tokens.LONGINT, "LONGNEG": tokens.LONGNEG,
      "FLOAT": tokens.FLOAT, "STRING": tokens.STRING, "VOCAB": tokens.VOCAB, "OPEN": tokens.OPEN, "CLOSE": tokens.CLOSE}
OTYPES = {"list": "OtList", "tuple": "OtTuple", "set": "OtSet", "immutable-set": "OtFset", "dict": "OtDict",
          "unicode": "OtUnicode", "boolean": "OtBool", "none": "OtNone", "my-reference": "OtMyRef"}


def hdr(n):
    out = []
    banana.int2b128(n, out.append)
    return b"".join(out)


def long_bytes(n):
    return banana.long_to_bytes(n)


def int_ws(n):
    """the wire form the honest sender uses for int n (mirrors Banana.sendToken; validated against it in the tie)"""
    if n >= 2 ** 31:
        return ["wi", "LONGINT", len(long_bytes(n)), n]
    if n >= 0:
        return ["wi", "INT", n, n]
    if -n > 2 ** 31:
        return ["wi", "LONGNEG", len(long_bytes(-n)), n]
    return ["wi", "NEG", -n, n]


def str_ws(payload, raw, voc):
    """STRING token, or VOCAB token (header = index) when the bytes are a word of the connection's vocabulary"""
    if voc and raw in voc:
        return ["ws", True, voc.index(raw), payload]
    return ["ws", False, len(raw), payload]


def slice_vs(vs, voc=None, seen=None):
    """value spec -> wire spec as the honest sender emits it on a connection whose vocabulary is voc (list of words);
    with seen (a set), an object marked ["sh", id, ..] that was already sent in this call travels as a reference.
    Containers are walked in list order: shared objects must only be placed where that is the real slicing order."""
    k = vs[0]
    if k == "sh":
        if vs[2][0] == "fs":
            return slice_vs(vs[2], voc, seen)          # FrozenSetSlicer.trackReferences is False: always sent in full
        if seen is not None and vs[1] in seen:
            return ["wr", canon_vs(vs[2]), None]
        if seen is not None:
            seen.add(vs[1])
        return slice_vs(vs[2], voc, seen)
    if k == "i":
        return int_ws(vs[1])
    if k == "f":
        return ["wf", vs[1]]
    if k == "b":
        return str_ws(vs[1], bytes(vs[1]), voc)
    if k == "t":
        # payload = the UTF-8 body bytes; a lone surrogate is hand-encoded in its generic three-byte form
        raw = to_py(vs).encode("utf-8", "surrogatepass")
        return ["wo", "unicode", [str_ws(list(raw), raw, voc)]]
    if k == "B":
        return ["wo", "boolean", [["wi", "INT", 1 if vs[1] else 0, 1 if vs[1] else 0]]]
    if k == "N":
        return ["wo", "none", []]
    if k in ("l", "T", "s", "fs"):
        return ["wo", {"l": "list", "T": "tuple", "s": "set", "fs": "immutable-set"}[k], [slice_vs(x, voc, seen) for x in vs[1]]]
    if k == "d":
        kids = []
        for a, b in vs[1]:
            kids += [slice_vs(a, voc, seen), slice_vs(b, voc, seen)]
        return ["wo", "dict", kids]
    raise ValueError(vs)


def to_wobj(ws):
    k = ws[0]
    if k == "wi":
        return "(WInt %d %s %s)" % (TB[ws[1]][0], coq_int(ws[2]), coq_int(ws[3]))
    if k == "wf":
        return "(WFloat %d)" % ws[1]
    if k == "ws":
        return "(WStr %s (%d) %s)" % ("true" if ws[1] else "false", ws[2], coq_zlist(ws[3]))
    if k == "wo":
        return "(WOpen %s [%s])" % (OTYPES[ws[1]], "; ".join(to_wobj(x) for x in ws[2]))
    if k == "wr":
        return "(WRef %s)" % to_obj(ws[1])
    if k == "wp":
        return "(WRef (OPending %d))" % ws[1]
    if k == "wq":
        return "(WRefOpen %d %s)" % (ws[1], to_obj(ws[2]))
    raise ValueError(ws)


class Enc:
    """hand encoder of banana token streams (open counters are ours; the receiver only echoes them)"""

    def __init__(self):
        self.out = []
        self.opens = 0          # openCount for the next OPEN token
        self.objects = 0        # receiver's objectCounter for the next OPEN token (set by the caller)

    def tok(self, tb, n, body=b""):
        self.out.append(hdr(n) + tb + body)

    def string(self, b):
        self.tok(tokens.STRING, len(b), b)

    def open(self, *index):
        oc = self.opens
        self.opens += 1
        objid = self.objects
        self.objects += 1
        self.tok(tokens.OPEN, oc)
        for ix in index:
            self.string(ix)
        return oc, objid

    def close(self, oc):
        self.tok(tokens.CLOSE, oc)

    def int(self, n):
        w = int_ws(n)
        self.wire(w)

    def wire(self, ws, refs=None, text=False, stack=(), sibs=None):
        """emit one wire tree; returns the receiver-side object id of its OPEN token (None for plain tokens)"""
        k = ws[0]
        if k == "wi":
            tb, size, v = TB[ws[1]], ws[2], ws[3]
            if ws[1] in ("LONGINT", "LONGNEG"):
                body = long_bytes(abs(v)).rjust(size, b"\x00")[:size] if size else b""
                self.tok(tb, size, body)
            else:
                self.tok(tb, size)
        elif k == "wf":
            self.out.append(tokens.FLOAT + struct.pack("!Q", ws[1]))
        elif k == "ws":
            if ws[1]:
                self.tok(tokens.VOCAB, ws[2])
            else:
                body = bytes(ws[3])                     # (also inside OPEN unicode: the payload is the body bytes)
                assert len(body) == ws[2], (ws, body)
                self.tok(tokens.STRING, ws[2], body)
        elif k == "wo":
            oc, objid = self.open(ws[1].encode())
            kids = []
            for x in ws[2]:
                kids.append(self.wire(x, refs, text=(ws[1] == "unicode"), stack=stack + (objid,), sibs=(sibs or ()) + (kids,)))
            self.close(oc)
            return objid
        elif k == "wc":
            # OPEN copyable <typename> child.. CLOSE  (children: attribute names and values, whatever they are)
            oc, objid = self.open(b"copyable", ws[1].encode())
            for x in ws[2]:
                self.wire(x, refs, text=False, stack=stack + (objid,))
            self.close(oc)
            return objid
        elif k in ("wp", "wq"):
            oc, _ = self.open(b"reference")
            self.tok(tokens.INT, stack[len(stack) - 1 - ws[1]])
            self.close(oc)
        elif k == "wr":
            # OPEN reference <objid> CLOSE, objid = the earlier positional argument number ws[2] of this call
            oc, _ = self.open(b"reference")
            self.tok(tokens.INT, sibs[-1 - (ws[2][2] if len(ws[2]) > 2 else 0)][ws[2][1]] if isinstance(ws[2], list) else refs[ws[2]])
            self.close(oc)
        else:
            raise ValueError(ws)

    def bytes(self):
        return b"".join(self.out)


# ------------------------------------------------------------------ brokers
_counter = [0]


def make_interface(methods, direct=False, bases=None):
    """methods: {name: (argnames, [constraint objects/shorthands], response or None)} -> a fresh RemoteInterface.
    Both public ways of declaring a method schema: a prototype function whose defaults are the constraints
    (RemoteMethodSchema.initFromMethod), or, with direct=True, a RemoteMethodSchema(_response=..., **constraints)
    assigned in the interface body (RemoteMethodSchema.__init__ with keyword arguments).
    bases: the RemoteInterfaces it derives from (default: RemoteInterface itself)."""
    _counter[0] += 1
    attrs = {"__remote_name__": "RIVerif%d" % _counter[0]}
    for name, (argnames, cons, resp) in methods.items():
        if direct:
            attrs[name] = RemoteMethodSchema(_response=resp if resp is not None else Nothing(), **dict(zip(argnames, cons)))
            continue
        env = {"_d": list(cons), "_r": resp}
        src = "def %s(%s):\n    return _r\n" % (name, ", ".join("%s=_d[%d]" % (a, i) for i, a in enumerate(argnames)))
        exec(src, env)
        attrs[name] = env[name]
    return RemoteInterface.__class__("RIVerif%d" % _counter[0], tuple(bases) if bases else (RemoteInterface,), attrs)


def own_method(iface, name):
    """the schema a RemoteInterface declares ITSELF for the name (not what it inherits), or None"""
    return iface.direct(name)


class Target(Referenceable):
    echo = False

    def __init__(self, names, results=None):
        self.calls = []
        self.results = results or {}
        for n in names:
            setattr(self, "remote_" + n, self._mk(n))

    def _mk(self, n):
        def m(*a, **kw):
            self.calls.append((n, a, kw))
            if self.echo:
                return a[0] if a else list(kw.values())[0]
            return self.results.get(n)
        return m


class SharedTarget(Target):
    """ONE python class for many targets: each instance declares its own RemoteInterface with zope's directlyProvides
    (Referenceable.getInterface() supports that), so what governs a call is the interface of the INSTANCE"""


def export(tb, cb, target, iname=None):
    tr = tb.getTrackerForMyReference(target.processUniqueID(), target)
    tr.send()
    return cb.getTrackerForYourReference(tr.clid, iname).getRef(), tr.clid


def outcome_of(res):
    """what a callRemote Deferred fired with -> ("ok", value) | ("violation-local"|"violation-remote"|"dead"|"exc", text)"""
    if not res:
        return ("pending", None)
    r = res[0]
    from twisted.python.failure import Failure
    if not isinstance(r, Failure):
        return ("ok", r)
    from foolscap.tokens import RemoteException
    from foolscap.ipb import DeadReferenceError
    if r.check(Violation):
        return ("violation-local", str(r.value)[:200])
    if r.check(DeadReferenceError):
        return ("dead", str(r.value)[:200])
    if r.check(RemoteException):
        inner = r.value.failure
        if "Violation" in str(inner.type):
            return ("violation-remote", str(inner.value)[:200])
        return ("exc-remote", "%s: %s" % (inner.type, str(inner.value)[:200]))
    return ("exc", "%s: %s" % (r.type, str(r.value)[:200]))


def vocab_broker_pair(vocab_index):
    """a loopback Broker pair with the parameters a real negotiation hands to both Brokers: the initial vocab table"""
    from foolscap.test.common import Loopback
    from foolscap import broker
    from foolscap.referenceable import TubRef
    params = {"initial-vocab-table-index": vocab_index} if vocab_index else {}
    tb = broker.Broker(TubRef("targetBroker"), params=dict(params))
    cb = broker.Broker(TubRef("callingBroker"), params=dict(params))
    t1 = Loopback(); t1.peer = cb; t1.protocol = tb; tb.transport = t1
    t2 = Loopback(); t2.peer = tb; t2.protocol = cb; cb.transport = t2
    tb.connectionMade(); cb.connectionMade()
    if vocab_index:
        assert cb.outgoingVocabulary and tb.incomingVocabulary, "vocab table was not populated"
    return tb, cb


def vocab_words(vocab_index):
    from foolscap import vocab
    return list(vocab.INITIAL_VOCAB_TABLES[vocab_index])


_shared_classes = {}
_worlds = [0]
# Collecting a dead RemoteReference runs a weakref callback that calls eventually() -> Clock.callLater; when the cyclic
# collector happens to run while task.Clock is sorting its call list that raises "list modified during sort".  Cycle
# collection is therefore done only at fixed points (between trials), which also makes every run reproducible.
import gc
gc.disable()


class World:
    """a Broker pair, a Target implementing a fresh RemoteInterface with one method `m`"""

    def __init__(self, argnames, cons, resp=None, result=None, shared_iface=True, vocab=0, direct=False,
                 per_instance=False, echo=False, chain=None, level=None, meth="m"):
        """chain: instead of ONE interface with the method m(argnames=cons), a chain of RemoteInterfaces, root first, each
        deriving from the one before it; a layer is {method name: (argnames, cons, resp)} (what that interface declares
        itself).  The target implements chain[level] (default: the most derived one) and the call addresses `meth`.
        self.ms: the schema of the most derived interface -- at or below level -- that declares meth (None: undeclared),
        found by walking the chain here, not by asking the interface."""
        _worlds[0] += 1
        if _worlds[0] % 20 == 0:
            gc.collect()
            E.turn()
        E.reset_clock()
        self.vocab = vocab
        self.meth = meth
        names = ["m"]
        if chain is None:
            self.iface = make_interface({"m": (argnames, cons, resp)}, direct=direct)
            self.ms = self.iface["m"]
            self.layers = [[("m", self.ms)]]
        else:
            self.ifaces = []
            for layer in chain:
                self.ifaces.append(make_interface(layer, direct=direct, bases=(self.ifaces[-1],) if self.ifaces else None))
            level = len(chain) - 1 if level is None else level
            self.iface = self.ifaces[level]
            # the own method tables of the interfaces of __iro__: the interface itself, then its bases
            self.layers = [[(n, own_method(self.ifaces[i], n)) for n in sorted(chain[i])] for i in range(level, -1, -1)]
            self.ms = None
            for layer in self.layers:
                hit = [m_ for n, m_ in layer if n == meth]
                if hit:
                    self.ms = hit[0]
                    break
            names = sorted({n for layer in chain for n in layer} | {meth})
        if per_instance:
            from zope.interface import directlyProvides
            # per_instance names a GROUP: all targets of one group are instances of one python class
            if per_instance not in _shared_classes:
                _shared_classes[per_instance] = type("SharedTarget_%s" % per_instance, (SharedTarget,), {})
            self.target = _shared_classes[per_instance](names, {meth: result})
            directlyProvides(self.target, self.iface)
        else:
            cls = implementer(self.iface)(type("T", (Target,), {}))
            self.target = cls(names, {meth: result})
        self.target.echo = echo
        self.tb, self.cb = vocab_broker_pair(vocab)
        self.recv_errors = []
        for b in (self.tb, self.cb):
            b.reportReceiveError = self._spy(b.reportReceiveError)
        self.rr, self.clid = export(self.tb, self.cb, self.target, self.iface.__remote_name__ if shared_iface else None)

    def _spy(self, orig):
        def report(f):
            self.recv_errors.append("%s: %s" % (f.type.__name__, str(f.value)[:1500]))
            return orig(f)
        return report

    def call(self, args, kwargs, **extra):
        res = []
        kw = dict(kwargs)
        kw.update(extra)
        self.rr.callRemote(self.meth, *args, **kw).addBoth(res.append)
        E.turn()
        return res

    def refused_call(self):
        """history for this connection: a call (to a second target, m(a=int)) that the receiver refuses in the middle --
        the argument is a nested list sent without the local check -- and whose remaining tokens it discards"""
        iface = make_interface({"m": (["a"], [int], None)})
        cls = implementer(iface)(type("TJunk", (Target,), {}))
        t2 = cls(["m"])
        rr2, _ = export(self.tb, self.cb, t2, iface.__remote_name__)
        self._history = (t2, rr2)                    # kept alive as long as the World
        res = []
        rr2.callRemote("m", [[1], [2, [3]], {4: [5]}], _useSchema=False).addBoth(res.append)
        E.turn()
        return outcome_of(res), len(t2.calls)

    def alive(self):
        return not self.tb.disconnected and not self.cb.disconnected

    def probe(self):
        """is the connection still usable?  (a sibling call on a second, unconstrained object)"""
        if not self.alive():
            return False
        t2 = Target(["ping"], {"ping": 99})
        rr2, _ = export(self.tb, self.cb, t2)
        res = []
        rr2.callRemote("ping").addBoth(res.append)
        E.turn()
        return res == [99]

    def feed_call(self, reqid, body_fn, methname=None):
        """deliver a hand-built `call` sequence to the target broker; body_fn(enc) emits the `arguments` sequence.
        Returns the raw bytes fed."""
        if methname is None:
            methname = self.meth.encode()
        enc = Enc()
        enc.objects = self.tb.objectCounter
        oc, _ = enc.open(b"call")
        enc.tok(tokens.INT, reqid)
        enc.tok(tokens.INT, self.clid)
        enc.string(methname)
        body_fn(enc)
        enc.close(oc)
        data = enc.bytes()
        self.tb.dataReceived(data)
        E.turn()
        return data


def call_seq_trial(argnames, cons, children_fn, **world_kw):
    """a hand-built OPEN call whose CHILDREN are whatever children_fn(clid, clid2) returns: wire specs, or
    ["wa", count, items] for an `arguments` sequence (count: int / None / wire spec).  clid: the World's target (method m
    with the given schema), clid2: a second exported object WITHOUT RemoteInterface.  -> (res, world, children)"""
    from foolscap import call as callmod
    w = World(argnames, cons, None, vocab=1, **world_kw)
    t2 = Target(["m"])
    w.rr2, clid2 = export(w.tb, w.cb, t2)         # (keep the reference: dropping it sends a decref call that takes reqID 1)
    w.t2 = t2
    req = callmod.PendingRequest(1, None, None, "m")
    w.cb.addRequest(req)
    res = []
    req.deferred.addBoth(res.append)
    children = children_fn(w.clid, clid2)
    enc = Enc()
    enc.objects = w.tb.objectCounter
    oc, _ = enc.open(b"call")
    for ch in children:
        if ch[0] == "wa":
            oc2, _ = enc.open(b"arguments")
            if isinstance(ch[1], int):
                enc.tok(tokens.INT, ch[1])
            elif ch[1] is not None:
                enc.wire(ch[1])
            for x in ch[2]:
                enc.wire(x)
            enc.close(oc2)
        else:
            enc.wire(ch)
    enc.close(oc)
    w.tb.dataReceived(enc.bytes())
    E.turn()
    w.clid2 = clid2
    return res, w, children


def is_remote_failure(r):
    from foolscap.call import CopiedFailure
    return isinstance(r, CopiedFailure)


def answer_trial(resp_cs, ws, refs_first=None, vocab=0, via="interface"):
    """callRemote('m') under result constraint resp_cs, the target's real answer is suppressed and a hand-built
    `answer` sequence carrying wire tree ws is delivered instead.  The result constraint "in force for that call" is set
    through one of the public ways: the RemoteInterface both ends share ("interface"), callRemote(_resultConstraint=...)
    on a schema-less reference ("kwarg"), the same overriding an interface that says Any ("kwarg-over"), or
    callRemote(_methodConstraint=RemoteMethodSchema(_response=...)) ("method").  -> (outcome, World)"""
    c = build(resp_cs)
    extra = {}
    if via == "interface":
        w = World([], [], c, vocab=vocab)
    elif via == "kwarg":
        w = World([], [], schema.Any(), vocab=vocab, shared_iface=False)
        extra["_resultConstraint"] = c
    elif via == "kwarg-over":
        w = World([], [], schema.Any(), vocab=vocab)
        extra["_resultConstraint"] = c
    else:
        w = World([], [], schema.Any(), vocab=vocab)
        extra["_methodConstraint"] = RemoteMethodSchema(_response=c) if c is not None else RemoteMethodSchema(_response=Nothing())
    w.declared = IConstraint_of(c)
    real_write = w.tb.transport.write
    w.tb.transport.write = lambda data: None
    res = []
    w.rr.callRemote("m", **extra).addBoth(res.append)
    E.turn()
    w.tb.transport.write = real_write
    enc = Enc()
    enc.objects = w.cb.objectCounter
    oc, _ = enc.open(b"answer")
    enc.tok(tokens.INT, 1)
    enc.wire(ws)
    enc.close(oc)
    w.cb.dataReceived(enc.bytes())
    E.turn()
    return res, w


def IConstraint_of(c):
    from foolscap.constraint import IConstraint
    return IConstraint(c)


def flat_items(pos_ws, kw_ws):
    """(count, children) of the `arguments` sequence an honest sender emits for these positional / keyword wire trees"""
    items = list(pos_ws)
    for name, x in kw_ws:
        items += [["ws", False, len(name.encode()), list(name.encode())], x]
    return len(pos_ws), items


def call_trial(argnames, cons, pos_ws, kw_ws, numargs=None, prelude=None, vocab=0, direct=False, per_instance=False, raw=None,
               **world_kw):
    """hand-built `call` for method m(argnames=cons): positional wire trees pos_ws, keyword wire trees kw_ws
    [(name, ws)..].  The caller side has a PendingRequest for reqID 1 so the Error/Answer coming back is observed.
    prelude: list of value specs sent first inside the arguments scope?  (not possible: see smuggle_trial)"""
    from foolscap import call as callmod
    w = World(argnames, cons, None, vocab=vocab, direct=direct, per_instance=per_instance, **world_kw)
    req = callmod.PendingRequest(1, None, None, "m")
    w.cb.addRequest(req)
    res = []
    req.deferred.addBoth(res.append)

    def body(enc):
        oc, _ = enc.open(b"arguments")
        if raw is not None:
            # raw = (count, children): count None = no count token, an int = INT token, a wire spec = that token / sequence;
            # children: wire specs emitted one after the other, whatever the receiver takes them for
            count, items = raw
            if isinstance(count, int):
                enc.tok(tokens.INT, count)
            elif count is not None:
                enc.wire(count, body.refs)
            for i, x in enumerate(items):
                body.refs[i] = enc.wire(x, body.refs)
            enc.close(oc)
            return
        enc.tok(tokens.INT, len(pos_ws) if numargs is None else numargs)
        for i, x in enumerate(pos_ws):
            body.refs[i] = enc.wire(x, body.refs)
        for name, x in kw_ws:
            enc.string(name.encode())
            enc.wire(x, body.refs)
        enc.close(oc)
    body.refs = {}
    w.feed_call(1, body)
    return res, w


# ------------------------------------------------------------------ generators (every choice from rng)
VOCAB1 = [b"none", b"boolean", b"reference", b"dict", b"list", b"tuple", b"set", b"immutable-set", b"unicode", b"set-vocab",
          b"add-vocab", b"call", b"arguments", b"answer", b"error", b"my-reference", b"your-reference", b"their-reference",
          b"copyable", b"instance", b"module", b"class", b"method", b"function", b"attrdict"]      # checked against vocab.py at run time
LEAVES = [["bytes", 20, 0], ["bytes", 10, 0], ["bytes", 8, 4], ["text", 6, 0], ["py", "int"], ["int", -1], ["int", 4], ["int", None], ["int", 8], ["number", None], ["py", "float"],
          ["number", 4], ["bytes", None, 0], ["bytes", 3, 1], ["py", "bytes"], ["text", None, 0], ["text", 3, 1],
          ["py", "str"], ["py", "bool"], ["bool", True], ["bool", False], ["none"], ["py", "none"], ["any"]]
HASHABLE_LEAVES = [["bytes", 20, 0], ["py", "int"], ["int", -1], ["bytes", 3, 0], ["py", "str"], ["text", 2, 0], ["py", "bool"]]
TOKEN_LEAVES = [["bytes", 20, 0], ["bytes", 10, 0], ["py", "int"], ["int", -1], ["int", 4], ["number", None], ["bytes", 3, 1], ["py", "bytes"], ["py", "float"]]


def gen_cs(rng, depth, choice=True, opener_choice=True, hashable=False):
    if hashable:
        if depth > 0 and rng.random() < 0.3:
            return ["tuple", [gen_cs(rng, 0, hashable=True) for _ in range(rng.randint(0, 2))]]
        return list(rng.choice(HASHABLE_LEAVES))
    if depth <= 0 or rng.random() < 0.35:
        return list(rng.choice(LEAVES))
    k = rng.choice(["list", "list", "tuple", "pytuple", "dict", "set", "choice", "opt"])
    sub = lambda: gen_cs(rng, depth - 1, choice, opener_choice)
    if k == "list":
        return ["list", sub(), rng.choice([None, None, 0, 1, 2, 3]), rng.choice([0, 0, 1, 2])]
    if k in ("tuple", "pytuple"):
        n = rng.randint(0, 3) if k == "tuple" else rng.randint(1, 3)
        return [k, [sub() for _ in range(n)]]
    if k == "dict":
        return ["dict", gen_cs(rng, depth - 1, hashable=True), sub(), rng.choice([None, None, 1, 2])]
    if k == "set":
        return ["set", gen_cs(rng, depth - 1, hashable=True), rng.choice([None, None, 1, 2, 3]), rng.choice([None, None, True, False])]
    if k == "choice":
        if not choice:
            return sub()
        if opener_choice:
            return ["choice", [sub() for _ in range(rng.randint(1, 3))]]
        return ["choice", [list(rng.choice(TOKEN_LEAVES)) for _ in range(rng.randint(1, 3))]]
    if k == "opt":
        if not (choice and opener_choice):
            return sub()
        return ["list", ["opt", sub()], rng.choice([None, 2]), 0]
    raise AssertionError(k)


def norm_cs(cs):
    """the explicit form of the public shorthands"""
    k = cs[0]
    if k == "py":
        return {"int": ["int", 1024], "str": ["text", None, 0], "bytes": ["bytes", None, 0], "bool": ["bool", None],
                "float": ["number", 1024], "none": ["none"]}[cs[1]]
    if k == "pytuple":
        return ["tuple", [norm_cs(x) for x in cs[1]]]
    if k == "list":
        return ["list", norm_cs(cs[1]), cs[2], cs[3]]
    if k == "tuple":
        return ["tuple", [norm_cs(x) for x in cs[1]]]
    if k == "dict":
        return ["dict", norm_cs(cs[1]), norm_cs(cs[2]), cs[3]]
    if k == "set":
        return ["set", norm_cs(cs[1]), cs[2], cs[3]]
    if k == "choice":
        return ["choice", [norm_cs(x) for x in cs[1]]]
    if k == "opt":
        return ["opt", norm_cs(cs[1])]
    return cs


FLOATS = [0.0, 1.5, -2.25, 1e300, -1e-300]
TEXTCP = [97, 98, 122, 48, 233, 8364, 0x1F600]


def gen_int(rng, mb):
    if mb == -1:
        pool = [0, 1, -1, 2 ** 31 - 1, -2 ** 31, 2 ** 31 - 2, -2 ** 31 + 1, rng.randint(-2 ** 31, 2 ** 31 - 1)]
    elif mb is None:
        pool = [0, -1, 2 ** 31, -2 ** 31 - 1, 2 ** 63, rng.randint(-2 ** 70, 2 ** 70)]
        if rng.random() < 0.1:
            pool = [2 ** 8000, -(2 ** 8200)]
    else:
        top = 2 ** (8 * mb) - 1
        pool = [0, 1, -1, 2 ** 31 - 1, 2 ** 31, -2 ** 31, -2 ** 31 - 1, rng.randint(-2 ** 31, 2 ** 31)]
        if mb <= 8 or rng.random() < 0.1:
            pool = [top, -top, top // 256 + 1, top // 256, top + 1, -top - 1] + ([rng.randint(-top, top)] if mb <= 8 else [])
    return rng.choice(pool)


def distinct(vals):
    seen, out = set(), []
    for v in vals:
        r = repr(canon_vs(v))
        if r not in seen:
            seen.add(r)
            out.append(v)
    return out


def gen_any(rng, depth, hashable=False):
    ks = ["i", "i", "b", "t", "B", "N", "f"] + ([] if depth <= 0 else (["T"] if hashable else ["l", "T", "s", "d", "fs"]))
    k = rng.choice(ks)
    if k == "i":
        return ["i", rng.choice([0, 5, -7, 2 ** 31, -2 ** 31 - 1, 2 ** 64] + ([2 ** 8000 - 1] if rng.random() < 0.1 else []))]
    if k in ("b", "t") and rng.random() < 0.25:
        return [k, list(rng.choice(VOCAB1))]
    if k == "b":
        return ["b", [rng.randint(0, 255) for _ in range(rng.randint(0, 4))]]
    if k == "t":
        return ["t", [rng.choice(TEXTCP) for _ in range(rng.randint(0, 4))]]
    if k == "B":
        return ["B", rng.random() < 0.5]
    if k == "N":
        return ["N"]
    if k == "f":
        return ["f", bits_of_f(rng.choice(FLOATS))]
    if k in ("l", "T"):
        return [k, [gen_any(rng, depth - 1, hashable) for _ in range(rng.randint(0, 3))]]
    if k in ("s", "fs"):
        return [k, distinct([gen_any(rng, depth - 1, True) for _ in range(rng.randint(0, 3))])]
    if k == "d":
        keys = distinct([gen_any(rng, depth - 1, True) for _ in range(rng.randint(0, 3))])
        return ["d", [[a, gen_any(rng, depth - 1)] for a in keys]]
    raise AssertionError(k)


def pick_len(rng, mx, mn):
    lo = mn
    hi = mx if mx is not None else mn + 3
    if hi < lo:
        return lo          # unsatisfiable length window: produce the nearest miss
    return rng.choice([lo, hi, hi, rng.randint(lo, hi)])


def gen_value(cs, rng):
    """a value that the constraint's object-level check accepts (checkObject inverted), sitting on boundaries"""
    cs = norm_cs(cs)
    k = cs[0]
    if k == "any":
        return gen_any(rng, 2)
    if k == "int":
        return ["i", gen_int(rng, cs[1])]
    if k == "number":
        if rng.random() < 0.4:
            return ["f", bits_of_f(rng.choice(FLOATS))]
        return ["i", gen_int(rng, cs[1])]
    if k in ("bytes", "text") and rng.random() < (0.4 if k == "bytes" else 0.2):
        fit = [w for w in VOCAB1 if (cs[1] is None or len(w) <= cs[1]) and len(w) >= cs[2]]
        if fit:                                      # a word of the negotiated vocabulary: travels as a VOCAB token
            return [k[0], list(rng.choice(fit))]
    if k == "bytes":
        return ["b", [rng.randint(0, 255) for _ in range(pick_len(rng, cs[1], cs[2]))]]
    if k == "text":
        return ["t", [rng.choice(TEXTCP) for _ in range(pick_len(rng, cs[1], cs[2]))]]
    if k == "bool":
        return ["B", cs[1] if cs[1] is not None else rng.random() < 0.5]
    if k == "none":
        return ["N"]
    if k == "list":
        return ["l", [gen_value(cs[1], rng) for _ in range(pick_len(rng, cs[2], cs[3]))]]
    if k == "tuple":
        return ["T", [gen_value(x, rng) for x in cs[1]]]
    if k == "dict":
        n = pick_len(rng, cs[3], 0)
        keys = distinct([gen_value(cs[1], rng) for _ in range(n)])
        return ["d", [[a, gen_value(cs[2], rng)] for a in keys]]
    if k == "set":
        n = pick_len(rng, cs[2], 0)
        kind = "s" if cs[3] is True else "fs" if cs[3] is False else rng.choice(["s", "fs"])
        return [kind, distinct([gen_value(cs[1], rng) for _ in range(n)])]
    if k == "choice":
        return gen_value(rng.choice(cs[1]), rng)
    if k == "opt":
        return ["N"] if rng.random() < 0.3 else gen_value(cs[1], rng)
    raise ValueError(cs)


def perturb(cs, rng):
    """a nearby constraint: values generated for it are near-misses of cs"""
    cs = norm_cs(cs)
    k = cs[0]
    r = rng.random()
    if k == "int":
        return ["int", rng.choice([None, 1024, 4, 8])] if r < 0.7 else ["text", None, 0]
    if k == "number":
        return ["int", None] if r < 0.5 else ["bytes", None, 0]
    if k in ("bytes", "text"):
        if r < 0.6:
            return [k, (cs[1] + 1) if cs[1] is not None else None, max(0, cs[2] - 1)]
        return ["text" if k == "bytes" else "bytes", cs[1], cs[2]]
    if k == "bool":
        return ["bool", None] if r < 0.5 else ["int", -1]
    if k == "none":
        return ["bool", None]
    if k == "any":
        return cs
    if k == "list":
        if r < 0.4:
            return ["list", cs[1], (cs[2] + 1) if cs[2] is not None else None, max(0, cs[3] - 1)]
        if r < 0.7:
            return ["list", perturb(cs[1], rng), cs[2], cs[3]]
        return ["tuple", [cs[1], cs[1]]]
    if k == "tuple":
        if r < 0.3 or not cs[1]:
            return ["tuple", cs[1] + [["int", -1]]]
        if r < 0.5:
            return ["tuple", cs[1][:-1]]
        if r < 0.7:
            return ["list", cs[1][0], None, 0]
        i = rng.randrange(len(cs[1]))
        return ["tuple", cs[1][:i] + [perturb(cs[1][i], rng)] + cs[1][i + 1:]]
    if k == "dict":
        if r < 0.4:
            return ["dict", cs[1], cs[2], (cs[3] + 1) if cs[3] is not None else None]
        if r < 0.7:
            return ["dict", cs[1], perturb(cs[2], rng), cs[3]]
        return ["dict", perturb(cs[1], rng) if cs[1][0] != "tuple" else cs[1], cs[2], cs[3]]
    if k == "set":
        if r < 0.4:
            return ["set", cs[1], (cs[2] + 1) if cs[2] is not None else None, None]
        if r < 0.7:
            return ["set", cs[1], cs[2], None if cs[3] is not None else cs[3]]
        return ["list", cs[1], cs[2], 0]
    if k == "choice":
        return perturb(rng.choice(cs[1]), rng) if cs[1] else ["none"]
    if k == "opt":
        return ["opt", perturb(cs[1], rng)]
    return cs


def real_accepts(cobj, pyval, inbound=False):
    try:
        cobj.checkObject(pyval, inbound)
        return True
    except Violation:
        return False


def regions(cs, vs):
    """independent of the model: which KNOWN defective regions of C12 does (constraint, value) touch?"""
    cs = norm_cs(cs)
    k, vk = cs[0], vs[0]
    out = set()
    opener = vk in ("t", "B", "l", "T", "s", "fs", "d")
    huge = vk == "i" and abs(vs[1]) >= 2 ** 8000
    if k == "any":
        if huge:
            out.add("any-huge-int")
    elif k == "choice":
        if opener:
            out.add("choice-opener")
        if huge and not any(a[0] in ("int", "number") and a[1] is None for a in cs[1]):
            out.add("any-huge-int")
    elif k == "opt":
        if opener:
            out.add("opt-opener")
        if huge:
            out.add("any-huge-int")
    elif k == "list" and vk == "l":
        for x in vs[1]:
            out |= regions(cs[1], x)
    elif k == "tuple" and vk == "T":
        for c, x in zip(cs[1], vs[1]):
            out |= regions(c, x)
    elif k == "dict" and vk == "d":
        for a, b in vs[1]:
            out |= regions(cs[1], a) | regions(cs[2], b)
    elif k == "set" and vk in ("s", "fs"):
        for x in vs[1]:
            out |= regions(cs[1], x)
    return out


def py_satisfies(cs, o):
    """INDEPENDENT reference semantics of the schema vocabulary (what the documentation of each constraint says),
    used by the C02 oracle instead of the implementation's own checkObject"""
    cs = norm_cs(cs)
    k = cs[0]
    if k == "any" or k == "opt":
        return True
    if k in ("int", "number"):
        if k == "number" and isinstance(o, float):
            return True
        if isinstance(o, bool) or not isinstance(o, int):
            return False
        mb = cs[1]
        if mb is None:
            return True
        if mb == -1:
            return -2 ** 31 <= o < 2 ** 31
        return abs(o) < 2 ** (8 * mb)
    if k in ("bytes", "text"):
        if not isinstance(o, bytes if k == "bytes" else str):
            return False
        return (cs[1] is None or len(o) <= cs[1]) and len(o) >= cs[2]
    if k == "bool":
        return type(o) is bool and (cs[1] is None or o == cs[1])
    if k == "none":
        return o is None
    if k == "list":
        return isinstance(o, list) and (cs[2] is None or len(o) <= cs[2]) and len(o) >= cs[3] and all(py_satisfies(cs[1], x) for x in o)
    if k == "tuple":
        return isinstance(o, tuple) and len(o) == len(cs[1]) and all(py_satisfies(c, x) for c, x in zip(cs[1], o))
    if k == "dict":
        return isinstance(o, dict) and (cs[3] is None or len(o) <= cs[3]) and \
            all(py_satisfies(cs[1], a) and py_satisfies(cs[2], b) for a, b in o.items())
    if k == "set":
        if not isinstance(o, (set, frozenset)):
            return False
        if cs[3] is True and not isinstance(o, set):
            return False
        if cs[3] is False and not isinstance(o, frozenset):
            return False
        return (cs[2] is None or len(o) <= cs[2]) and all(py_satisfies(cs[1], x) for x in o)
    if k == "choice":
        return any(py_satisfies(c, o) for c in cs[1])
    if k == "remote":
        # "a RemoteReference that claims to be associated with a remote Referenceable that implements the given
        # RemoteInterface": the claimed interface is the declared one or one of its sub-interfaces
        if not (hasattr(o, "tracker") and hasattr(o.tracker, "interfaceName")):
            return False
        if cs[1] is None:
            return True
        claim = o.tracker.interfaceName
        return claim in FAMILY_PARENTS and (claim == cs[1] or cs[1] in FAMILY_PARENTS[claim])
    raise ValueError(cs)


def py_args_ok(argspec, args, kwargs):
    """reference semantics of a method schema: argspec [(name, cs, optional)]"""
    names = [n for n, _, _ in argspec]
    if len(args) > len(names):
        return False
    bound = dict(zip(names, args))
    for n, v in kwargs.items():
        if n in bound or n not in names:
            return False
        bound[n] = v
    by = {n: cs for n, cs, _ in argspec}
    if not all(py_satisfies(by[n], v) for n, v in bound.items()):
        return False
    return all(opt or n in bound for n, _, opt in argspec)


# ------------------------------------------------------------------ shared (identical) container objects in one call
CONTAINER_KINDS = ["list", "tuple", "dict", "set-any", "set-mutable", "set-frozen", "choice", "any", "opt"]


def gen_container_cs(rng, kind):
    """a constraint that accepts some list / tuple / dict / mutable set (the objects whose repeats travel as references)"""
    leaf = lambda: list(rng.choice([["py", "int"], ["int", -1], ["bytes", 10, 0], ["py", "str"], ["py", "bool"], ["any"]]))
    hleaf = lambda: list(rng.choice(HASHABLE_LEAVES))
    if kind == "list":
        return ["list", leaf(), rng.choice([None, 3]), rng.choice([0, 1])]
    if kind == "tuple":
        return ["tuple", [leaf() for _ in range(rng.randint(1, 3))]]
    if kind == "dict":
        return ["dict", hleaf(), leaf(), rng.choice([None, 2])]
    if kind == "set-any":
        return ["set", hleaf(), rng.choice([None, 3]), None]
    if kind == "set-mutable":
        return ["set", hleaf(), rng.choice([None, 3]), True]
    if kind == "set-frozen":
        return ["set", hleaf(), rng.choice([None, 3]), rng.choice([False, None])]
    if kind == "choice":
        return ["choice", [gen_container_cs(rng, rng.choice(["list", "tuple", "dict", "set-any", "set-mutable"])), ["py", "int"]]]
    if kind == "any":
        return ["any"]
    if kind == "opt":
        return ["list", ["opt", ["py", "int"]], None, 0]
    raise ValueError(kind)


def gen_refable_value(cs, rng, frozen=False):
    """a conforming value of cs that is a list / tuple / dict / mutable set (repeats travel as references) or, with
    frozen, a frozenset (ONE object occurring twice is still sent twice in full)"""
    for _ in range(20):
        v = gen_value(cs, rng) if norm_cs(cs)[0] not in ("any",) else rng.choice(
            [["l", [["i", 1], ["i", 2]]], ["T", [["i", 1]]], ["d", [[["i", 1], ["i", 2]]]], ["s", [["i", 1]]]] +
            ([["fs", [["i", 1], ["i", 2]]], ["fs", []]] if frozen else []))
        if v[0] in (("fs",) if frozen else ("l", "T", "d", "s")) and not (v[0] == "T" and not v[1]):
            return v
    return None


SHARED_SHAPES = ["two-args", "arg-kwarg", "list-of", "tuple-of", "dict-then-arg", "three"]


def gen_shared_call(rng, kind=None, shape=None):
    """-> (argspec, args_vs, kwargs_vs): ONE container object occurs twice in the call, the second occurrence in a slot
    governed by a container constraint of every kind (so the OPEN reference meets that constraint's checkOpentype);
    kind "set-frozen" / a frozenset under set-any / any: the object is a frozenset, which no sender reference-tracks"""
    kind = kind or rng.choice(CONTAINER_KINDS)
    x = gen_container_cs(rng, kind)
    frozen = kind == "set-frozen" or (kind in ("set-any", "any") and rng.random() < 0.4)
    v = gen_refable_value(x, rng, frozen)
    if v is None:
        return None
    sh = ["sh", 1, v]
    shape = shape or rng.choice(SHARED_SHAPES)
    if shape == "two-args":
        return [("a", x, False), ("b", x, False)], [sh, sh], []
    if shape == "arg-kwarg":
        return [("a", x, False), ("b", x, True)], [sh], [["b", sh]]
    if shape == "list-of":
        return [("a", ["list", x, rng.choice([None, 2]), 0], False)], [["l", [sh, sh]]], []
    if shape == "tuple-of":
        return [("a", ["pytuple", [x, ["py", "int"], x]], False)], [["T", [sh, ["i", 5], sh]]], []
    if shape == "dict-then-arg":
        return [("a", ["dict", ["py", "int"], x, None], False), ("b", x, False)], [["d", [[["i", 1], sh]]], sh], []
    return [("a", x, False), ("b", ["any"], False), ("c", ["list", x, None, 0], False)], [sh, sh, ["l", [sh]]], []


# ------------------------------------------------------------------ reference semantics of the TOKEN-LEVEL enforcement
def _taster(cs):
    """typebyte name -> size limit (None = unlimited), as documented for each constraint class"""
    k = cs[0]
    if k in ("any", "opt", "choice"):
        return {"STRING": None, "LIST": None, "INT": None, "NEG": None, "LONGINT": 1000, "LONGNEG": 1000, "VOCAB": None,
                "FLOAT": None, "OPEN": None}
    if k in ("int", "number"):
        t = {"INT": None, "NEG": None}
        if cs[1] != -1:
            t["LONGINT"] = cs[1]
            t["LONGNEG"] = cs[1]
        if k == "number":
            t["FLOAT"] = None
        return t
    if k == "bytes":
        return {"STRING": cs[1], "VOCAB": None}
    return {"OPEN": None}


def py_taste(cs, tb, size):
    if cs[0] == "choice":
        return "ok" if any(py_taste(a, tb, size) == "ok" for a in cs[1]) else "viol"
    t = _taster(cs)
    if tb not in t:
        return "abort" if cs[0] in ("text", "bool", "none") else "viol"
    return "viol" if (t[tb] is not None and size > t[tb]) else "ok"


_OPENTYPES = {"text": ["unicode"], "bool": ["boolean"], "none": ["none"], "list": ["list"], "tuple": ["tuple"], "dict": ["dict"],
              "set": ["set", "immutable-set"], "int": [], "number": [], "bytes": [], "remote": ["my-reference", "their-reference"]}
_CHILD = {"list": "list", "tuple": "tuple", "dict": "dict", "set": "set", "immutable-set": "set", "unicode": "text", "boolean": "bool"}


def py_recv(cs, ws):
    """what the documented token-level checks do with wire tree ws in a slot governed by constraint cs (None = no
    constraint): "ok" (delivered) | "viol" | "abort".  Written from the documentation of the constraint classes and
    unslicers; it does not import foolscap."""
    if cs is not None:
        cs = norm_cs(cs)
    k = ws[0]
    if k in ("wi", "wf", "ws"):
        if cs is None:
            return "ok"
        tb = ws[1] if k == "wi" else "FLOAT" if k == "wf" else ("VOCAB" if ws[1] else "STRING")
        return py_taste(cs, tb, ws[2] if k != "wf" else 0)
    if cs is not None:
        t = py_taste(cs, "OPEN", 0)
        if t != "ok":
            return t
    if k == "wr":
        return "ok" if cs is None or py_satisfies(cs, to_py(ws[1])) else "viol"
    if k == "wp":
        return "ok" if cs is None or _accepts_placeholder(cs) else "viol"
    if k == "wq":
        return "ok" if cs is None or py_satisfies(cs, to_py(ws[2])) else "viol"
    ot, kids = ws[1], ws[2]
    if cs is not None and cs[0] not in ("any", "opt", "choice") and ot not in _OPENTYPES[cs[0]]:
        return "viol"
    if ot == "none":
        return "ok" if not kids else "abort"
    if ot == "my-reference":
        return "ok" if kids and kids[0][0] == "wi" and all(x[0] == "ws" for x in kids[1:3]) and len(kids) <= 3 else "abort"
    if cs is not None and cs[0] != "any" and cs[0] != _CHILD[ot]:
        return "abort"                                   # setConstraint's isinstance assertion
    free = cs is None or cs[0] == "any"
    if ot == "unicode":
        if not kids:
            return "ok"
        if kids[0][0] != "ws":
            return "abort"
        if not free and not kids[0][1] and cs[1] is not None and kids[0][2] > 6 * cs[1]:
            return "viol"
        try:
            bytes(kids[0][3]).decode("utf-8")            # "accept a UTF-8 encoded string"
        except UnicodeDecodeError:
            return "viol"
        return "ok" if len(kids) == 1 else "abort"
    if ot == "boolean":
        if not kids:
            return "ok"
        if kids[0][0] != "wi" or kids[0][1] != "INT":
            return "abort"
        if not free and cs[1] is not None and bool(kids[0][3]) != cs[1]:
            return "viol"
        return "ok" if len(kids) == 1 else "abort"
    for i, kid in enumerate(kids):
        if free:
            sub = None
        elif ot == "list" or ot in ("set", "immutable-set"):
            if cs[2] is not None and i >= cs[2]:
                return "viol"
            sub = cs[1]
        elif ot == "tuple":
            if i >= len(cs[1]):
                return "viol"
            sub = cs[1][i]
        else:
            if cs[3] is not None and i // 2 >= cs[3]:
                return "viol"
            sub = cs[1] if i % 2 == 0 else cs[2]
        r = py_recv(sub, kid)
        if r != "ok":
            return r
    return "ok"


def _accepts_placeholder(cs):
    cs = norm_cs(cs)
    return cs[0] in ("any", "opt") or (cs[0] == "choice" and any(_accepts_placeholder(a) for a in cs[1]))
