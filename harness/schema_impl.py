"""C02 / C12: drivers of the real schema machinery (constraint.py, schema.py, slicers/*, remoteinterface.py,
call.py, broker.py) on a loopback Broker pair, plus the converters between the JSON case language, the
real Python objects and the Coq terms of lib/Schema.v.

Case language (all JSON-able):
  constraint spec  cs :=  ["any"] | ["int", mb] | ["number", mb] | ["bytes", maxL, minL] | ["text", maxL, minL]
                        | ["bool", v] | ["none"] | ["list", cs, maxL, minL] | ["tuple", [cs..]] | ["dict", k, v, maxK]
                        | ["set", cs, maxL, mut] | ["choice", [cs..]] | ["opt", cs]
                        | ["py", "int"|"str"|"bytes"|"bool"|"float"|"none"]      (public shorthand, adapted by IConstraint)
                        | ["pytuple", [cs..]]                                     (python tuple shorthand -> TupleConstraint)
  value spec       vs :=  ["i", n] | ["f", bits] | ["b", [byte..]] | ["t", [codepoint..]] | ["B", bool] | ["N"]
                        | ["l", [vs..]] | ["T", [vs..]] | ["s", [vs..]] | ["fs", [vs..]] | ["d", [[k, v]..]]
  wire spec        ws :=  ["wi", tbname, size, value] | ["wf", bits] | ["ws", vocab?, size, [byte..]]
                        | ["wo", opentype, [ws..]] | ["wr", vs]          (wr: OPEN reference to an earlier object of shape vs)
"""
import struct
from zope.interface import implementer
from harness import implenv as E
from foolscap import schema, constraint as C, tokens, banana
from foolscap.api import Referenceable, RemoteInterface
from foolscap.remoteinterface import RemoteMethodSchema
from foolscap.slicers.unicode import UnicodeConstraint
from foolscap.slicers.bool import BooleanConstraint
from foolscap.slicers.none import Nothing
from foolscap.slicers.list import ListConstraint
from foolscap.slicers.tuple import TupleConstraint
from foolscap.slicers.dict import DictConstraint
from foolscap.slicers.set import SetConstraint
from foolscap.tokens import Violation, BananaError

# ------------------------------------------------------------------ constraints
PYSHORT = {"int": int, "str": str, "bytes": bytes, "bool": bool, "float": float, "none": None}


def build(cs):
    """constraint spec -> object handed to the PUBLIC vocabulary (may be a python type: adapted later by IConstraint)"""
    k = cs[0]
    if k == "any":
        return schema.Any()
    if k == "int":
        return schema.IntegerConstraint(maxBytes=cs[1])
    if k == "number":
        return schema.NumberConstraint(maxBytes=cs[1])
    if k == "bytes":
        return schema.ByteStringConstraint(maxLength=cs[1], minLength=cs[2])
    if k == "text":
        return schema.UnicodeConstraint(maxLength=cs[1], minLength=cs[2])
    if k == "bool":
        return schema.BooleanConstraint(cs[1])
    if k == "none":
        return schema.Nothing()
    if k == "list":
        return schema.ListOf(build(cs[1]), maxLength=cs[2], minLength=cs[3])
    if k == "tuple":
        return schema.TupleOf(*[build(x) for x in cs[1]])
    if k == "dict":
        return schema.DictOf(build(cs[1]), build(cs[2]), maxKeys=cs[3])
    if k == "set":
        return schema.SetOf(build(cs[1]), maxLength=cs[2], mutable=cs[3])
    if k == "choice":
        return schema.ChoiceOf(*[build(x) for x in cs[1]])
    if k == "opt":
        return schema.Optional(build(cs[1]), None)
    if k == "py":
        return PYSHORT[cs[1]]
    if k == "pytuple":
        return tuple(build(x) for x in cs[1])
    raise ValueError(cs)


def coq_opt_Z(x):
    return "None" if x is None else "(Some (%d))" % x


def to_ctr(c):
    """REAL constraint object -> Coq `ctr` term, read from the object's attributes (exact classes only)"""
    t = type(c)
    if t is C.Any:
        return "CAny"
    if t is C.IntegerConstraint:
        return "(CInt %s)" % coq_opt_Z(c.maxBytes)
    if t is C.NumberConstraint:
        return "(CNumber %s)" % coq_opt_Z(c.maxBytes)
    if t is C.ByteStringConstraint:
        return "(CBytes %s (%d))" % (coq_opt_Z(c.maxLength), c.minLength)
    if t is UnicodeConstraint:
        if c.regexp is not None:
            raise ValueError("regexp constraints are outside the model")
        return "(CText %s (%d))" % (coq_opt_Z(c.maxLength), c.minLength)
    if t is BooleanConstraint:
        return "(CBool %s)" % ("None" if c.value is None else "(Some %s)" % ("true" if c.value else "false"))
    if t is Nothing:
        return "CNone"
    if t is ListConstraint:
        return "(CList %s %s (%d))" % (to_ctr(c.constraint), coq_opt_Z(c.maxLength), c.minLength)
    if t is TupleConstraint:
        return "(CTuple [%s])" % "; ".join(to_ctr(x) for x in c.constraints)
    if t is DictConstraint:
        return "(CDict %s %s %s)" % (to_ctr(c.keyConstraint), to_ctr(c.valueConstraint), coq_opt_Z(c.maxKeys))
    if t is SetConstraint:
        m = c.mutable
        return "(CSet %s %s %s)" % (to_ctr(c.constraint), coq_opt_Z(c.maxLength),
                                    "None" if m is None else "(Some %s)" % ("true" if m else "false"))
    if t is schema.PolyConstraint:
        return "(CChoice [%s])" % "; ".join(to_ctr(x) for x in c.alternatives)
    if t is C.Optional:
        return "(COpt %s)" % to_ctr(c.constraint)
    raise ValueError("constraint class outside the model: %r" % (t,))


# ------------------------------------------------------------------ values
def f_of_bits(bits):
    return struct.unpack("!d", struct.pack("!Q", bits))[0]


def bits_of_f(x):
    return struct.unpack("!Q", struct.pack("!d", x))[0]


def to_py(vs):
    k = vs[0]
    if k == "i":
        return vs[1]
    if k == "f":
        return f_of_bits(vs[1])
    if k == "b":
        return bytes(vs[1])
    if k == "t":
        return "".join(chr(x) for x in vs[1])
    if k == "B":
        return bool(vs[1])
    if k == "N":
        return None
    if k == "l":
        return [to_py(x) for x in vs[1]]
    if k == "T":
        return tuple(to_py(x) for x in vs[1])
    if k == "s":
        return set(to_py(x) for x in vs[1])
    if k == "fs":
        return frozenset(to_py(x) for x in vs[1])
    if k == "d":
        return {to_py(a): to_py(b) for a, b in vs[1]}
    raise ValueError(vs)


def canon(o):
    """python object -> canonical value spec (sets / dicts sorted by the repr of the canonical form)"""
    if isinstance(o, bool):
        return ["B", o]
    if isinstance(o, int):
        return ["i", o]
    if isinstance(o, float):
        return ["f", bits_of_f(o)]
    if isinstance(o, bytes):
        return ["b", list(o)]
    if isinstance(o, str):
        return ["t", [ord(ch) for ch in o]]
    if o is None:
        return ["N"]
    if isinstance(o, list):
        return ["l", [canon(x) for x in o]]
    if isinstance(o, tuple):
        return ["T", [canon(x) for x in o]]
    if isinstance(o, frozenset):
        return ["fs", sorted((canon(x) for x in o), key=repr)]
    if isinstance(o, set):
        return ["s", sorted((canon(x) for x in o), key=repr)]
    if isinstance(o, dict):
        return ["d", sorted(([canon(a), canon(b)] for a, b in o.items()), key=repr)]
    return ["other", type(o).__name__]


def canon_vs(vs):
    return canon(to_py(vs))


def coq_zlist(xs):
    return "[" + ";".join(str(x) for x in xs) + "]"


def to_obj(vs):
    """value spec -> Coq `obj` term"""
    k = vs[0]
    if k == "i":
        return "(OInt (%d))" % vs[1]
    if k == "f":
        return "(OFloat %d)" % vs[1]
    if k == "b":
        return "(OBytes %s)" % coq_zlist(vs[1])
    if k == "t":
        return "(OText %s)" % coq_zlist(vs[1])
    if k == "B":
        return "(OBool %s)" % ("true" if vs[1] else "false")
    if k == "N":
        return "ONone"
    if k in ("l", "T", "s", "fs"):
        con = {"l": "OList", "T": "OTuple", "s": "OSet", "fs": "OFset"}[k]
        return "(%s [%s])" % (con, "; ".join(to_obj(x) for x in vs[1]))
    if k == "d":
        return "(ODict [%s] [%s])" % ("; ".join(to_obj(a) for a, b in vs[1]), "; ".join(to_obj(b) for a, b in vs[1]))
    raise ValueError(vs)


# ------------------------------------------------------------------ wire trees
TB = {"INT": tokens.INT, "NEG": tokens.NEG, "LONGINT": tokens.LONGINT, "LONGNEG": tokens.LONGNEG,
      "FLOAT": tokens.FLOAT, "STRING": tokens.STRING, "VOCAB": tokens.VOCAB, "OPEN": tokens.OPEN, "CLOSE": tokens.CLOSE}
OTYPES = {"list": "OtList", "tuple": "OtTuple", "set": "OtSet", "immutable-set": "OtFset", "dict": "OtDict",
          "unicode": "OtUnicode", "boolean": "OtBool", "none": "OtNone"}


def hdr(n):
    out = []
    banana.int2b128(n, out.append)
    return b"".join(out)


def long_bytes(n):
    return banana.long_to_bytes(n)


def int_ws(n):
    """the wire form the honest sender uses for int n (mirrors Banana.sendToken; validated against it in the tie)"""
    if n >= 2 ** 31:
        return ["wi", "LONGINT", len(long_bytes(n)), n]
    if n >= 0:
        return ["wi", "INT", n, n]
    if -n > 2 ** 31:
        return ["wi", "LONGNEG", len(long_bytes(-n)), n]
    return ["wi", "NEG", -n, n]


def slice_vs(vs):
    """value spec -> wire spec as the honest sender would emit it (no VOCAB, no sharing)"""
    k = vs[0]
    if k == "i":
        return int_ws(vs[1])
    if k == "f":
        return ["wf", vs[1]]
    if k == "b":
        return ["ws", False, len(vs[1]), vs[1]]
    if k == "t":
        return ["wo", "unicode", [["ws", False, len(vs[1]), vs[1]]]]     # ASCII only in wire trees
    if k == "B":
        return ["wo", "boolean", [["wi", "INT", 1 if vs[1] else 0, 1 if vs[1] else 0]]]
    if k == "N":
        return ["wo", "none", []]
    if k in ("l", "T", "s", "fs"):
        return ["wo", {"l": "list", "T": "tuple", "s": "set", "fs": "immutable-set"}[k], [slice_vs(x) for x in vs[1]]]
    if k == "d":
        kids = []
        for a, b in vs[1]:
            kids += [slice_vs(a), slice_vs(b)]
        return ["wo", "dict", kids]
    raise ValueError(vs)


def to_wobj(ws):
    k = ws[0]
    if k == "wi":
        return "(WInt %d (%d) (%d))" % (TB[ws[1]][0], ws[2], ws[3])
    if k == "wf":
        return "(WFloat %d)" % ws[1]
    if k == "ws":
        return "(WStr %s (%d) %s)" % ("true" if ws[1] else "false", ws[2], coq_zlist(ws[3]))
    if k == "wo":
        return "(WOpen %s [%s])" % (OTYPES[ws[1]], "; ".join(to_wobj(x) for x in ws[2]))
    if k == "wr":
        return "(WRef %s)" % to_obj(ws[1])
    raise ValueError(ws)


class Enc:
    """hand encoder of banana token streams (open counters are ours; the receiver only echoes them)"""

    def __init__(self):
        self.out = []
        self.opens = 0          # openCount for the next OPEN token
        self.objects = 0        # receiver's objectCounter for the next OPEN token

    def tok(self, tb, n, body=b""):
        self.out.append(hdr(n) + tb + body)

    def string(self, b):
        self.tok(tokens.STRING, len(b), b)

    def open(self, *index):
        oc = self.opens
        self.opens += 1
        objid = self.objects
        self.objects += 1
        self.tok(tokens.OPEN, oc)
        for ix in index:
            self.string(ix)
        return oc, objid

    def close(self, oc):
        self.tok(tokens.CLOSE, oc)

    def int(self, n):
        w = int_ws(n)
        self.wire(w)

    def wire(self, ws, refs=None):
        k = ws[0]
        if k == "wi":
            tb, size, v = TB[ws[1]], ws[2], ws[3]
            if ws[1] in ("LONGINT", "LONGNEG"):
                body = long_bytes(abs(v)).rjust(size, b"\x00")[:size] if size else b""
                self.tok(tb, size, body)
            else:
                self.tok(tb, size)
        elif k == "wf":
            self.out.append(tokens.FLOAT + struct.pack("!Q", ws[1]))
        elif k == "ws":
            if ws[1]:
                self.tok(tokens.VOCAB, ws[2])
            else:
                self.tok(tokens.STRING, ws[2], bytes(ws[3]))
        elif k == "wo":
            oc, _ = self.open(ws[1].encode())
            for x in ws[2]:
                self.wire(x, refs)
            self.close(oc)
        elif k == "wr":
            # OPEN reference <objid> CLOSE, objid = an earlier object of this stream registered in refs
            oc, _ = self.open(b"reference")
            self.tok(tokens.INT, refs[repr(ws[1])])
            self.close(oc)
        else:
            raise ValueError(ws)

    def bytes(self):
        return b"".join(self.out)


# ------------------------------------------------------------------ brokers
_counter = [0]


def make_interface(methods):
    """methods: {name: (argnames, [constraint objects/shorthands], response or None)} -> a fresh RemoteInterface"""
    _counter[0] += 1
    attrs = {"__remote_name__": "RIVerif%d" % _counter[0]}
    for name, (argnames, cons, resp) in methods.items():
        env = {"_d": list(cons), "_r": resp}
        src = "def %s(%s):\n    return _r\n" % (name, ", ".join("%s=_d[%d]" % (a, i) for i, a in enumerate(argnames)))
        exec(src, env)
        attrs[name] = env[name]
    return RemoteInterface.__class__("RIVerif%d" % _counter[0], (RemoteInterface,), attrs)


class Target(Referenceable):
    def __init__(self, names, results=None):
        self.calls = []
        self.results = results or {}
        for n in names:
            setattr(self, "remote_" + n, self._mk(n))

    def _mk(self, n):
        def m(*a, **kw):
            self.calls.append((n, a, kw))
            return self.results.get(n)
        return m


def export(tb, cb, target, iname=None):
    tr = tb.getTrackerForMyReference(target.processUniqueID(), target)
    tr.send()
    return cb.getTrackerForYourReference(tr.clid, iname).getRef(), tr.clid


def outcome_of(res):
    """what a callRemote Deferred fired with -> ("ok", value) | ("violation-local"|"violation-remote"|"dead"|"exc", text)"""
    if not res:
        return ("pending", None)
    r = res[0]
    from twisted.python.failure import Failure
    if not isinstance(r, Failure):
        return ("ok", r)
    from foolscap.tokens import RemoteException
    from foolscap.ipb import DeadReferenceError
    if r.check(Violation):
        return ("violation-local", str(r.value)[:200])
    if r.check(DeadReferenceError):
        return ("dead", str(r.value)[:200])
    if r.check(RemoteException):
        inner = r.value.failure
        if "Violation" in str(inner.type):
            return ("violation-remote", str(inner.value)[:200])
        return ("exc-remote", "%s: %s" % (inner.type, str(inner.value)[:200]))
    return ("exc", "%s: %s" % (r.type, str(r.value)[:200]))


class World:
    """a Broker pair, a Target implementing a fresh RemoteInterface with one method `m`"""

    def __init__(self, argnames, cons, resp=None, result=None, shared_iface=True):
        E.reset_clock()
        self.iface = make_interface({"m": (argnames, cons, resp)})
        self.ms = self.iface["m"]
        implementer(self.iface)(type("T", (Target,), {}))
        cls = implementer(self.iface)(type("T", (Target,), {}))
        self.target = cls(["m"], {"m": result})
        self.tb, self.cb = E.broker_pair()
        self.rr, self.clid = export(self.tb, self.cb, self.target, self.iface.__remote_name__ if shared_iface else None)

    def call(self, args, kwargs, **extra):
        res = []
        kw = dict(kwargs)
        kw.update(extra)
        self.rr.callRemote("m", *args, **kw).addBoth(res.append)
        E.turn()
        return res

    def alive(self):
        return not self.tb.disconnected and not self.cb.disconnected

    def probe(self):
        """is the connection still usable?  (a sibling call on a second, unconstrained object)"""
        if not self.alive():
            return False
        t2 = Target(["ping"], {"ping": 99})
        rr2, _ = export(self.tb, self.cb, t2)
        res = []
        rr2.callRemote("ping").addBoth(res.append)
        E.turn()
        return res == [99]

    def feed_call(self, reqid, body_fn):
        """deliver a hand-built `call` sequence to the target broker; body_fn(enc) emits the `arguments` sequence.
        Returns the raw bytes fed."""
        enc = Enc()
        oc, _ = enc.open(b"call")
        enc.tok(tokens.INT, reqid)
        enc.tok(tokens.INT, self.clid)
        enc.string(b"m")
        body_fn(enc)
        enc.close(oc)
        data = enc.bytes()
        self.tb.dataReceived(data)
        E.turn()
        return data


def is_remote_failure(r):
    from foolscap.call import CopiedFailure
    return isinstance(r, CopiedFailure)


def answer_trial(resp_cs, ws, refs_first=None):
    """callRemote('m') under result constraint resp_cs, the target's real answer is suppressed and a hand-built
    `answer` sequence carrying wire tree ws is delivered instead.  -> (outcome, alive)"""
    w = World([], [], build(resp_cs))
    real_write = w.tb.transport.write
    w.tb.transport.write = lambda data: None
    res = []
    w.rr.callRemote("m").addBoth(res.append)
    E.turn()
    w.tb.transport.write = real_write
    enc = Enc()
    oc, _ = enc.open(b"answer")
    enc.tok(tokens.INT, 1)
    enc.wire(ws)
    enc.close(oc)
    w.cb.dataReceived(enc.bytes())
    E.turn()
    return res, w


def call_trial(argnames, cons, pos_ws, kw_ws, numargs=None, prelude=None):
    """hand-built `call` for method m(argnames=cons): positional wire trees pos_ws, keyword wire trees kw_ws
    [(name, ws)..].  The caller side has a PendingRequest for reqID 1 so the Error/Answer coming back is observed.
    prelude: list of value specs sent first inside the arguments scope?  (not possible: see smuggle_trial)"""
    from foolscap import call as callmod
    w = World(argnames, cons, None)
    req = callmod.PendingRequest(1, None, None, "m")
    w.cb.addRequest(req)
    res = []
    req.deferred.addBoth(res.append)

    def body(enc):
        oc, _ = enc.open(b"arguments")
        enc.tok(tokens.INT, len(pos_ws) if numargs is None else numargs)
        for x in pos_ws:
            enc.wire(x, body.refs)
        for name, x in kw_ws:
            enc.string(name.encode())
            enc.wire(x, body.refs)
        enc.close(oc)
    body.refs = {}
    w.feed_call(1, body)
    return res, w
