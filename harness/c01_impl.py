"""C01 -- drivers of the real serializer / unserializer, the graph generator, the independent canonical DFS,
the term-vs-graph matcher and the sent-vs-received isomorphism oracle."""
import decimal, math, struct
from twisted.internet import defer
from twisted.python.failure import Failure
from harness import implenv as E
from foolscap import storage, copyable, banana as banana_mod, broker as broker_mod
from foolscap.api import Referenceable
from foolscap.referenceable import TubRef
from foolscap.slicers.vocab import ReplaceVocabularyTable, AddToVocabularyTable


# ------------------------------------------------------------------ registered Copyables
class CA(copyable.Copyable, copyable.RemoteCopy):
    typeToCopy = copytype = "verif.c01.A"


class CB(copyable.Copyable, copyable.RemoteCopy):
    typeToCopy = copytype = "verif.c01.B"


class CC(copyable.Copyable, copyable.RemoteCopy):      # name longer than every opentype string (13 bytes)
    typeToCopy = copytype = "verif.c01.C14"


class CD(copyable.Copyable, copyable.RemoteCopy):
    typeToCopy = copytype = "verif.c01.a-rather-long-copyable-name.D"


COPYABLES = (CA, CB, CC, CD)

# unusual but legal attribute names of a Copyable's state dictionary (any str that has a UTF-8 form): the empty string, names
# that are falsy / look like numbers or blanks once converted, names equal to opentype strings, to words of the negotiated
# vocabulary table (sent as VOCAB tokens), to a registered copytype, to Python-internal names, long names (around the one-byte
# length header boundary and well beyond the longest opentype), non-ASCII / NUL-holding names
ATTR_NAMES = ["", "0", " ", "None", "False", "\x00", "\n", "list", "copyable", "reference", "set-vocab", "close", "abort", "tuple",
              "dict", "call", "answer", "arguments", "attributedict", "unicode", "my-reference", "verif.c01.A", "verif.c01.C14",
              "__dict__", "__class__", "copytype", "é", "€uro", "\U0001f600", "a\x00b", "\u0080", "x" * 127, "x" * 128, "n" * 300,
              "k" * 1000, "attr name with blanks", "-1", "0.0"]


def _name_of_length(n):
    base = "verif.c01.basket.with.a.long.registered.name.x"
    return ("v.b" if n <= 3 else (base + "y" * n)[:n])


# type names of assorted lengths: below, at and above the longest opentype string (13), up to and beyond the longest
# name foolscap itself registers ("twisted.python.failure.Failure", 30)
BASKET_NAMES = [_name_of_length(n) for n in (12, 3, 13, 14, 16, 21, 30, 31, 44)]
_next_name = [0]


class Basket(copyable.Copyable):
    """pass-by-copy object whose state is computed at serialization time: fresh containers on every getStateToCopy()"""

    def __init__(self, items, extra=None, name=None):
        self._items = set(items)
        self._extra = extra
        if name is None:
            name = BASKET_NAMES[_next_name[0] % len(BASKET_NAMES)]
            _next_name[0] += 1
        self._tname = name

    def getTypeToCopy(self):
        return self._tname

    def __repr__(self):
        return "Basket(%r, %r, name=%r)" % (sorted(self._items), self._extra, self._tname)

    def getStateToCopy(self):
        d = {"items": sorted(self._items), "count": {x: 1 for x in self._items}, "distinct": set(self._items)}
        if self._extra is not None:
            d["extra"] = [self._extra]
        return d


REMOTE_BASKETS = [type("RemoteBasket%d" % len(nm), (copyable.RemoteCopy, copyable.Copyable),      # Copyable too: can be echoed back
                       {"typeToCopy": nm, "copytype": nm}) for nm in BASKET_NAMES]


class Point(object):
    """third-party class, copied through a registerCopier adapter (state built by the adapter)"""

    def __init__(self, x, y):
        self.x, self.y = x, y

    def __repr__(self):
        return "Point(%r, %r)" % (self.x, self.y)


def _copy_point(p):
    return "verif.c01.pt", {"xy": [p.x, p.y], "as_tuple": (p.x, p.y)}


copyable.registerCopier(Point, _copy_point)


class RemotePoint(copyable.RemoteCopy, copyable.Copyable):
    typeToCopy = copytype = "verif.c01.pt"


_late = [0]


def late_copyable(longer=True):
    """a Copyable + RemoteCopy class created -- and thereby registered in copyable.CopyableRegistry -- NOW; with longer=True its
    type name is longer than every name registered so far"""
    longest = max(len(k) for k in copyable.CopyableRegistry.keys())
    _late[0] += 1
    name = "verif.c01.late%d." % _late[0]
    if longer:
        name = name.ljust(longest + 1 + _late[0] % 3, "z")
    return type("Late%d" % _late[0], (copyable.Copyable, copyable.RemoteCopy), {"typeToCopy": name, "copytype": name})


KEEP = []      # objects created while a case is canonicalised / compared: pinned so that id() stays unique


def as_copyable(x):
    """the ICopyable view of a sent object (None if it is not pass-by-copy)"""
    if isinstance(x, copyable.Copyable):
        return x
    if isinstance(x, (Point,)):
        a = copyable.ICopyable(x, None)
        KEEP.append(a)
        return a
    return None


def copy_state(x):
    """(type name, [(attrname, value)]) of a sent Copyable (fresh getStateToCopy(), pinned) or a received RemoteCopy"""
    c = as_copyable(x)
    if c is not None:
        st = c.getStateToCopy()
        KEEP.append(st)
        KEEP.extend(st.values())
        return c.getTypeToCopy(), list(st.items())
    if isinstance(x, copyable.RemoteCopy):
        return type(x).copytype, list(x.__dict__.items())      # the class's (an ATTRIBUTE named "copytype" is state)
    return None


def is_copy(x):
    return isinstance(x, (copyable.Copyable, copyable.RemoteCopy, Point))


class Scope:
    """a scoped sequence as the canonical DFS sees it (call / arguments / answer)"""

    def __init__(self, name, children):
        self.name = name
        self.children = children


# ------------------------------------------------------------------ atoms around every encoding boundary
def int_boundaries(maxk):
    out = [0, 1, -1, 127, 128, -128, 255, 256]
    for base in [2 ** 31] + [2 ** (8 * k) for k in (1, 2, 3, 4, 5, 7, 8, 9, 16, 55, 56, 57, 63, 64, 65, 127, 128, 129, 256, 512, 1000, 1024)
                              if k <= maxk]:
        for d in (-2, -1, 0, 1, 2):
            out.append(base + d)
            out.append(-(base + d))
    return out


FLOAT_BITS = ["0000000000000000", "8000000000000000", "7ff0000000000000", "fff0000000000000", "7ff8000000000000",
              "7ff0000000000001", "fff8000000000001", "7ff4000000000000", "0000000000000001", "000fffffffffffff",
              "0010000000000000", "7fefffffffffffff", "3ff0000000000000", "bff0000000000000", "3fb999999999999a",
              "400921fb54442d18", "7ffdeadbeefcafe1", "fff0000000000002"]

TEXTS = ["", "a", "abc", "é", "€", "\U0001f600", "\U0010ffff", "\x00", "a\x00b", "퟿", "list", "unicode",
         "\u0080߿ࠀ￿\U00010000", "x" * 300]
BYTESES = [b"", b"\x00", b"\xff", b"\x80", b"\x00\xff\x80\x7f", b"list", b"reference", b"set-vocab", b"copyable", bytes(range(256)),
           b"a" * 127, b"a" * 128, b"a" * 129, b"z" * 1000]
DECIMALS = ["0", "-0", "1.10", "1E+3", "NaN", "-NaN", "sNaN", "Infinity", "-Infinity", "0.000000000000000000000000001",
            "123456789012345678901234567890.12345", "NaN123", "1E-400"]


def float_of_bits(hx):
    return struct.unpack("!d", bytes.fromhex(hx))[0]


def atom(rng, tier_k, hashable=False):
    r = rng.random()
    if r < 0.30:
        if rng.random() < 0.5:
            return rng.choice(int_boundaries(tier_k))
        return rng.choice([1, -1]) * rng.getrandbits(rng.choice([3, 8, 31, 32, 33, 64, 200]))
    if r < 0.42:
        if rng.random() < 0.6:
            return float_of_bits(rng.choice(FLOAT_BITS))
        return struct.unpack("!d", struct.pack("!Q", rng.getrandbits(64)))[0]
    if r < 0.56:
        if rng.random() < 0.6:
            return rng.choice(BYTESES)
        return bytes(rng.getrandbits(8) for _ in range(rng.randrange(0, 12)))
    if r < 0.72:
        if rng.random() < 0.6:
            return rng.choice(TEXTS)
        return "".join(chr(rng.choice([rng.randrange(0, 0x80), rng.randrange(0x80, 0xd800), rng.randrange(0xe000, 0x110000)]))
                       for _ in range(rng.randrange(0, 6)))
    if r < 0.82:
        return rng.random() < 0.5
    if r < 0.90:
        return None
    while True:
        d = decimal.Decimal(rng.choice(DECIMALS))
        if hashable and d.is_snan():
            continue
        return d


def is_hashable(x):
    try:
        hash(x)
        return True
    except TypeError:
        return False


def py_key(x):
    """identity of a value for duplicate detection inside generated sets/dicts (Python equality merges 1, True, 1.0)"""
    return x


def gen_graph(rng, nnodes, tier_k=64):
    """a pool of containers built bottom-up, then forward edges from lists / dict values / sets into later nodes
    (every cycle therefore passes through a list, dict or set); returns the root object"""
    nodes = []
    # second stream for the attribute names of pass-by-copy instances (derived from the state of the main one without drawing
    # from it: graphs keep their shape, a third of the attribute names become unusual-but-legal ones)
    import random as _random
    sub = _random.Random(hash(rng.getstate()[1][:8]) ^ nnodes)

    def pick(hashable=False, p_node=0.5):
        if nodes and rng.random() < p_node:
            for _ in range(4):
                c = rng.choice(nodes)
                if not hashable or is_hashable(c):
                    return c
        return atom(rng, tier_k, hashable)

    for i in range(nnodes):
        k = rng.choice(["list", "list", "tuple", "tuple", "dict", "dict", "set", "frozenset", "copy", "ccopy"])
        n = rng.choice([0, 1, 1, 2, 2, 3, 4])
        if k == "list":
            nodes.append([pick() for _ in range(n)])
        elif k == "tuple":
            nodes.append(tuple(pick() for _ in range(n)))
        elif k == "dict":
            d = {}
            for _ in range(n):
                key = pick(hashable=True, p_node=0.25)
                if not is_hashable(key):
                    continue
                d[key] = pick()
            nodes.append(d)
        elif k == "set":
            nodes.append(set(x for x in (pick(hashable=True, p_node=0.3) for _ in range(n)) if is_hashable(x)))
        elif k == "frozenset":
            nodes.append(frozenset(x for x in (pick(hashable=True, p_node=0.3) for _ in range(n)) if is_hashable(x)))
        elif k == "ccopy":
            # state computed during serialization (temporaries that die while the scope is still open)
            if rng.random() < 0.7:
                ex = pick() if rng.random() < 0.3 else None
                nodes.append(Basket([rng.randrange(-5, 60) for _ in range(n)], ex))
            else:
                nodes.append(Point(rng.randrange(-9, 9), rng.randrange(-9, 9)))
        else:
            c = rng.choice(COPYABLES)()
            for j in range(n):
                nm = rng.choice(["x", "y", "z", "w", "attr_%d" % j])
                if sub.random() < 0.35:
                    nm = sub.choice(ATTR_NAMES[:5] if sub.random() < 0.4 else ATTR_NAMES)
                c.__dict__[nm] = pick()
            nodes.append(c)
    # forward edges (cycles, aliasing)
    for i, nd in enumerate(nodes):
        later = nodes[i:]
        if not later or rng.random() < 0.5:
            continue
        later_tuples = [x for x in later if isinstance(x, tuple)]
        for _ in range(rng.choice([1, 1, 2, 3])):
            tgt = rng.choice(later_tuples) if later_tuples and rng.random() < 0.5 else rng.choice(later)
            if isinstance(nd, list):
                nd.insert(rng.randrange(0, len(nd) + 1), tgt)
            elif isinstance(nd, dict):
                nd[atom(rng, 8, True) if rng.random() < 0.7 or not nd else rng.choice(list(nd.keys()))] = tgt
            elif isinstance(nd, set) and is_hashable(tgt):
                nd.add(tgt)
    k = rng.random()
    if not nodes or is_copy(nodes[-1]):
        k = 0.0          # a pass-by-copy instance is never a top-level object (RootUnslicer.doOpen has no 'copyable')
    if k < 0.5 or not nodes:
        root = [rng.choice(nodes) if nodes else atom(rng, tier_k) for _ in range(rng.choice([1, 2, 3]))] + ([nodes[-1]] if nodes else [])
    elif k < 0.8:
        root = nodes[-1]
    else:
        root = rng.choice(nodes)
        if is_copy(root):
            root = [root]
    # tuples referenced once more after everything else has gone by (a tuple bound into a cycle is complete by then)
    tups = [x for x in nodes if isinstance(x, tuple)]
    if tups and rng.random() < 0.5:
        again = [rng.choice(tups) for _ in range(rng.choice([1, 2]))]
        pos = rng.randrange(6)
        hashable = all(is_hashable(x) for x in again)
        if pos == 0:
            extra = list(again)
        elif pos == 1:
            extra = [{("k%d" % i): x for i, x in enumerate(again)}]
        elif pos == 2:
            extra = [tuple(again) + (1,)]
        elif pos == 3:
            c = CB(); c.late = again[0]; c.all = list(again)
            extra = [c]
        elif pos == 4 and hashable:
            extra = [set(again), frozenset(again)]
        elif pos == 5 and hashable:
            extra = [{x: i for i, x in enumerate(again)}]
        else:
            extra = [list(again)]
        root = [root] + extra
    return root


# ------------------------------------------------------------------ the independent canonical DFS (sender's view)
TRACKED = (list, tuple, dict, set)          # "same sharing/cycle structure among its lists, dicts and sets" (+ tuples)


class Unsupported(Exception):
    pass


def canon_py(obj, n, scopes, depth=0):
    """-> (term, next_n).  scopes: list of {id(obj): open number}, innermost last; [] = no enclosing scope.
    Terms: ("int", z) ("float", 8 bytes) ("bytes", b) ("text", utf8) ("bool", b) ("none",) ("dec", ascii) ("ref", k)
    ("cont", kind, name, [children])."""
    if depth > 400:
        raise Unsupported("no finite canonical form (cycle through pass-by-copy objects only)")
    t = type(obj)
    if t is bool:
        return ("bool", obj), n + 1
    if t is int:
        return ("int", obj), n
    if t is float:
        return ("float", struct.pack("!d", obj)), n
    if t is bytes:
        return ("bytes", obj), n
    if t is str:
        return ("text", obj.encode("utf-8")), n + 1
    if obj is None:
        return ("none",), n + 1
    if t is decimal.Decimal:
        return ("dec", str(obj).encode("ascii")), n + 1
    if t in TRACKED:
        for tbl in reversed(scopes):
            if id(obj) in tbl:
                return ("ref", tbl[id(obj)]), n + 1
        if scopes:
            scopes[-1][id(obj)] = n
            KEEP.append(obj)          # the number stays bound to this very object for the rest of the case
    if t is list or t is tuple:
        kind, name, kids = ("list" if t is list else "tuple"), b"", list(obj)
    elif t is set or t is frozenset:
        kind, name, kids = ("set" if t is set else "frozen"), b"", list(obj)
    elif t is dict:
        keys = list(obj.keys())
        try:
            keys.sort()
        except Exception:      # as OrderedDictSlicer: keep whatever order the interrupted sort left (deterministic)
            pass
        kind, name, kids = "dict", b"", [x for k in keys for x in (k, obj[k])]
    elif as_copyable(obj) is not None:
        tname, state = copy_state(obj)
        kind, name = "copy", tname.encode("ascii")
        kids = [x for k, v in state for x in (k.encode("utf-8"), v)]
    elif t is Scope:
        kind, name, kids = "scope", obj.name, list(obj.children)
        scopes = scopes + [{}]
    else:
        raise Unsupported("type %r" % t)
    me = n
    n += 1
    out = []
    for c in kids:
        tc, n = canon_py(c, n, scopes, depth + 1)
        out.append(tc)
    return ("cont", kind, name, out), n


def canon_list_py(objs, n, scoped_root):
    scopes = [{}] if scoped_root else []
    out = []
    for o in objs:
        t, n = canon_py(o, n, scopes)
        out.append(t)
    return out, n


# ------------------------------------------------------------------ the sender's heap (input of the model's sender machine)
def heap_py(objs):
    """-> (nodes, queue): nodes = {small id: (kind, name, [svals])}, queue = [sval] for the top-level objects.
    svals: the atom terms of canon_py, or ("obj", id).  One node per Python object for the reference-tracked types
    (identity = id(obj)); frozensets, pass-by-copy instances and call scopes get a fresh node at every encounter (the
    real slicers slice them again each time; getStateToCopy() is called again each time).  Children are in the order
    the real slicers emit them (the order canon_py uses)."""
    nodes = {}
    ids = {}
    counter = [100]

    def val(obj, depth):
        if depth > 400:
            raise Unsupported("no finite heap (cycle through pass-by-copy objects only)")
        t = type(obj)
        if t is bool:
            return ("bool", obj)
        if t is int:
            return ("int", obj)
        if t is float:
            return ("float", struct.pack("!d", obj))
        if t is bytes:
            return ("bytes", obj)
        if t is str:
            return ("text", obj.encode("utf-8"))
        if obj is None:
            return ("none",)
        if t is decimal.Decimal:
            return ("dec", str(obj).encode("ascii"))
        if t in TRACKED and id(obj) in ids:
            return ("obj", ids[id(obj)])
        counter[0] += 7
        me = counter[0]
        if t in TRACKED:
            ids[id(obj)] = me
            KEEP.append(obj)
        if t is list or t is tuple:
            kind, name, kids = ("list" if t is list else "tuple"), b"", list(obj)
        elif t is set or t is frozenset:
            kind, name, kids = ("set" if t is set else "frozen"), b"", list(obj)
        elif t is dict:
            keys = list(obj.keys())
            try:
                keys.sort()
            except Exception:
                pass
            kind, name, kids = "dict", b"", [x for k in keys for x in (k, obj[k])]
        elif as_copyable(obj) is not None:
            tname, state = copy_state(obj)
            kind, name = "copy", tname.encode("ascii")
            kids = [x for k, v in state for x in (k.encode("utf-8"), v)]
        elif t is Scope:
            kind, name, kids = "scope", obj.name, list(obj.children)
        else:
            raise Unsupported("type %r" % t)
        nodes[me] = None
        nodes[me] = (kind, name, [val(c, depth + 1) for c in kids])
        return ("obj", me)

    queue = [val(o, 0) for o in objs]
    return nodes, queue


def sval_coq(v):
    k = v[0]
    if k == "obj":
        return "SObj %d" % v[1]
    if k == "int":
        z = v[1]
        if abs(z) >= 2 ** 62:
            m = abs(z)
            return "SInt (zb %s %s)" % ("true" if z < 0 else "false", coq_Zs(m.to_bytes((m.bit_length() + 7) // 8, "big")))
        return "SInt (%d)" % z
    if k == "float":
        return "SFloat " + coq_Zs(v[1])
    if k == "bytes":
        return "SBytes " + coq_Zs(v[1])
    if k == "text":
        return "SText " + coq_Zs(v[1])
    if k == "bool":
        return "SBool " + ("true" if v[1] else "false")
    if k == "none":
        return "SNone"
    return "SDecimal " + coq_Zs(v[1])


def heap_coq(nodes, queue):
    rows = []
    for i, (kind, name, kids) in nodes.items():
        ck = {"list": "CList", "tuple": "CTuple", "set": "CSet", "frozen": "CFrozen", "dict": "CDict"}.get(kind)
        if ck is None:
            ck = "(%s %s)" % ("CCopy" if kind == "copy" else "CScope", coq_Zs(name))
        rows.append("(%d, {| sn_kind := %s; sn_items := [%s] |})" % (i, ck, "; ".join(sval_coq(c) for c in kids)))
    return "[%s]" % "; ".join(rows), "[%s]" % "; ".join(sval_coq(v) for v in queue)


def term_size(t):
    return 1 + (sum(term_size(c) for c in t[3]) if t[0] == "cont" else 0)


def term_stats(t, st=None):
    st = st if st is not None else dict(nodes=0, refs=0, selfrefs=0, kinds=set(), depth=0)

    def go(t, d, open_):
        st["nodes"] += 1
        st["depth"] = max(st["depth"], d)
        st["kinds"].add(t[0] if t[0] != "cont" else t[1])
        if t[0] == "ref":
            st["refs"] += 1
            if t[1] in open_:
                st["selfrefs"] += 1
    # iterative-enough: graphs are small
    def walk(t, d, open_, n):
        go(t, d, open_)
        if t[0] == "cont":
            me = n
            n += 1
            for c in t[3]:
                n = walk(c, d + 1, open_ | {me}, n)
            return n
        return n + (0 if t[0] in ("int", "float", "bytes") else 1)
    walk(t, 0, frozenset(), 0)
    return st


def coq_Zs(b):
    return "[" + ";".join(str(x) for x in b) + "]"


def term_coq(t):
    k = t[0]
    if k == "int":
        z = t[1]
        if abs(z) >= 2 ** 62:       # Coq parses long decimal literals very slowly: give the magnitude as big-endian bytes
            m = abs(z)
            return "OInt (zb %s %s)" % ("true" if z < 0 else "false", coq_Zs(m.to_bytes((m.bit_length() + 7) // 8, "big")))
        return "OInt (%d)" % z
    if k == "float":
        return "OFloat " + coq_Zs(t[1])
    if k == "bytes":
        return "OBytes " + coq_Zs(t[1])
    if k == "text":
        return "OText " + coq_Zs(t[1])
    if k == "bool":
        return "OBool " + ("true" if t[1] else "false")
    if k == "none":
        return "ONone"
    if k == "dec":
        return "ODecimal " + coq_Zs(t[1])
    if k == "ref":
        return "ORef %d" % t[1]
    ck = {"list": "CList", "tuple": "CTuple", "set": "CSet", "frozen": "CFrozen", "dict": "CDict"}.get(t[1])
    if ck is None:
        ck = "(%s %s)" % ("CCopy" if t[1] == "copy" else "CScope", coq_Zs(t[2]))
    return "OCont %s [%s]" % (ck, "; ".join(term_coq(c) for c in t[3]))


# ------------------------------------------------------------------ the real sender
class CaptureTransport:
    def __init__(self):
        self.out = bytearray()
        self.closed = False

    def write(self, d):
        self.out += d

    def loseConnection(self, why=None):
        self.closed = True

    def getPeer(self):
        return broker_mod.LoopbackAddress()

    getHost = getPeer


def new_sender(vocab=None):
    b = storage.StorageBanana()
    b.transport = CaptureTransport()
    b.connectionMade()
    if vocab is not None:
        b.populateVocabTable(list(vocab))
    return b


def send_obj(b, obj):
    """-> None on success, else a short description of the failure"""
    res = []
    with E.quiet():
        b.send(obj).addBoth(res.append)
        E.turn()
    if not res:
        return "send did not finish"
    if isinstance(res[0], Failure):
        return "send failed: %s: %s" % (res[0].type.__name__, str(res[0].value)[:120])
    if b.disconnectReason or b.violation:
        f = b.disconnectReason or b.violation
        return "send failed: %s: %s" % (f.type.__name__, str(f.value)[:120])
    return None


OPENTYPE = {"list": [b"list"], "tuple": [b"tuple"], "set": [b"set"], "frozen": [b"immutable-set"], "dict": [b"dict"]}


def write_term(b, t):
    """emit the token stream of a canonical term with the Banana's own token writers (no slicers involved)"""
    k = t[0]
    if k in ("int", "float", "bytes"):
        b.sendToken(t[1] if k != "float" else struct.unpack("!d", t[1])[0])
        return
    n = b.sendOpen()
    if k == "cont":
        idx = OPENTYPE.get(t[1]) or ([b"copyable", t[2]] if t[1] == "copy" else [t[2]])
        for s_ in idx:
            b.sendToken(s_)
        for c in t[3]:
            write_term(b, c)
    elif k == "ref":
        b.sendToken(b"reference"); b.sendToken(t[1])
    elif k == "text":
        b.sendToken(b"unicode"); b.sendToken(t[1])
    elif k == "bool":
        b.sendToken(b"boolean"); b.sendToken(1 if t[1] else 0)
    elif k == "none":
        b.sendToken(b"none")
    elif k == "dec":
        b.sendToken(b"decimal"); b.sendToken(t[1])
    b.sendClose(n)


# ------------------------------------------------------------------ the real receiver
class RxBanana(storage.StorageBanana):
    """StorageBanana that can take several top-level objects"""

    def __init__(self):
        storage.StorageBanana.__init__(self)
        self.got = []

    def receiveChild(self, obj, ready_deferred):
        if obj in (ReplaceVocabularyTable, AddToVocabularyTable):
            return
        slot = [obj, ready_deferred is None]
        self.got.append(slot)
        if ready_deferred is not None:
            ready_deferred.addBoth(lambda r, slot=slot: slot.__setitem__(1, True))


def receive(data, cuts, vocab=None, tolerate_abort=False, written=None):
    """feed `data` split at the offsets `cuts`; -> ("ok", [objects]) | ("exc"|"violation"|"pending", text).
    written: a bytearray that collects what the receiver writes to its transport (the PONG answers to PING tokens)"""
    b = RxBanana()
    if written is not None:
        b.transport = CaptureTransport()
        b.transport.out = written
    b.connectionMade()
    if vocab is not None:
        b.populateVocabTable(list(vocab))
    pos = 0
    try:
        with E.quiet():
            for c in list(cuts) + [len(data)]:
                if c > pos:
                    b.dataReceived(bytes(data[pos:c]))
                    pos = c
            E.turn()
    except Exception as e:
        return ("exc", "%s: %s" % (type(e).__name__, str(e)[:160]))
    if b.violation and not (tolerate_abort and "ABORT received" in str(b.violation.value)):
        return ("violation", str(b.violation.value)[:160])
    if b.disconnectReason:
        return ("exc", str(b.disconnectReason.value)[:160])
    if any(isinstance(s[0], defer.Deferred) or not s[1] for s in b.got):
        return ("pending", "a top-level object is still a Deferred")
    return ("ok", [s[0] for s in b.got])


def receive_lenient(data, vocab=None):
    """feed `data` in one piece to a storage receiver and report what it delivered even if it recorded a Violation on the way:
    -> (objects delivered, violation text or None, exception text or None)"""
    b = RxBanana()
    b.connectionMade()
    if vocab is not None:
        b.populateVocabTable(list(vocab))
    try:
        with E.quiet():
            b.dataReceived(bytes(data))
            E.turn()
    except Exception as e:
        return [s_[0] for s_ in b.got], None, "%s: %s" % (type(e).__name__, str(e)[:160])
    viol = str(b.violation.value)[:160] if b.violation else None
    exc = str(b.disconnectReason.value)[:160] if b.disconnectReason else None
    return [s_[0] for s_ in b.got], viol, exc


def chunkings(rng, n, how):
    if how == "one":
        return []
    if how == "bytewise":
        return list(range(1, n))
    if how == "random":
        k = rng.randrange(1, 12)
        return sorted(set(rng.randrange(1, max(2, n)) for _ in range(k)))
    raise ValueError(how)


# ------------------------------------------------------------------ keepalive tokens inside the stream
# With keepalives enabled Banana.keepaliveTimerFired writes a PING token into the byte stream that carries the objects and
# the peer answers with a PONG token, at whatever token boundary the stream happens to be.  These tokens are not part of
# any object: the graph that arrives must not depend on them, nor on how they are packed together with their neighbours.
def token_bounds(data):
    """offsets at which the tokens of a clean Banana byte stream start, plus len(data); with the type byte of each token
    (independent scanner: header bytes < 0x80, type byte, body of STRING / LONGINT / LONGNEG / ERROR / FLOAT)"""
    bounds, types, pos, n = [0], [], 0, len(data)
    while pos < n:
        hdr = sh = 0
        while data[pos] < 0x80:
            hdr |= data[pos] << sh
            sh += 7
            pos += 1
        ty = data[pos]
        pos += 1
        if ty in (0x82, 0x85, 0x86, 0x8d):
            pos += hdr
        elif ty == 0x84:
            pos += 8
        if pos > n:
            raise ValueError("truncated token")
        types.append(ty)
        bounds.append(pos)
    return bounds, types


def ka_token(kind, number):
    """the bytes the real writers Banana.sendPING / sendPONG put on the wire"""
    b = banana_mod.Banana()
    b.transport = CaptureTransport()
    (b.sendPING if kind == "ping" else b.sendPONG)(number)
    return bytes(b.transport.out)


def ka_splice(data, inserts):
    """inserts: [(offset into data, keepalive token bytes)] (several at one offset allowed, kept in order)
    -> (stream, [(start, end) of every keepalive token in the stream])"""
    out, spans, pos = bytearray(), [], 0
    for off, kb in sorted(inserts, key=lambda x: x[0]):
        out += data[pos:off]
        pos = off
        spans.append((len(out), len(out) + len(kb)))
        out += kb
    out += data[pos:]
    return bytes(out), spans


def ka_places(rng, data, ends, family):
    """offsets (token boundaries of `data`) of one placement family.  ends: offsets at which a top-level object ends."""
    bounds, types = token_bounds(data)
    m = len(types)
    if family == "front":
        return [0]
    if family == "end":
        return [len(data)]
    if family == "between-objects":
        return [e for e in ends if e < len(data)] or [len(data)]
    if family == "index-phase":            # between an OPEN token and its first index token
        return [bounds[i + 1] for i in range(m) if types[i] == 0x88][:40]
    if family == "after-index":            # right after the token that follows an OPEN
        return [bounds[i + 2] for i in range(m - 1) if types[i] == 0x88][:40]
    if family == "before-close":
        return [bounds[i] for i in range(m) if types[i] == 0x89][:40]
    if family == "after-body":             # behind tokens that carry a body (STRING / FLOAT / LONGINT / LONGNEG)
        return [bounds[i + 1] for i in range(m) if types[i] in (0x82, 0x84, 0x85, 0x86)][:40]
    if family == "every":
        return bounds[:200]
    if family == "burst":                  # several keepalive tokens in a row at one place
        return [bounds[(m // 2)]] * 5
    if family == "random":
        return sorted(rng.choice(bounds) for _ in range(rng.choice([1, 1, 2, 3, 6])))
    raise ValueError(family)


KA_FAMILIES = ["front", "between-objects", "index-phase", "after-index", "before-close", "after-body", "every", "burst", "end"]
KA_KINDS = [("ping", 0), ("pong", 0), ("ping", 7), ("pong", 300), ("ping", 2 ** 62), ("ping", 128), ("pong", 2 ** 21 - 1)]
KA_CHUNKINGS = ["one", "alone", "glued-1", "glued-10", "glued-63", "glued-64", "glued-65", "glued-100", "tail", "bytewise", "random"]


def ka_chunkings(rng, n, spans, how):
    """cut offsets for a stream with keepalive tokens at `spans`: `alone` = every keepalive token in a packet of its own;
    `glued-k` = a packet starts at every keepalive token and carries the k bytes behind it as well; `tail` = every keepalive
    token is the last thing in its packet"""
    if how in ("one", "bytewise", "random"):
        return chunkings(rng, n, how)
    cuts = set()
    for s_, e in spans:
        if how == "alone":
            cuts.update((s_, e))
        elif how == "tail":
            cuts.add(e)
        else:
            cuts.update((s_, e + int(how.split("-")[1])))
    return sorted(c for c in cuts if 0 < c < n)


def strip_ka_bytes(stream):
    """the stream without its PING / PONG tokens"""
    bounds, types = token_bounds(stream)
    return b"".join(stream[bounds[i]:bounds[i + 1]] for i in range(len(types)) if types[i] not in (0x8e, 0x8f))


def expected_pongs(stream):
    """the PONG tokens a receiver owes for the PING tokens of `stream` (same numbers, same order), as bytes"""
    out = bytearray()
    pos, n = 0, len(stream)
    while pos < n:
        start = pos
        hdr = sh = 0
        while stream[pos] < 0x80:
            hdr |= stream[pos] << sh
            sh += 7
            pos += 1
        ty = stream[pos]
        pos += 1
        if ty in (0x82, 0x85, 0x86, 0x8d):
            pos += hdr
        elif ty == 0x84:
            pos += 8
        elif ty == 0x8e:
            out += stream[start:pos - 1] + b"\x8f"
    return bytes(out)


# ------------------------------------------------------------------ matcher: canonical term vs received graph
KIND_TYPE = {"list": list, "tuple": tuple, "set": set, "frozen": frozenset, "dict": dict}


class Mismatch(Exception):
    pass


def float_bits(x):
    return struct.pack("!d", x)


def match_term(t, obj, env, n, path="root"):
    """the received object `obj` is the graph denoted by term `t` (next OPEN number n); env: OPEN number -> object.
    Sets (and frozensets) are matched up to the order of their elements.  Returns next n; raises Mismatch."""
    k = t[0]
    if k == "int":
        if type(obj) is not int or obj != t[1]:
            raise Mismatch("%s: expected int %s, got %s %r" % (path, str(t[1])[:40], type(obj).__name__, str(obj)[:40]))
        return n
    if k == "float":
        if type(obj) is not float or float_bits(obj) != t[1]:
            raise Mismatch("%s: expected float bits %s, got %r" % (path, t[1].hex(), obj))
        return n
    if k == "bytes":
        if type(obj) is not bytes or obj != t[1]:
            raise Mismatch("%s: expected bytes %r, got %s %r" % (path, t[1][:30], type(obj).__name__, str(obj)[:40]))
        return n
    if k == "text":
        if type(obj) is not str or obj.encode("utf-8", "surrogatepass") != t[1]:
            raise Mismatch("%s: expected text %r, got %s %r" % (path, t[1][:30], type(obj).__name__, str(obj)[:40]))
        return n + 1
    if k == "bool":
        if type(obj) is not bool or obj != t[1]:
            raise Mismatch("%s: expected bool %r, got %s %r" % (path, t[1], type(obj).__name__, str(obj)[:40]))
        return n + 1
    if k == "none":
        if obj is not None:
            raise Mismatch("%s: expected None, got %s" % (path, type(obj).__name__))
        return n + 1
    if k == "dec":
        if type(obj) is not decimal.Decimal or str(obj).encode("ascii") != t[1]:
            raise Mismatch("%s: expected Decimal %r, got %s %r" % (path, t[1], type(obj).__name__, str(obj)[:40]))
        return n + 1
    if k == "ref":
        if t[1] not in env or env[t[1]] is not obj:
            raise Mismatch("%s: expected the very object opened at %d (aliasing/cycle), got %s" % (path, t[1], type(obj).__name__))
        return n + 1
    kind, name, kids = t[1], t[2], t[3]
    if kind == "copy":
        if not isinstance(obj, copyable.RemoteCopy) or (type(obj).copytype or "").encode("ascii") != name:
            raise Mismatch("%s: expected RemoteCopy %r, got %s" % (path, name, type(obj).__name__))
    elif type(obj) is not KIND_TYPE[kind]:
        raise Mismatch("%s: expected %s, got %s" % (path, kind, type(obj).__name__))
    if kind in ("list", "tuple", "dict", "set", "copy"):     # copy: no sender refers to one (trackReferences False); crafted streams do
        for kk, o in env.items():
            if o is obj:
                raise Mismatch("%s: object opened at %d was already seen at %d: aliasing that the sender did not have" % (path, n, kk))
        env[n] = obj
    n += 1
    if kind in ("list", "tuple"):
        if len(obj) != len(kids):
            raise Mismatch("%s: expected %d elements, got %d" % (path, len(kids), len(obj)))
        for i, (c, o) in enumerate(zip(kids, obj)):
            n = match_term(c, o, env, n, "%s[%d]" % (path, i))
        return n
    if kind == "dict":
        items = list(obj.items())            # arrival order = insertion order
        if len(items) * 2 != len(kids):
            raise Mismatch("%s: expected %d keys, got %d" % (path, len(kids) // 2, len(items)))
        for i, (kk, vv) in enumerate(items):
            n = match_term(kids[2 * i], kk, env, n, "%s.key%d" % (path, i))
            n = match_term(kids[2 * i + 1], vv, env, n, "%s.val%d" % (path, i))
        return n
    if kind == "copy":
        items = list(obj.__dict__.items())
        if len(items) * 2 != len(kids):
            raise Mismatch("%s: expected %d attributes, got %d" % (path, len(kids) // 2, len(items)))
        for i, (kk, vv) in enumerate(items):
            n = match_term(kids[2 * i], kk.encode("utf-8"), env, n, "%s.attrname%d" % (path, i))
            n = match_term(kids[2 * i + 1], vv, env, n, "%s.%s" % (path, kk))
        return n
    # set / frozenset: backtracking assignment of term children to elements
    elems = list(obj)
    if len(elems) != len(kids):
        raise Mismatch("%s: expected %d set elements, got %d" % (path, len(kids), len(elems)))

    def assign(i, n, used, env):
        if i == len(kids):
            return n, env
        last = None
        for j, e in enumerate(elems):
            if j in used:
                continue
            env2 = dict(env)
            try:
                n2 = match_term(kids[i], e, env2, n, "%s{%d}" % (path, i))
            except Mismatch as m:
                last = m
                continue
            try:
                return assign(i + 1, n2, used | {j}, env2)
            except Mismatch as m:
                last = m
        raise last or Mismatch("%s: no element matches child %d" % (path, i))

    n, env2 = assign(0, n, frozenset(), env)
    env2 = dict(env2)
    env.clear()
    env.update(env2)
    return n


def match_all(terms, objs, n):
    if len(terms) != len(objs):
        raise Mismatch("expected %d top-level objects, got %d" % (len(terms), len(objs)))
    env = {}
    for i, (t, o) in enumerate(zip(terms, objs)):
        n = match_term(t, o, env, n, "obj%d" % i)
    return env


# ------------------------------------------------------------------ direct oracle: rooted graph isomorphism sent ~ received
IDENT = (list, dict, set)        # nodes whose identity must be preserved one-to-one


def atom_equal(a, b):
    ta, tb = type(a), type(b)
    if ta is not tb:
        return "type %s became %s" % (ta.__name__, tb.__name__)
    if ta is float:
        return None if float_bits(a) == float_bits(b) else "float bits %s became %s" % (float_bits(a).hex(), float_bits(b).hex())
    if ta is decimal.Decimal:
        return None if str(a) == str(b) else "Decimal %s became %s" % (a, b)
    if ta in (int, bool, bytes, str) or a is None:
        return None if a == b else "%s value changed: %r -> %r" % (ta.__name__, str(a)[:40], str(b)[:40])
    return "not an atom"


def children_of(x):
    t = type(x)
    if t in (list, tuple):
        return "seq", list(x)
    if t is dict:
        return "map", list(x.items())
    if t in (set, frozenset):
        return "bag", list(x)
    if is_copy(x):
        return "attrs", sorted(copy_state(x)[1])
    return "atom", None


def same_class(a, b):
    if is_copy(a):
        return isinstance(b, copyable.RemoteCopy) and copy_state(a)[0] == type(b).copytype
    return type(a) is type(b)


def iso(a, b, fwd, bwd, on_path):
    """a (sent) ~ b (received): same type at every node, equal atoms, ordered children for list/tuple, unordered for
    set/dict keys, identity of lists/dicts/sets preserved in both directions (fwd/bwd maps).  Other nodes
    (tuples, frozensets, pass-by-copy instances) are compared by unfolding; a revisit of the same (a, b) pair on the
    current path closes a cycle.  Returns None or a description of the first difference."""
    kind, kids = children_of(a)
    if kind == "atom":
        return atom_equal(a, b)
    if not same_class(a, b):
        return "type %s became %s" % (type(a).__name__, type(b).__name__)
    key = (id(a), id(b))
    if isinstance(a, IDENT):
        if id(a) in fwd:
            return None if fwd[id(a)] is b else "aliasing lost: a %s sent once arrived as two objects" % type(a).__name__
        if id(b) in bwd:
            return "aliasing invented: two %ss arrived as one object" % type(a).__name__
        fwd[id(a)] = b
        bwd[id(b)] = a
    elif key in on_path or ("done",) + key in fwd:
        return None          # this very pair is being / has been compared (reached again through a shared tuple)
    on_path = on_path | {key}
    r = iso_children(a, b, kind, kids, fwd, bwd, on_path)
    if r is None and not isinstance(a, IDENT):
        fwd[("done",) + key] = True
        KEEP.append(a)
    return r


def iso_children(a, b, kind, kids, fwd, bwd, on_path):
    _, kb = children_of(b)
    if len(kids) != len(kb):
        return "%s of %d children arrived with %d" % (type(a).__name__, len(kids), len(kb))
    if kind == "seq":
        for x, y in zip(kids, kb):
            r = iso(x, y, fwd, bwd, on_path)
            if r:
                return r
        return None
    if kind == "attrs":
        for (ka, va), (kb_, vb) in zip(kids, kb):
            if ka != kb_:
                return "attribute %r became %r" % (ka, kb_)
            r = iso(va, vb, fwd, bwd, on_path)
            if r:
                return r
        return None
    # unordered: backtracking
    pair = kind == "map"

    def assign(i, used, fwd, bwd):
        if i == len(kids):
            return None, fwd, bwd
        last = "no match"
        if pair and children_of(kids[i][0])[0] == "atom":
            # atomic key: its partner is the entry with the equal key (keys are unique), no search
            js = [j for j, y in enumerate(kb) if j not in used and atom_equal(kids[i][0], y[0]) is None]
            if not js:
                return "dict key %r (%s) did not arrive" % (str(kids[i][0])[:40], type(kids[i][0]).__name__), fwd, bwd
            j = js[0]
            f2, b2 = dict(fwd), dict(bwd)
            r = iso(kids[i][1], kb[j][1], f2, b2, on_path)
            if r:
                return "under dict key %r: %s" % (str(kids[i][0])[:40], r), fwd, bwd
            return assign(i + 1, used | {j}, f2, b2)
        for j, y in enumerate(kb):
            if j in used:
                continue
            f2, b2 = dict(fwd), dict(bwd)
            if pair:
                r = iso(kids[i][0], y[0], f2, b2, on_path) or iso(kids[i][1], y[1], f2, b2, on_path)
            else:
                r = iso(kids[i], y, f2, b2, on_path)
            if r:
                last = r
                continue
            r, f3, b3 = assign(i + 1, used | {j}, f2, b2)
            if r is None:
                return None, f3, b3
            last = r
        return "%s element %d has no counterpart (%s)" % (type(a).__name__, i, last), fwd, bwd

    r, f3, b3 = assign(0, frozenset(), fwd, bwd)
    if r is None:
        f3, b3 = dict(f3), dict(b3)
        fwd.clear(); fwd.update(f3)
        bwd.clear(); bwd.update(b3)
    return r


def oracle_iso(sent, received):
    if len(sent) != len(received):
        return "sent %d objects, received %d" % (len(sent), len(received))
    fwd, bwd = {}, {}
    for a, b in zip(sent, received):
        r = iso(a, b, fwd, bwd, frozenset())
        if r:
            return r
    return None


def mutable_ids(x, seen=None, out=None):
    """ids of every list/dict/set/tuple-or-instance object reachable from x"""
    seen = seen if seen is not None else set()
    out = out if out is not None else set()
    kind, kids = children_of(x)
    if kind == "atom" or id(x) in seen:
        return out
    seen.add(id(x))
    if isinstance(x, IDENT) or kind == "attrs":
        out.add(id(x))      # tuples / frozensets may be interned by CPython (the empty ones are singletons)
    for c in kids:
        if kind in ("map", "attrs"):
            if kind == "map":
                mutable_ids(c[0], seen, out)
            mutable_ids(c[1], seen, out)
        else:
            mutable_ids(c, seen, out)
    return out


# ------------------------------------------------------------------ deferred analysis (the documented restriction)
def deferred_hazards(terms, n):
    """Walk canonical terms the way the unslicers would: a reference to a tuple that is not complete yet, or a
    tuple/frozenset closed with such a child, is a Deferred.  Returns the set of places that cannot take one:
    {"copy-attr", "dict-key"}."""
    hazards = set()
    incomplete = set()       # open numbers of tuples (and frozensets, copies) not complete yet
    waits = {}               # k -> set of numbers it waits for

    def complete(k):
        incomplete.discard(k)
        for y, w in list(waits.items()):
            if k in w:
                w.discard(k)
                if not w and y in closed:
                    del waits[y]
                    complete(y)
    closed = set()

    def walk(t, n):
        """-> (next n, set of numbers this value is waiting for (empty = a real object))"""
        if t[0] in ("int", "float", "bytes"):
            return n, set()
        if t[0] != "cont":
            if t[0] == "ref" and t[1] in incomplete:
                return n + 1, {t[1]}
            return n + 1, set()
        kind, kids = t[1], t[3]
        me = n
        n += 1
        if kind in ("tuple", "frozen", "copy"):
            incomplete.add(me)
        mywaits = set()
        for i, c in enumerate(kids):
            n, w = walk(c, n)
            w = {x for x in w if x in incomplete}
            if w:
                if kind == "copy" and i % 2 == 1:
                    hazards.add("copy-attr")
                elif kind == "dict" and i % 2 == 0:
                    hazards.add("dict-key")
                elif kind in ("tuple", "frozen"):
                    mywaits |= w
        if kind in ("tuple", "frozen"):
            closed.add(me)
            mywaits.discard(me)
            if mywaits:
                waits[me] = mywaits
                return n, {me}
            complete(me)
            return n, set()
        if kind == "copy":
            closed.add(me)
            complete(me)
        return n, set()

    for t in terms:
        n, _ = walk(t, n)
    return hazards


def tuple_ref_after_dict_value_ref(terms, n):
    """a still-open tuple is referenced from a dict value and, later while it is still open, referenced again:
    the second referrer is handed what DictUnslicer.update returned"""
    hit = []

    def walk(t, n, open_tuples, seen):
        if t[0] in ("int", "float", "bytes"):
            return n
        if t[0] != "cont":
            if t[0] == "ref" and t[1] in open_tuples and t[1] in seen:
                hit.append(t[1])
            return n + 1
        me = n
        n += 1
        ot = open_tuples | {me} if t[1] == "tuple" else open_tuples
        for i, c in enumerate(t[3]):
            if c[0] == "ref" and c[1] in ot:
                if c[1] in seen:
                    hit.append(c[1])
                if t[1] == "dict" and i % 2 == 1:
                    seen.add(c[1])
                n += 1
            else:
                n = walk(c, n, ot, seen)
        return n
    for t in terms:
        n = walk(t, n, frozenset(), set())
    return bool(hit)


def has_deferred_tuple(terms, n):
    """some tuple / frozenset directly contains a reference to a tuple / frozenset / Copyable that is still open: its
    completion is deferred in the implementation; the model's theorems exclude these graphs (wf_at), the model itself
    and the implementation are still compared on them"""
    found = []

    def walk(t, n, imm):
        if t[0] in ("int", "float", "bytes"):
            return n
        if t[0] != "cont":
            return n + 1
        me = n
        n += 1
        imm2 = imm | {me} if t[1] in ("tuple", "frozen", "copy") else imm
        if t[1] in ("tuple", "frozen") and any(c[0] == "ref" and c[1] in imm2 for c in t[3]):
            found.append(me)
        for c in t[3]:
            n = walk(c, n, imm2)
        return n
    for t in terms:
        n = walk(t, n, frozenset())
    return bool(found)


# ------------------------------------------------------------------ Broker pair: calls
class Target(Referenceable):
    def __init__(self):
        self.calls = []

    def remote_take(self, *a, **kw):
        self.calls.append((a, kw))
        return None

    def remote_echo(self, x):
        self.calls.append(((x,), {}))
        return x


from zope.interface import implementer as _implementer
from foolscap.api import RemoteInterface
from foolscap.remoteinterface import RemoteInterfaceRegistry
from foolscap.schema import ListOf, Any as _Any, DictOf, TupleOf

try:
    class RIC01(RemoteInterface):
        def strict(a=int, b=_Any(), c=_Any()):
            return None

        def strict2(a=_Any(), b=ListOf(int), c=_Any()):
            return None

        def strictkw(x=_Any(), y=DictOf(int, int), z=_Any()):
            return None

        def ret_int(x=_Any()):
            return int

        def ret_list(x=_Any()):
            return ListOf(int)

        def echo2(x=_Any()):
            return _Any()
except Exception:      # registered twice (module reloaded)
    RIC01 = RemoteInterfaceRegistry["RIC01"]


@_implementer(RIC01)
class StrictTarget(Referenceable):
    """methods with argument / result schemas: a caller that does not know the interface sends anything, this side rejects"""

    def __init__(self):
        self.calls = []

    def remote_strict(self, a, b, c):
        self.calls.append(("strict", a, b, c))

    def remote_strict2(self, a, b, c):
        self.calls.append(("strict2", a, b, c))

    def remote_strictkw(self, x, y, z):
        self.calls.append(("strictkw", x, y, z))

    def remote_ret_int(self, x):
        return x                  # violates `return int` on the caller's side when x is not an int

    def remote_ret_list(self, x):
        return x

    def remote_echo2(self, x):
        return x


class Pair:
    """two Brokers whose transports only accumulate; bytes are moved by the test, in chosen chunks"""

    def __init__(self, vocab_index=None, keepalive=None):
        E.reset_clock()
        params = {}
        if vocab_index:
            params = {"initial-vocab-table-index": vocab_index}
        # keepalive: Tub.setOption("keepaliveTimeout", seconds) -- an idle connection gets PING tokens from keepaliveTimerFired
        self.callee = broker_mod.Broker(TubRef("callee"), params, keepaliveTimeout=keepalive)
        self.caller = broker_mod.Broker(TubRef("caller"), params, keepaliveTimeout=keepalive)
        self.t_callee, self.t_caller = CaptureTransport(), CaptureTransport()
        self.callee.transport, self.caller.transport = self.t_callee, self.t_caller
        self.callee.connectionMade()
        self.caller.connectionMade()
        self.target = Target()
        tr = self.callee.getTrackerForMyReference(self.target.processUniqueID(), self.target)
        tr.send()
        self.clid = tr.clid
        self.rr = self.caller.getTrackerForYourReference(tr.clid, None).getRef()
        self.strict = StrictTarget()
        tr2 = self.callee.getTrackerForMyReference(self.strict.processUniqueID(), self.strict)
        tr2.send()
        self.rr_untyped = self.caller.getTrackerForYourReference(tr2.clid, None).getRef()       # no outbound checks
        self.rr_typed = self.caller.getTrackerForYourReference(tr2.clid, "RIC01").getRef()      # checks results on arrival
        self.pos = {id(self.t_callee): 0, id(self.t_caller): 0}

    def pump(self, frm, to, rng=None, how="one"):
        """deliver what `frm`'s transport accumulated to broker `to`; returns the bytes"""
        tr = frm.transport
        data = bytes(tr.out[self.pos[id(tr)]:])
        self.pos[id(tr)] = len(tr.out)
        cuts = chunkings(rng, len(data), how) if data else []
        p = 0
        with E.quiet():
            for c in cuts + [len(data)]:
                if c > p:
                    to.dataReceived(data[p:c])
                    p = c
            E.turn()
        return data

    def settle(self, rng=None, how="one"):
        for _ in range(20):
            a = self.pump(self.caller, self.callee, rng, how)
            b = self.pump(self.callee, self.caller, rng, how)
            if not a and not b:
                return
