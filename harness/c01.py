"""C01 -- serialization round-trip preserves value, type and sharing topology."""
import decimal, json, os, struct
from harness import common
from harness.common import coq_list


def tail(s, n=2500):
    return s[-n:]


REQ = ["Verif.lib.PyLite", "Verif.gen.BananaGen", "Verif.gen.SlicersGen", "Verif.lib.Token", "Verif.lib.Obj", "Verif.lib.ObjDefer", "Verif.lib.ObjGuard", "Verif.lib.SendHeap",
       "Verif.lib.Recv", "Verif.lib.ObjChunks", "Verif.lib.ObjKeepalive"]

V1 = None


def vocab_v1():
    global V1
    if V1 is None:
        from foolscap import vocab
        V1 = list(vocab.INITIAL_VOCAB_TABLES[1])
    return V1


def coq_tbl(words):
    """word list -> the model's table (what dict(zip(words, range)) keeps)"""
    return coq_pairs(table_of(words))


def coq_pairs(pairs):
    return "[" + "; ".join("(%s, %d)" % ("[" + ";".join(str(x) for x in s) + "]", i) for s, i in pairs) + "]"


def run(ctx):
    ctx.rule = ("case = object graph (pool of lists/tuples/dicts/sets/frozensets/registered Copyables built bottom-up with "
                "aliasing, plus forward edges from lists/dict values/sets giving cycles; atoms around every integer encoding "
                "boundary, special float bit patterns, bytes/text incl. astral code points, Decimal specials, bool/None) x "
                "vocabulary table (none / negotiated table 1 / replaced mid-stream) x chunking (1 chunk / bytewise / random) x "
                "keepalive tokens (PING / PONG with and without a number, written by sendPING / sendPONG or by the keepalive timer) at "
                "token boundaries of the stream (front / between objects / index phase / before CLOSE / behind bodies / everywhere / "
                "bursts), packed alone, glued to the 1..100 bytes behind them, or at the tail of a packet; "
                "one still-pending immutable (open ancestor tuple / tuple or frozenset closed while waiting) mentioned by several "
                "referrers (list slot, dict value, set member, tuple slot, frozenset member) in every order of first and later kind; "
                "non-trivial = distinct canonical term with at least one container that was sent, received and compared")
    ctx.assumptions = [
        "text is modelled as its UTF-8 byte string and floats as their 8 bytes: str.encode/decode('UTF-8') and struct.pack/unpack('!d') "
        "are CPython's (checked on every generated case by the oracle, not modelled)",
        "Decimal is modelled as str(d); decimal.Decimal(str(d)) is CPython's (checked by the oracle)",
        "Twisted's Deferred is modelled by its contract only (callbacks run once, synchronously, in registration order, each handed the "
        "previous one's return value); lib/ObjDefer.v models what foolscap builds on it (placeholders, update callbacks, "
        "num_unreferenceable_children, complete(), cascades) and is compared with the implementation on every case; ready_deferred / "
        "AsyncAND is always None for the pass-by-value types and is not modelled",
        "ObjDefer.fill tests that the placeholder is where the callback expects it (the code assigns unconditionally) and `complete` "
        "tests that the object is still pending: defensive, compared per case; a Deferred child of a call/arguments scope and a "
        "reference to a frozenset (never emitted: FrozenSetSlicer.trackReferences = False, translated) are refused / modelled as a pointer",
        "that the Deferred-level receiver DOES deliver (no refusal, nothing left pending) is not proved in general (C01_deferred_sound "
        "is partial correctness): evaluated per case by vm_compute and compared with the implementation",
        "dict/set membership semantics (hash/==) are Python's: the model keeps children as sequences; key uniqueness is a property of the sender's dict",
        "every Copyable type name in a graph is registered on the receiving side (registerRemoteCopy)",
        "byte-level receive (handleData, StringChain) is the lead's C07: its generic tokenizer (lib/Recv.v) is composed with the object "
        "layer in C01_end_to_end_any_chunking (every packetisation); the tie of Recv.v to banana.py is C07's; the real "
        "receiver is run under 1-chunk / bytewise / random chunkings",
        "keepalive tokens: that handleData's PING / PONG clauses only answer / continue and are reached after the look-ahead window was "
        "put back is a translated shape fact (gen/SlicersGen.v keepalive_tokens_ignored, fail closed) plus the per-case runs (real bytes of "
        "sendPING / sendPONG spliced at token boundaries, real receiver under packings that glue them to their neighbours; Brokers whose "
        "keepalive timer fires under the virtual clock); the PONG replies themselves are not compared (not part of the property)",
        "the sender is a machine in the model (lib/SendHeap.v: slicer stack, scoped reference tables translated from ScopedSlicer, open "
        "counter) and is run on the harness's encoding of the sender's heap; not modelled there: Python's object lifetime (an object is "
        "its id for the whole scope: the translator requires the table entry to hold the object), the order in which dict / set "
        "children are produced (sorted keys with fallback / iteration order: taken from the real objects), getStateToCopy() (called again "
        "at every encounter of a pass-by-copy instance: a fresh node per encounter)",
    ]
    ok, log = ctx.coq_build(["props/C01.vo"])
    from harness import c01_impl as I
    before = len(ctx.failures)
    model_ok = ok
    if not ok:
        model_ok, _ = ctx.coq_build(["lib/ObjDefer.vo", "lib/ObjGuard.vo", "lib/SendHeap.vo", "lib/ObjChunks.vo", "lib/ObjKeepalive.vo"])

    del COUNTER_CASES[:]
    del REFUSED_CASES[:]
    del CRAFTED_OK[:]
    coq_cases = []      # (scoped, n, terms, vocab strings or None, bytes)
    ka_cases = []       # streams with keepalive tokens: (terms, vocab, bytes with the tokens, one packetisation)
    switch_cases = []   # (tbl0, n, terms1, tbl1, terms2, bytes)

    # ---- 1. corpus: regression witnesses (fixed defects must pass) and hand-written shapes
    for name, build, is_known in witnesses(I):
        g = build()
        roundtrip_case(ctx, I, name, [g], None, coq_cases, corpus=True)
    # tuples that complete late (cycle-bound) and are mentioned again afterwards, at every container position
    for name, g in late_tuple_graphs(I):
        roundtrip_case(ctx, I, name, [g], None, coq_cases, corpus=True)
    # Copyable type names of every length (fixed defect 4b8f259: storage refused names longer than 13 bytes)
    for name, g in long_name_graphs(I):
        roundtrip_case(ctx, I, name, [g], vocab_v1() if "deep" in name else None, coq_cases, corpus=True)

    # unusual-but-legal attribute names in a Copyable's state ("" / "0" / " " / opentype and vocabulary words / a copytype / long /
    # non-ASCII) x every value kind, alone and in containers / cycles (fixed witnesses; thorough: every name of I.ATTR_NAMES)
    for name, g in attrname_graphs(I, full=ctx.tier == "thorough"):
        roundtrip_case(ctx, I, name, [g], vocab_v1() if ("/nested" in name or "/bytes" in name) else None, coq_cases, corpus=True)

    # ---- 2. findings: deterministic witnesses of the known-defective region
    finding_witnesses(ctx, I)

    # ---- 2b. token streams no sender emits (written with the real token writers): immutables that wait for each other
    crafted_streams(ctx, I)

    # ---- 3. generated graphs through storage (scoped root), three chunkings, with / without a vocabulary
    rng = ctx.rng
    ngraphs = ctx.n(260, 1500)
    maxk = 1024 if ctx.tier == "thorough" else 128
    for i in range(ngraphs):
        size = rng.choice([1, 2, 3, 4, 6, 8, 12, 16, 24] if ctx.tier != "thorough" else [1, 2, 4, 8, 16, 32, 64, 100])
        g = I.gen_graph(rng, size, maxk)
        r_ = rng.random()
        voc = vocab_v1() if r_ < 0.3 else (random_words(rng) or None) if r_ < 0.45 else None
        roundtrip_case(ctx, I, "gen%d" % i, [g], voc, coq_cases)
    # integers around every boundary, one by one (cheap, exhaustive over the boundary list)
    ints = I.int_boundaries(1024 if ctx.tier == "thorough" else 256)   # quick: up to 2^2048 (+ the 2^8000 corpus witness); thorough: up to 2^8192
    for lo in range(0, len(ints), 40):
        roundtrip_case(ctx, I, "ints%d" % lo, [ints[lo:lo + 40]], None, coq_cases)
    roundtrip_case(ctx, I, "floats", [[I.float_of_bits(h) for h in I.FLOAT_BITS]], None, coq_cases)
    roundtrip_case(ctx, I, "texts", [list(I.TEXTS) + list(I.BYTESES)], vocab_v1(), coq_cases)
    roundtrip_case(ctx, I, "decimals", [[decimal.Decimal(s) for s in I.DECIMALS]], None, coq_cases)

    # ---- 3b. keepalive tokens inside the byte stream (fixed witnesses: every placement family x every packing)
    for gi, (gname, build, voc) in enumerate(keepalive_graphs(I)):
        for fi, family in enumerate(I.KA_FAMILIES):
            kinds = I.KA_KINDS[(gi + fi) % len(I.KA_KINDS):] + I.KA_KINDS[:(gi + fi) % len(I.KA_KINDS)]
            keepalive_case(ctx, I, "keepalive-%s/%s" % (gname, family), build(), voc, family, kinds, I.KA_CHUNKINGS, ka_cases)

    # ---- 4. vocabulary replaced in the middle of the stream
    for j, (name, objs, wls, initial) in enumerate(switch_family(I)):
        switch_case(ctx, I, name, switch_cases, objs, wls, initial, ka_family=I.KA_FAMILIES[j % len(I.KA_FAMILIES)])
    for i in range(ctx.n(40, 400)):
        switch_case(ctx, I, "switch%d" % i, switch_cases)
    # table words around the receiver's limit (ReplaceVocabUnslicer.valueConstraint = ByteStringConstraint(100))
    del WORDLEN_CASES[:]
    word_length_family(ctx, I)

    # ---- 5. calls over a Broker pair: sharing inside one call, never between two calls
    for i in range(ctx.n(25, 300)):
        pres = ()
        if rng.random() < 0.5:
            allp = rejected_preludes(I, rng)
            pres = tuple(rng.choice(allp) for _ in range(rng.choice([1, 1, 2, 3])))
        call_case(ctx, I, "call%d" % i, random_argsets(I, rng), coq_cases, vi=1 if rng.random() < 0.5 else None, preludes=pres,
                  ka=("ping", i % 9) if i % 3 == 2 else None)
    # fixed witnesses: every kind of rejected message, then calls with sharing / late tuples / computed copies
    followers = late_tuple_calls(I)[:3] + computed_copy_calls(I)[:2]
    for j, pre in enumerate(rejected_preludes(I)):
        nm, argsets = followers[j % len(followers)]
        call_case(ctx, I, nm, argsets, coq_cases, vi=None, chunk="one", preludes=(pre,))
        call_case(ctx, I, nm + "/bytewise", argsets, coq_cases, vi=1, chunk="bytewise", preludes=(pre, rejected_preludes(I)[(j + 5) % 11]))
    # Copyable classes registered AFTER the connection was made (lazily imported module): names longer than every name known at
    # connection time, and short ones; as arguments, inside containers, and echoed back in an answer
    for name, argsets in late_registration_calls(I):
        call_case(ctx, I, name, argsets, coq_cases, vi=None, chunk="one")
        call_case(ctx, I, name + "/bytewise", argsets, coq_cases, vi=1, chunk="bytewise")
    for name, argsets in same_object_calls(I) + late_tuple_calls(I) + computed_copy_calls(I) + long_name_calls(I) + attrname_calls(I):
        call_case(ctx, I, name, argsets, coq_cases, vi=None, chunk="one")
        call_case(ctx, I, name + "/bytewise", argsets, coq_cases, vi=1, chunk="bytewise")

    # keepalive tokens on a connection that carries calls (fixed witnesses): the caller's PING is written right before the
    # call (sendPING, or the keepalive timer of an idle connection), the callee's PONG sits right in front of the answer
    for name, argsets in keepalive_calls(I):
        for ka in (("ping", 0), ("ping", 77), "timer"):
            for chunk, vi in (("one", None), ("bytewise", 1), ("random", None)):
                call_case(ctx, I, "%s/%s/%s" % (name, ka if ka == "timer" else "ping%d" % ka[1], chunk), argsets, coq_cases, vi=vi,
                          chunk=chunk, ka=ka)

    # ---- 5b. keepalive tokens at random token boundaries of streams that were delivered above (no new serialization)
    pool = [c for c in coq_cases if c.get("objs") is not None]
    for i in range(min(len(pool), ctx.n(120, 1200))):
        c = pool[rng.randrange(len(pool))]
        fam = rng.choice(["random", "random", "random"] + I.KA_FAMILIES)
        kinds = [rng.choice(I.KA_KINDS) for _ in range(6)]
        hows = ["one", rng.choice(I.KA_CHUNKINGS)]
        keepalive_case(ctx, I, "keepalive-%s/%s" % (c["name"], fam), c["objs"], c["voc"], fam, kinds, hows,
                       ka_cases if i % 8 == 0 else None, stored=c)

    # ---- 5c. a container shared between the state of a pass-by-copy instance and another path, the instance sliced FIRST
    # (fixed witnesses: the instance is copied per occurrence, the lists / dicts / sets / tuples behind it keep their identity)
    for name, g in shared_through_copyable_graphs(I):
        roundtrip_case(ctx, I, name, [g], vocab_v1() if "nested" in name else None, coq_cases, corpus=True)
    for name, argsets in shared_through_copyable_calls(I):
        call_case(ctx, I, name, argsets, coq_cases, vi=None, chunk="one")
        call_case(ctx, I, name + "/bytewise", argsets, coq_cases, vi=1, chunk="bytewise")

    # ---- 5d. SEVERAL referrers of one immutable that is still pending (an open ancestor tuple, or a tuple closed while it waits for
    # one): every referrer kind that can take a Deferred (list slot / dict value / set member / tuple slot / frozenset member) adds a
    # callback to the SAME Deferred; each callback must hand the object on to the next (fixed witnesses: every kind as the FIRST
    # referrer followed by every kind; thorough: every ordered pair on its own, the same container twice, random sequences)
    for name, g in pending_referrer_graphs(I, full=ctx.tier == "thorough"):
        roundtrip_case(ctx, I, name, [g], vocab_v1() if "/in-list" in name else None, coq_cases, corpus=True)
    for name, argsets in pending_referrer_calls(I):
        call_case(ctx, I, name, argsets, coq_cases, vi=None, chunk="one")
        call_case(ctx, I, name + "/bytewise", argsets, coq_cases, vi=1, chunk="bytewise")
    for i in range(ctx.n(8, 400)):
        kinds = [rng.choice(REFERRER_KINDS) for _ in range(rng.choice([2, 2, 3, 4, 6]))]
        g = pending_referrer_graph(I, rng.choice(PENDING_TARGETS), kinds, rng.choice(PENDING_ROOTS), nest=[rng.randrange(3) for _ in kinds],
                                   cls=rng.choice(I.COPYABLES))
        roundtrip_case(ctx, I, "pending-random%d/%s" % (i, "+".join(kinds)), [g], vocab_v1() if rng.random() < 0.3 else None, coq_cases)

    # ---- 6. correspondence with the Coq model
    if model_ok:
        correspond(ctx, I, coq_cases + CRAFTED_OK, switch_cases, ka_cases)
    else:
        ctx.fail("correspondence-broken", "lib/Obj.v does not build against the regenerated gen/SlicersGen.v:\n" + tail(log),
                 replay=dict(log=tail(log, 6000)), has_input=False)
    if not ok and len(ctx.failures) == before:
        ctx.fail("proof-broken", "theorem closure props/C01.vo no longer builds: " + tail(log), replay=dict(log=tail(log, 6000)),
                 has_input=False)


# ---------------------------------------------------------------------------------------------------------
def witnesses(I):
    D = decimal.Decimal

    def self_list():
        l = []; l.append(l); return l

    def tuple_list_cycle():
        t = ([],); t[0].append(t); return t

    def aliasing():
        s = [1, 2]; return [s, s, (s,)]

    def dict_self():
        d = {}; d["self"] = d; return d

    def nested_tuple_cycle():
        outer = []; inner = ((outer,),); outer.append(inner); return outer

    def abl():
        L = []; A = (L,); B = (A,); L.append(B); return A

    def abl_wide():
        L = []; A = (L, 1); B = (0, A, 2); L.append(B); return A

    def abl_frozen():
        c = I.CA(); A = (c,); F = frozenset([A, 7]); c.x = [F, {F, 1}]; return A

    def abl_nested():
        L = []; A = (1, L); B = (A, A, 3); C = (B, 4); L.extend([C, B, {"k": C}]); return A

    def set_alias():
        s = set([1, (2, 3)]); return [s, s, frozenset([(2, 3)]), frozenset([(2, 3)])]

    def copy_in_cycle():
        c = I.CA(); L = [c]; c.x = L; c.y = "é"; return L

    def copy_twice():
        c = I.CB(); c.v = [1]; return [c, c]

    def frozen_twice():
        fs = frozenset([b"read", b"write"]); e = frozenset()
        return [fs, fs, {fs: [fs]}, (fs, {fs, 7}), e, [e], (e, e)]

    def frozen_twice_cycle():
        c = I.CA(); fs = frozenset([c, 1]); L = [fs]; c.x = [1]; L.append(L); L.append((fs, fs))
        return L

    def same_object_everywhere():
        # ONE object of every value kind at several places of one graph: whatever a slicer's trackReferences says, the value
        # and type must arrive at every place
        out = []
        for x in (frozenset([1, 2]), (1, 2), "text", b"bytes", 2 ** 70, -2 ** 70, 1.5, D("1.50"), True, None, frozenset(), ()):
            out.append([x, x, (x, [x]), {"a": x, "b": x}])
        return out

    return [
        ("frozenset-twice", frozen_twice, False), ("frozenset-twice-cycle", frozen_twice_cycle, False),
        ("same-object-everywhere", same_object_everywhere, False),
        ("D4-mixed-keys", lambda: {1: 2, "a": 3}, False),
        ("D4-mixed-keys-nested", lambda: [{(1, 2): "x", b"k": 1.5, None: None, "a": []}], False),
        ("self-list", self_list, False), ("tuple-list-cycle", tuple_list_cycle, False), ("aliasing", aliasing, False),
        ("dict-self", dict_self, False), ("nested-tuple-cycle", nested_tuple_cycle, False), ("A-B-L", abl, False), ("A-B-L-wide", abl_wide, False), ("A-B-L-frozen", abl_frozen, False),
        ("A-B-L-nested", abl_nested, False),
        ("set-alias", set_alias, False), ("copy-in-cycle", copy_in_cycle, False), ("copy-twice", copy_twice, False),
        ("int-boundaries", lambda: [2 ** 31 - 1, 2 ** 31, -2 ** 31, -2 ** 31 - 1, 2 ** 64, -(2 ** 64), 0, -1, 2 ** 448, 2 ** 8000], False),
        ("float-specials", lambda: [I.float_of_bits("7ff0000000000001"), -0.0, 0.0, float("inf")], False),
        ("leafs", lambda: [b"", "", None, True, False, "\U0001f600", b"\x00\xff", 1, 0, 1.0], False),
        ("decimals", lambda: [D("1.10"), D("-0"), D("NaN"), D("sNaN")], False),
        ("bool-vs-int-keys", lambda: {True: 1, 2: True, 0.5: False}, False),
        ("dict-decimal-nan-keys", lambda: {D("NaN"): 1, D("1"): 2}, False),
    ]


def late_tuples(I):
    """[(name, first, late)]: `first` is an object graph whose serialization contains the tuple `late`, which lies on a cycle
    through a mutable container and therefore can only be completed after its own CLOSE"""
    out = []
    L = []; t0 = (L, 5); t1 = (t0, 6); L.append(t1)
    out.append(("list-cycle", t0, t1))                       # t1 waits for t0
    L = []; t0 = (L,); t1 = (t0,); t2 = (7, t1); L.append(t2)
    out.append(("chain2", t0, t2))                           # t2 waits for t1 waits for t0
    L = []; t0 = (L,); t1 = (t0,); t2 = (7, t1); L.append(t2)
    out.append(("chain2-mid", t0, t1))
    d = {}; t0 = (d, 1); t1 = (2, t0, t0); d["x"] = [t1]
    out.append(("dict-cycle", t0, t1))
    c = I.CA(); t0 = (c,); t1 = (t0, 1); c.x = [t1]          # hashable variant (usable as key / set member)
    out.append(("hashable", t0, t1))
    c = I.CB(); t0 = (c, 3); t1 = (t0,); t2 = (t1, t0); c.y = {"k": [t2, t1]}
    out.append(("hashable-chain", t0, t2))
    s_ = set(); c = I.CA(); t0 = (c,); t1 = (1, t0); c.s = s_; s_.add(t1)
    out.append(("set-cycle", t0, t1))
    return out


def positions(I, late):
    """containers that mention an already-sent tuple again: every position a value can occupy"""
    out = [("list-item", [late]), ("twice", [late, late]), ("dict-value", {"k": late}), ("tuple-elem", (late, 5)),
           ("nested", ([late], {"a": (late,)}))]
    c = I.CB(); c.v = late
    out.append(("copy-attr", [c]))
    out.append(("computed-copy-state", [I.Basket([1, 2], late)]))
    if I.is_hashable(late):
        out += [("dict-key", {late: 1}), ("set-member", {late, 0}), ("frozenset-member", frozenset([late])),
                ("key-and-value", {late: late})]
    return out


def late_tuple_graphs(I):
    out = []
    for name, first, late in late_tuples(I):
        for pname, holder in positions(I, late):
            out.append(("late-%s/%s" % (name, pname), [first, holder]))
            out.append(("late-%s/%s/tuple-root" % (name, pname), (first, holder)))
        out.append(("late-%s/dict-root" % name, {"a": first, "b": late, "c": [late]}))
    return out


def late_tuple_calls(I):
    out = []
    for name, first, late in late_tuples(I):
        for pname, holder in positions(I, late):
            out.append(("call-late-%s/%s" % (name, pname), [((first, holder), {}), ((holder,), {"kw": first})]))
        out.append(("call-late-%s/args" % name, [((first, late, late), {"z": late}), ((late, first), {})]))
    return out


def computed_copy_calls(I):
    """several pass-by-copy objects with state computed at serialization time inside one call scope"""
    B, Pt = I.Basket, I.Point
    sets = [[3, 1, 2], [10, 30, 20], [7], [5, 6], [], [40, 41, 42, 43]]
    return [
        ("computed/list-of-baskets", [(([B(x) for x in sets],), {}), ((B([1]), B([2]), B([3])), {})]),
        ("computed/kwargs", [((), {"left": B([2, 1]), "right": B([9, 8]), "up": B([4])}), ((B([5]),), {"k": B([6])})]),
        ("computed/points", [(([Pt(1, 2), Pt(3, 4), Pt(5, 6)],), {}), ((Pt(0, 0), (Pt(1, 1), Pt(2, 2))), {"d": {"a": Pt(7, 8), "b": Pt(9, 9)}})]),
        ("computed/mixed", [(([B([1, 2]), [8, 9], Pt(1, 2), {"q": [1]}, B([3]), {5, 6}, Pt(3, 3), [0]],), {}),
                            ((B([1, 2], [1, 2]), B([1, 2], [1, 2])), {})]),
        ("computed/same-instance-twice", [((lambda b: (b, b, [b, b]))(B([1, 2, 3])), {}), ((lambda p: ([p, p], p))(Pt(4, 5)), {})]),
    ]


def late_registration_calls(I):
    def mk(longer, n):
        def build():
            classes = [I.late_copyable(longer) for _ in range(n)]
            objs = []
            for i, cls in enumerate(classes):
                o = cls(); o.v = [i, (i,)]; o.w = "late"
                objs.append(o)
            first = objs[0]
            return [((first, [first], {"k": (objs[-1],)}), {"kw": objs[-1]}), ((objs,), {})]
        return build
    return [("call-late-registered-copyable/longer-name", mk(True, 1)), ("call-late-registered-copyable/several-longer", mk(True, 3)),
            ("call-late-registered-copyable/short-name", mk(False, 2))]


def same_object_calls(I):
    """one object of an immutable kind at several places of ONE call (and again in the next call)"""
    D = decimal.Decimal
    out = []
    for nm, x in (("frozenset", frozenset([b"read", b"write"])), ("empty-frozenset", frozenset()), ("tuple", (1, (2,))), ("text", "text"),
                  ("decimal", D("2.50")), ("bigint", 2 ** 80)):
        out.append(("call-same-%s" % nm, [((x, [x, x], (x,)), {"kw": x, "d": {"k": [x]}}), ((x, x), {})]))
    return out


def long_name_graphs(I):
    """registered Copyables whose type names have assorted lengths (below / at / above the longest opentype string, up to
    and beyond the longest name foolscap registers itself), plain and computed, at every nesting depth"""
    out = []
    def plain(cls, v):
        c = cls(); c.v = v; return c
    makers = [("basket%d" % len(nm), (lambda nm: (lambda: I.Basket([1, 2], None, nm)))(nm)) for nm in I.BASKET_NAMES]
    makers += [(cls.__name__, (lambda cls: (lambda: plain(cls, [1])))(cls)) for cls in I.COPYABLES]
    for nm, mk in makers:
        out.append(("name-%s/in-list" % nm, [mk()]))
        out.append(("name-%s/deep" % nm, [[({"k": [mk()]},)], {"a": (mk(), [mk()])}]))
        out.append(("name-%s/set-and-key" % nm, [{mk()}, frozenset([mk()]), {mk(): 1}]))
        out.append(("name-%s/attr-of-copy" % nm, [plain(I.CA, mk()), plain(I.CD, [plain(I.CC, (mk(),))])]))
        out.append(("name-%s/computed-state" % nm, [I.Basket([3], mk(), I.BASKET_NAMES[-1])]))
    return out


def long_name_calls(I):
    out = []
    for nm in I.BASKET_NAMES:
        mk = (lambda nm: (lambda: I.Basket([4, 5], None, nm)))(nm)
        out.append(("call-name%d" % len(nm), [((mk(), [mk()], {"d": (mk(),)}), {"kw": mk()}), (([[mk()]],), {})]))
    def plain(cls, v):
        c = cls(); c.v = v; return c
    out.append(("call-plain-names", [(tuple(plain(cls, [i]) for i, cls in enumerate(I.COPYABLES)), {"k": [plain(I.CD, plain(I.CC, 1))]}),
                                     ((plain(I.CD, [plain(I.CD, ())]),), {})]))
    return out


PENDING_SIG = "several-referrers-of-one-pending-immutable/"      # one Deferred, several update callbacks: a later referrer lost the object
REFERRER_KINDS = ("list", "dict-value", "set", "tuple", "frozenset")      # the positions that accept a not-yet-complete immutable
PENDING_TARGETS = ("open-tuple", "closed-pending-tuple", "closed-pending-frozenset")
PENDING_ROOTS = ("tuple-root", "in-list", "in-dict")


def _referrer(kind, target, tag, nest=0):
    """a fresh container of `kind` that mentions `target` (nest: wrapped in that many lists, so that the mention sits deeper)"""
    if kind == "list":
        r = [tag, target]
    elif kind == "dict-value":
        r = {"k": target, "tag": tag}
    elif kind == "set":
        r = {target}
    elif kind == "tuple":
        r = (target, tag)
    else:
        r = frozenset([target])
    for _ in range(nest):
        r = [r]
    return r


def pending_referrer_graph(I, target, kinds, root, nest=None, cls=None):
    """T = (c, 0) with c a registered Copyable whose attribute `refs` is a LIST of containers (one per entry of `kinds`, in that
    order) that all mention the same immutable X while X is still pending on the receiving side:
      open-tuple: X = T itself (open while its descendants arrive);
      closed-pending-tuple / -frozenset: X = (T, 9) / frozenset([T]), sliced inline at its first mention (closed, waiting for T)
      and referenced (tuple) or sliced again (frozenset: not reference-tracked) by the later ones.
    The cycle goes through a Copyable so that X is hashable and can be a set / frozenset member too."""
    c = (cls or I.CA)()
    T = (c, 0)
    X = T if target == "open-tuple" else (T, 9) if target == "closed-pending-tuple" else frozenset([T])
    nest = nest or [0] * len(kinds)
    c.refs = [_referrer(k, X, 100 + i, nest[i]) for i, k in enumerate(kinds)]
    c.tail = "end"
    if root == "in-list":
        return [T, 1]
    if root == "in-dict":
        return {"t": T}
    return T


def pending_referrer_graphs(I, full=False):
    out = []
    for ti, target in enumerate(PENDING_TARGETS):
        for ki, first in enumerate(REFERRER_KINDS):
            # `first` registers its callback first; after it one referrer of every kind (rotated, so each ordered pair also occurs adjacent)
            rest = list(REFERRER_KINDS[ki:] + REFERRER_KINDS[:ki])
            root = PENDING_ROOTS[(ti + ki) % len(PENDING_ROOTS)]
            out.append(("pending-%s/%s-then-all/%s" % (target, first, root), pending_referrer_graph(I, target, [first] + rest, root)))
    if full:
        for target in PENDING_TARGETS:
            for ri, root in enumerate(PENDING_ROOTS):
                for a in REFERRER_KINDS:
                    for b in REFERRER_KINDS:
                        out.append(("pending-%s/%s-then-%s/%s" % (target, a, b, root),
                                    pending_referrer_graph(I, target, [a, b], root, nest=[ri % 2, (ri + 1) % 2], cls=I.COPYABLES[ri])))
    # the same container mentions it twice (or three times); a list root instead of the Copyable (no set possible: unhashable)
    for target in PENDING_TARGETS[:2] if not full else PENDING_TARGETS:
        c = I.CB(); T = (c, 0)
        X = T if target == "open-tuple" else (T, 9) if target == "closed-pending-tuple" else frozenset([T])
        c.refs = [[X, X], {"a": X, "b": X, "c": X}, (X, X), [X]]
        out.append(("pending-%s/same-container-twice" % target, T))
    L = []; T = (L, 0); L.extend([[T, T], {"a": T, "b": T}, (T, 1), (T, T), [T]])
    out.append(("pending-open-tuple/list-cycle/same-container-twice", T))
    L = []; T = (L, 0); U = (T, 9); L.extend([[U, U], {"a": U, "b": U}, (U, 1), [U]])
    out.append(("pending-closed-pending-tuple/list-cycle/same-container-twice", T))
    return out


def pending_referrer_calls(I):
    """the same inside a call scope (the open tuple cannot be an argument itself: a Deferred child of the arguments scope is refused)"""
    out = []
    for ki, first in enumerate(REFERRER_KINDS):
        rest = list(REFERRER_KINDS[ki:] + REFERRER_KINDS[:ki])
        g1 = pending_referrer_graph(I, PENDING_TARGETS[ki % 3], [first] + rest, "in-list")
        g2 = pending_referrer_graph(I, PENDING_TARGETS[(ki + 1) % 3], [first] + rest[::-1], "in-dict")
        out.append(("call-pending/%s-first" % first, [((g1, 7), {"kw": g2}), ((g2,), {})]))
    return out


def sig_for_failure(kind, text, hazards):
    """stable signature for a failed round trip"""
    if kind == "send":
        if "InvalidOperation" in text:
            return "oracle/send-failed/dict-keys-sort-raises"
        if "UnicodeEncodeError" in text:
            return "oracle/send-failed/lone-surrogate-text"
        return "oracle/not-delivered"
    if "STRING token is too long" in text:
        return "oracle/receive-failed/long-copyable-name"
    if "copy-attr" in hazards and "AssertionError" in text:
        return "oracle/receive-failed/incomplete-tuple-into-copyable"
    if "dict-key" in hazards and "incomplete object as dictionary key" in text:
        return "oracle/receive-failed/incomplete-tuple-as-dict-key"
    return "oracle/receive-failed"


def roundtrip_case(ctx, I, name, objs, voc, coq_cases, corpus=False):
    """objs: top-level objects sent one after the other through one storage Banana (scoped root)"""
    I.KEEP.clear()
    try:
        terms, nend = I.canon_list_py(objs, 0, True)
    except I.Unsupported as e:
        ctx.hist("outcome", "no-finite-canonical-form")
        return
    except RecursionError:
        ctx.hist("outcome", "too-deep")
        return
    hazards = I.deferred_hazards(terms, 0)
    nodes = sum(I.term_size(t) for t in terms)
    st = I.term_stats(("cont", "list", b"", terms))
    nontrivial = any(t[0] == "cont" for t in terms)
    key = [I.term_coq(t) for t in terms]
    ctx.case(dict(t=key, v=bool(voc)), nontrivial=nontrivial)
    ctx.hist("nodes", min(nodes // 10 * 10, 200))
    ctx.hist("refs", min(st["refs"], 10))
    ctx.hist("self_or_ancestor_refs", min(st["selfrefs"], 5))
    for k in st["kinds"]:
        ctx.hist("kinds", k)
    if len(ctx.samples) < 6 and 4 < nodes < 25 and st["refs"]:
        ctx.sample(dict(name=name, term=" ; ".join(key)[:600], vocab=bool(voc)))
    b = I.new_sender(voc)
    for o in objs:
        err = I.send_obj(b, o)
        if err:
            ctx.hist("outcome", "send-failed")
            ctx.fail(sig_for_failure("send", err, hazards), "object graph could not be serialized: %s; graph (canonical term): %s"
                     % (err, " ; ".join(key)[:700]), replay=dict(case=name, term=key, error=err, python=repr(objs)[:2000]))
            return
    data = bytes(b.transport.out)
    ok_all = True
    for how in ("one", "bytewise", "random"):
        if how == "bytewise" and len(data) > 6000:
            continue
        cuts = I.chunkings(ctx.rng, len(data), how)
        r = I.receive(data, cuts, voc)
        ctx.traces += 1
        if r[0] != "ok":
            ok_all = False
            if how == "one" and len(data) <= 3000:
                REFUSED_CASES.append(dict(name=name, terms=terms, voc=voc, data=data, how=r[0]))
            ctx.hist("outcome", "receive-failed" + ("(hazard)" if hazards else ""))
            ctx.fail(sig_for_failure("recv", r[1], hazards), "serialized graph could not be unserialized (%s, chunking %s): %s; graph: %s"
                     % (r[0], how, r[1], " ; ".join(key)[:700]),
                     replay=dict(case=name, term=key, chunking=how, cuts=cuts[:50], error=r[1], data=data.hex()[:4000]))
            break
        got = r[1]
        # direct oracle: isomorphism sent ~ received
        d = I.oracle_iso(objs, got)
        if d:
            ok_all = False
            ctx.fail("oracle/" + (PENDING_SIG + oracle_sig(d) if name.startswith("pending-") else oracle_sig(d, I, terms)),
                     "round trip changed the graph (chunking %s): %s; graph: %s" % (how, d, " ; ".join(key)[:700]),
                     replay=dict(case=name, term=key, chunking=how, cuts=cuts[:50], difference=d, data=data.hex()[:4000]))
            break
        # no object of the received graph is an object of the sent graph (a copy, not the original)
        # correspondence (receiver side): the received graph is the graph the canonical term denotes
        try:
            I.match_all(terms, got, 0)
        except I.Mismatch as m:
            ok_all = False
            ctx.fail("correspondence/receiver-graph", "received graph is not the graph denoted by the canonical term (chunking %s): %s; term: %s"
                     % (how, m, " ; ".join(key)[:700]), replay=dict(case=name, term=key, chunking=how, mismatch=str(m)), has_input=False)
            break
    if ok_all:
        ctx.hist("outcome", "delivered")
        coq_cases.append(dict(name=name, scoped=True, n=0, terms=terms, voc=voc, data=data, hazard=bool(hazards), heap=heap_of_case(I, objs, data),
                              objs=objs if len(data) <= 3000 and not hazards else None))


def heap_of_case(I, objs, data, limit=4000):
    """the sender's heap for the model's sender machine (SendHeap.v); None for large cases (their terms are still checked)"""
    if len(data) > limit:
        return None
    try:
        return I.heap_coq(*I.heap_py(objs))
    except (I.Unsupported, RecursionError):
        return None


def oracle_sig(d, I=None, terms=None, n=0):
    if I is not None and I.tuple_ref_after_dict_value_ref(terms, n):
        return "graph-changed/tuple-ref-after-dict-value-ref"
    if d.startswith("aliasing lost"):
        return "aliasing-lost"
    if d.startswith("aliasing invented"):
        return "aliasing-invented"
    if d.startswith("type "):
        return "type-changed"
    if "value changed" in d or "float bits" in d or "Decimal" in d:
        return "value-changed"
    return "graph-changed"


def shared_through_copyable_graphs(I):
    def box(cls=None, **kw):
        c = (cls or I.CA)()
        c.__dict__.update(kw)
        return c
    out = []
    for kname, mk in (("list", lambda: [1, 2]), ("dict", lambda: {"k": 1}), ("set", lambda: {3}), ("tuple", lambda: (1, [2]))):
        x = mk()
        out.append(("copy-first-then-%s" % kname, [box(x=x), x]))
        x = mk()
        out.append(("copy-first-then-%s/tuple-root" % kname, (box(I.CD, x=x), [x], x)))
        x = mk()
        b = box(I.CB, x=x)
        out.append(("same-copy-twice-then-%s" % kname, [b, b, x]))
        x = mk()
        out.append(("copy-in-copy-then-%s" % kname, [box(y=box(I.CC, x=x), z=x), x]))
    d, s_, l = {"k": 1}, {3}, [b"payload"]
    out.append(("copy-first-nested", {"a": [box(d=d, s=s_, l=l)], "d": d, "l": l, "s": s_}))
    l = []
    b = box(x=l); l.append(b)
    out.append(("copy-first-cycle", [b, l]))
    return out


def _attr_values(I):
    """one value of every token kind / container kind (fresh objects on every call)"""
    D = decimal.Decimal
    inner = I.CB(); inner.__dict__.update({"": 1, "v": [2]})
    shared = [b"shared"]
    return [("int", 7), ("zero", 0), ("neg", -3), ("longint", 2 ** 70), ("longneg", -(2 ** 70)), ("float", 1.5), ("bytes", b"default"),
            ("empty-bytes", b""), ("vocab-bytes", b"list"), ("text", "z"), ("empty-text", ""), ("true", True), ("false", False),
            ("none", None), ("decimal", D("1.10")), ("list", [1, [2]]), ("empty-list", []), ("tuple", (1, (2,))), ("dict", {"": 1, "k": ""}),
            ("set", {4, 5}), ("frozenset", frozenset([6])), ("copy", inner), ("shared-twice", [shared, shared])]


def _with_state(cls, pairs):
    c = cls()
    for k, v in pairs:
        c.__dict__[k] = v
    return c


def attrname_graphs(I, full=False):
    """registered Copyables whose state dictionary has unusual-but-legal attribute names (I.ATTR_NAMES: "", "0", " ", opentype /
    vocabulary words, a copytype, long, non-ASCII ...) x a value of every token kind, the unusual name FIRST / in the MIDDLE / LAST
    in the state, alone and inside containers / cycles.  The rule is the property's: arrives equal in value and type."""
    out = []
    # the fixed witnesses of the empty name: an int, a byte string, a text (first, with pairs behind it that would shift)
    out.append(("attrname-empty/int", [_with_state(I.CA, [("", 7)])]))
    out.append(("attrname-empty/bytes", [_with_state(I.CA, [("", b"x")])]))
    out.append(("attrname-empty/text", [_with_state(I.CB, [("", "s")])]))
    out.append(("attrname-empty/int-then-more", [_with_state(I.CA, [("", 7), ("zeta", "z")])]))
    out.append(("attrname-empty/bytes-then-more", [_with_state(I.CC, [("a", b""), ("", b"x"), ("b", 2.5), ("c", b"c")])]))
    out.append(("attrname-empty/last", [_with_state(I.CD, [("alpha", 1), ("beta", [1, 2]), ("", b"default")])]))
    names = I.ATTR_NAMES if full else I.ATTR_NAMES[:8] + I.ATTR_NAMES[21:24:2] + I.ATTR_NAMES[26:34:2] + I.ATTR_NAMES[34:35]
    for ni, nm in enumerate(names):
        tag = "attrname-%d(%s)" % (ni, ascii(nm)[1:13])
        # every value kind under that name: first / middle / last key of the state
        cs = []
        for vi, (vk, v) in enumerate(_attr_values(I)):
            pairs = [("before", vi), (nm, v), ("after", b"after")]
            pairs = [pairs[(j + vi) % 3] for j in range(3)] if vi % 3 else pairs
            cs.append(_with_state(I.COPYABLES[(ni + vi) % 4], pairs))
        out.append((tag + "/every-value-kind", cs))
        # nested: in a cycle through its own state, as set member / dict key / tuple slot / attribute of another instance
        c = _with_state(I.COPYABLES[ni % 4], [(nm, None), ("tail", 1)])
        L = [c]; c.__dict__[nm] = L
        t = (_with_state(I.CB, [(nm, nm)]), L)
        o = _with_state(I.CD, [("o", 0), (nm, _with_state(I.CA, [(nm, t)]))])
        out.append((tag + "/nested", [L, {c}, {c: [c]}, t, o, {"k": (o, t)}]))
    # several unusual names in ONE state (with "" at every position)
    several = ["", "0", " ", "list", "é", "x" * 128]
    for r in range(len(several) if full else 3):
        rot = several[r:] + several[:r]
        out.append(("attrname-several/rot%d" % r, [_with_state(I.CA, [(nm, [i, nm.encode("utf-8")][i % 2]) for i, nm in enumerate(rot)]),
                                                    _with_state(I.CB, [(nm, [nm]) for nm in rot[::-1]])]))
    if full:
        out.append(("attrname-very-long", [_with_state(I.CA, [("L" * 5000, 1), ("", 2)])]))
    return out


def attrname_calls(I):
    def S(cls, *pairs):
        return _with_state(cls, pairs)
    l = [1]
    return [
        ("call-attrname-empty", [((S(I.CA, ("", 7)), [S(I.CB, ("", b"x"), ("n", 1))]), {"kw": S(I.CC, ("a", 1), ("", "s"))}),
                                 ((), {"k": (S(I.CD, ("", l), ("l", l)), l)})]),
        ("call-attrname-unusual", [(tuple(S(I.COPYABLES[i % 4], (nm, i), ("", nm), ("z", [nm.encode("utf-8")]))
                                          for i, nm in enumerate(["0", " ", "list", "verif.c01.A", "é", "x" * 128, "\x00"])), {}),
                                   (([S(I.CA, ("", None))],), {})]),
    ]


def shared_through_copyable_calls(I):
    def box(cls=None, **kw):
        c = (cls or I.CA)()
        c.__dict__.update(kw)
        return c
    l1, l2, s_, d, t = [1, 2, 3], [4], {b"m"}, {"k": [5]}, (6, [7])
    b = box(I.CB, x=l2)
    return [
        ("call-copy-first-then-shared", [((box(x=l1), l1), {}), ((), {"first": box(members=s_), "second": s_})]),
        ("call-copy-first-then-shared/mixed", [((b, b, l2, [box(I.CD, d=d, t=t)], d), {"t": t}), (([box(x=l1)], (l1,)), {"z": {"k": l1}})]),
    ]


def keepalive_graphs(I):
    """[(name, builder of the list of top-level objects, vocabulary)]: shorter than the receiver's 65-byte look-ahead, longer
    than it, with bodies longer than it, several top-level objects, deferred (late) tuples, Copyables, a vocabulary"""
    D = decimal.Decimal

    def shared(k=0):
        s = [1 + k, 2.5, b"bytes", "text \u1234", None, True]
        t = (s, -2 ** 31, 2 ** 64, D("1.50"))
        c = I.CA(); c.x = [s, t]; c.y = "attr"
        return {b"a": s, b"t": t, b"s": {1, 2, 3}, b"f": frozenset([b"x"]), b"l": [s, t], b"c": c}

    def small():
        return [[1, [2]]]

    def two():
        a = shared(1)
        return [a, [a, shared(2)], [7]]

    def late():
        L = []; t0 = (L, 5); t1 = (t0, 6); L.append(t1)
        return [[t0, [t1, t1], {"k": t1}]]

    def bodies():
        return [[b"z" * 1000, "x" * 300, 2 ** 800, -(2 ** 520), 1.5, b"a" * 64, b"b" * 65, b"c" * 63, [b""], ""]]

    return [("small", small, None), ("shared", lambda: [shared()], None), ("shared-vocab", lambda: [shared()], vocab_v1()),
            ("several-objects", two, None), ("late-tuple", late, None), ("long-bodies", bodies, None)]


def keepalive_calls(I):
    def shared(k):
        s = [k, [k + 1], "text"]
        c = I.CB(); c.v = [s, (s,)]
        return s, c
    s1, c1 = shared(1)
    s2, c2 = shared(5)
    return [
        ("call-keepalive/shared", [((s1, [s1, (s1,)], c1), {"kw": s1, "d": {"k": [s1]}}), ((s2, c2), {"z": (s2, s2)})]),
        ("call-keepalive/computed", [(([I.Basket([3, 1, 2]), I.Point(1, 2)],), {"left": I.Basket([9])}), ((I.Basket([5], s1), s1), {})]),
    ]


def keepalive_case(ctx, I, name, objs, voc, family, kinds, hows, ka_cases=None, stored=None):
    """objs go through one storage Banana; keepalive tokens (bytes of the real sendPING / sendPONG) are spliced into the
    serialized stream at the token boundaries of the placement `family` (the kinds in rotation); the stream is received under
    every packing of `hows`.  Oracle: the graph that arrives is the graph that was sent -- keepalive tokens are not part of any
    object -- for every packing."""
    rng = ctx.rng
    I.KEEP.clear()
    if stored is not None:
        terms, data = stored["terms"], stored["data"]
        ends = [len(data)]
    else:
        try:
            terms, _ = I.canon_list_py(objs, 0, True)
        except (I.Unsupported, RecursionError):
            return
        if I.deferred_hazards(terms, 0):
            return
        b = I.new_sender(voc)
        ends = []
        for o in objs:
            if I.send_obj(b, o):
                return          # what cannot be sent is roundtrip_case's business
            ends.append(len(b.transport.out))
        data = bytes(b.transport.out)
    places = I.ka_places(rng, data, ends, family)
    if not places:
        return
    used = [kinds[i % len(kinds)] for i in range(len(places))]
    stream, spans = I.ka_splice(data, [(off, I.ka_token(*k)) for off, k in zip(places, used)])
    key = [I.term_coq(t) for t in terms]
    kdesc = ["%s(%d)@%d" % (k[0].upper(), k[1], off) for off, k in zip(places, used)]
    ctx.case(dict(ka=kdesc[:60], t=key, v=bool(voc)), nontrivial=True)
    ctx.hist("keepalive_placement", family)
    last_cuts = []
    for how in hows:
        if how == "bytewise" and len(stream) > 6000:
            continue
        cuts = I.ka_chunkings(rng, len(stream), spans, how)
        r = I.receive(stream, cuts, voc, written=bytearray())
        ctx.traces += 1
        ctx.hist("keepalive_packing", how)
        what = ("keepalive tokens %s spliced into the %d-byte serialization at token boundaries (placement %s; offsets are those of "
                "the stream without them), packets cut at %s (%s)" % (", ".join(kdesc[:12]), len(data), family, cuts[:24], how))
        replay = dict(case=name, term=key, placement=family, keepalives=kdesc[:60], chunking=how, cuts=cuts[:60],
                      data=stream.hex()[:4000], python=repr(objs)[:1500])
        if r[0] != "ok":
            ctx.fail("oracle/keepalive/receive-failed", "a graph that is delivered without keepalive tokens in the stream is not delivered "
                     "with them (%s: %s): %s; graph: %s" % (r[0], r[1], what, " ; ".join(key)[:500]), replay=replay)
            return
        d = I.oracle_iso(objs, r[1])
        if d:
            ctx.fail("oracle/keepalive/" + oracle_sig(d), "keepalive tokens in the stream changed the graph that arrives: %s; %s; graph: %s"
                     % (d, what, " ; ".join(key)[:500]), replay=replay)
            return
        if how.startswith("glued") or not last_cuts:
            last_cuts = cuts
    ctx.hist("outcome", "delivered-with-keepalive-tokens")
    if ka_cases is not None and len(stream) <= 1000:
        ka_cases.append(dict(name=name, terms=terms, voc=voc, data=stream, cuts=last_cuts))


def finding_witnesses(ctx, I):
    D = decimal.Decimal

    def w1():
        return {D("NaN"): 1, D("1"): 2}

    def w2():
        return ["\ud800"]

    def w3():
        c = I.CA(); K = (c,); c.x = K; return K

    def w4():
        c = I.CA(); K = (c,); c.d = {K: 1}; return K

    # fixed defect: text without a UTF-8 form is refused for that object only (Violation), the stream stays usable
    b = I.new_sender()
    err = I.send_obj(b, w2())
    ctx.case(dict(w="lone-surrogate"), nontrivial=True)
    err2 = I.send_obj(b, ["after"])
    r = I.receive(bytes(b.transport.out), [], tolerate_abort=True)
    if not (err and "Violation" in err) or err2 or r[0] != "ok" or r[1] != [["after"]]:
        ctx.fail("oracle/send-failed/lone-surrogate-text", "text with a lone surrogate is not refused cleanly: first send: %s, next send: %s, "
                 "receiver: %r" % (err, err2, r), replay=dict(python='["\\ud800"] then ["after"]', first=err, second=err2, received=repr(r)[:300]))
    def w5():
        L = []; d = {}; T = (d, L); d["k"] = T; L.append(T); return T

    # review 2: the value that reaches the Copyable attribute / dict key is a Deferred TRANSITIVELY (an inline tuple that holds a
    # reference to the open tuple; a reference to a tuple that is closed and still pending): same known findings
    def w6():
        c = I.CA(); T = (c,); c.x = (T,); return T

    def w7():
        c = I.CA(); L = []; A = (L,); B = (A,); c.x = B; L.extend([B, c]); return A

    def w8():
        c = I.CA(); T = (c,); c.d = {(T,): 1}; return T

    def w9():
        c = I.CA(); T = (c,); c.x = frozenset([T]); return T

    for name, build in (("tuple-copyable-tuple", w3), ("tuple-copyable-dictkey", w4), ("tuple-dictvalue-then-list", w5),
                        ("tuple-copyable-inline-tuple", w6), ("list-pending-tuple-copyable", w7), ("tuple-copyable-dictkey-inline", w8),
                        ("tuple-copyable-inline-frozenset", w9)):
        g = build()
        try:
            terms, _ = I.canon_list_py([g], 0, True)
            key = [I.term_coq(t) for t in terms]
            hazards = I.deferred_hazards(terms, 0)
        except (I.Unsupported, UnicodeEncodeError):
            terms, key, hazards = None, [repr(g)], set()
        ctx.case(dict(w=name), nontrivial=True)
        b = I.new_sender()
        err = I.send_obj(b, g)
        if err:
            ctx.fail(sig_for_failure("send", err, hazards), "object graph could not be serialized: %s; graph: %s" % (err, repr(g)[:200]),
                     replay=dict(case=name, error=err, python=repr(g)[:500]))
            continue
        data = bytes(b.transport.out)
        r = I.receive(data, [])
        if r[0] != "ok" and terms is not None:
            REFUSED_CASES.append(dict(name=name, terms=terms, voc=None, data=data, how=r[0]))
        if r[0] != "ok":
            ctx.fail(sig_for_failure("recv", r[1], hazards), "serialized graph could not be unserialized (%s): %s; graph: %s"
                     % (r[0], r[1], " ; ".join(key)[:300]), replay=dict(case=name, term=key, error=r[1], data=data.hex()))
            continue
        d = I.oracle_iso([g], r[1])
        if d:
            ctx.fail("oracle/" + oracle_sig(d, I, terms), "round trip changed the graph: %s; graph %s: %s" % (d, name, " ; ".join(key)[:300]),
                     replay=dict(case=name, term=key, python='L=[]; d={}; T=(d,L); d["k"]=T; L.append(T)' if name.startswith("tuple-dictvalue") else name))


CRAFTED = [
    # (name, canonical term): tuples that directly hold each other / themselves -- no Python object graph has these, a peer can send them
    ("wait-cycle", ("cont", "tuple", b"", [("cont", "list", b"", [("cont", "tuple", b"", [("ref", 0)])]), ("ref", 2)])),
    ("self-tuple", ("cont", "list", b"", [("cont", "tuple", b"", [("ref", 1)])])),
    ("late-chain", ("cont", "tuple", b"", [("cont", "list", b"", [("cont", "tuple", b"", [("cont", "list", b"", [("cont", "tuple", b"", [("ref", 0)])]), ("ref", 4)])])])),
]


NM_A = b"verif.c01.A"


def small_terms(rng, count):
    """random terms of the grammar of ObjGuardProofs.small_family and a bit beyond (three children, sets, depth 4): containers
    list / tuple / frozenset / set / dict / Copyable, leaves an int or a reference to ANY earlier OPEN number (open ancestor,
    closed container, closed-and-pending tuple).  Most are graphs no Python program builds; a peer can send every one.
    Kept apart from what the model does not speak about (Python's hash / ==): ints are all different, a set / frozenset / dict has
    at most one member / key that is not an int, and that one is hashable."""
    out = []
    fresh = [100]

    def leaf_int():
        fresh[0] += 1
        return ("int", fresh[0])

    def gen(n, depth):
        """-> (term, next n)"""
        r = rng.random()
        if depth == 0 or r < 0.25:
            if n > 0 and rng.random() < 0.75:
                return ("ref", rng.randrange(n)), n + 1
            return leaf_int(), n
        kind = rng.choice(["list", "tuple", "tuple", "frozen", "dict", "copy", "copy", "set"])
        n0, n = n, n + 1
        kids = []
        if kind == "dict":
            special = rng.random() < 0.5
            for j in range(rng.choice([1, 1, 2])):
                if special and j == 0:
                    k, n = gen(n, depth - 1); kids.append(k)
                else:
                    kids.append(leaf_int())
                v, n = gen(n, depth - 1); kids.append(v)
        elif kind == "copy":
            for a in sorted(rng.sample([b"x", b"y"], rng.choice([1, 1, 2]))):
                kids.append(("bytes", a))
                v, n = gen(n, depth - 1); kids.append(v)
        elif kind in ("set", "frozen"):
            where = rng.randrange(3)
            for j in range(rng.choice([1, 2, 3])):
                if j == where or j == 0 and where > 2:
                    v, n = gen(n, depth - 1); kids.append(v)
                else:
                    kids.append(leaf_int())
        else:
            for _ in range(rng.choice([1, 1, 2, 3])):
                v, n = gen(n, depth - 1); kids.append(v)
        return ("cont", kind, NM_A if kind == "copy" else b"", kids), n

    def hashable_ok(t):
        kinds, kidsof = {}, {}

        def number(t, n):
            if t[0] in ("int", "float", "bytes"):
                return n
            if t[0] != "cont":
                return n + 1
            me = n
            kinds[me] = t[1]
            n += 1
            ks = []
            for c in t[3]:
                ks.append(n if c[0] == "cont" else (c[1] if c[0] == "ref" else None))
                n = number(c, n)
            kidsof[me] = ks
            return n
        number(t, 0)
        H = {k: kinds[k] in ("tuple", "frozen", "copy") for k in kinds}
        changed = True
        while changed:
            changed = False
            for k in kinds:
                if H[k] and kinds[k] in ("tuple", "frozen") and any(c is not None and not H.get(c, False) for c in kidsof[k]):
                    H[k] = False
                    changed = True
        for k in kinds:
            pos = kidsof[k] if kinds[k] in ("set", "frozen") else kidsof[k][0::2] if kinds[k] == "dict" else []
            if any(c is not None and not H.get(c, False) for c in pos):
                return False
        return True
    while len(out) < count:
        t, _ = gen(0, rng.choice([2, 3, 3, 4]))
        if t[0] == "cont" and t[1] != "copy" and hashable_ok(t):          # storage's root refuses a top-level Copyable
            out.append(("small%d" % len(out), t))
    return out


def crafted_streams(ctx, I):
    """write the token stream of a canonical term with the real low-level writers (sendOpen / sendToken / sendClose), feed
    it to the real receiver; the Deferred-level model must end the same way (delivered the denoted graph / not delivered),
    and the guard of the delivery theorems (ObjGuard.wf_list_t) must hold on what was delivered and fail on what was not"""
    for name, term in CRAFTED + small_terms(ctx.rng, ctx.n(220, 2500)):
        b = I.new_sender()
        I.write_term(b, term)
        data = bytes(b.transport.out)
        r = I.receive(data, [])
        ctx.case(dict(crafted=I.term_coq(term)), nontrivial=True)
        ctx.traces += 1
        if r[0] == "ok":
            try:
                I.match_all([term], r[1], 0)
            except I.Mismatch as m:
                # no sender emits this stream; a placeholder was left inside the delivered object: "not delivered" for the model
                REFUSED_CASES.append(dict(name="crafted-" + name, terms=[term], voc=None, data=data, how="placeholder-left"))
                ctx.hist("outcome", "crafted:placeholder-left")
                continue
            CRAFTED_OK.append(dict(name="crafted-" + name, scoped=True, n=0, terms=[term], voc=None, data=data, hazard=False, crafted=True))
        else:
            REFUSED_CASES.append(dict(name="crafted-" + name, terms=[term], voc=None, data=data, how=r[0]))
        ctx.hist("outcome", "crafted:" + r[0])


CRAFTED_OK = []

VOCAB_POOL = [b"list", b"tuple", b"dict", b"unicode", b"reference", b"boolean", b"none", b"set", b"immutable-set", b"copyable",
              b"decimal", b"verif.c01.A", b"x", b"y", b"a", b"", b"set-vocab", b"items", b"count", b"v"]


def table_of(words):
    """what Banana.setOutgoingVocabulary / populateVocabTable make of a word list: dict(zip(words, range(len(words)))) -- a word
    mentioned twice keeps its LAST position and leaves the earlier index unused; returned as (word, index) sorted by index"""
    d = dict(zip(words, range(len(words))))
    return sorted(d.items(), key=lambda kv: kv[1])


def random_words(rng):
    """arbitrary word lists: duplicates (gaps in the index range), empty, one word many times"""
    k = rng.choice([0, 1, 2, 3, 5, 8, 12])
    r = rng.random()
    if r < 0.2:
        ws = list(VOCAB_POOL)
        rng.shuffle(ws)
        return ws[:k]
    if r < 0.3 and k:
        return [rng.choice(VOCAB_POOL)] * k
    small = [rng.choice(VOCAB_POOL) for _ in range(max(1, k // 2))]
    return [rng.choice(small) for _ in range(k)]


WORD_LISTS = [
    [b"list", b"dict", b"tuple", b"list", b"set"],            # index 0 unused
    [b"list", b"list"], [b"list", b"list", b"list", b"dict"],   # leading gaps
    [b"dict", b"list", b"tuple", b"list"],                     # gap in the middle
    [b"x", b"list", b"dict", b"x", b"unicode", b"dict", b"copyable", b"verif.c01.A", b"x"],
    [], [b""], [b"", b"list", b""], [b"set-vocab", b"list", b"set-vocab"],
    [b"tuple", b"reference", b"list", b"dict", b"set", b"immutable-set", b"unicode", b"none", b"boolean", b"copyable", b"decimal"],
]


def switch_family(I):
    """fixed witnesses: every word list above installed between graphs that use the words"""
    out = []

    def graph(k):
        s = [k, "x"]
        c = I.CA(); c.x = [b"x", "list"]; c.v = (s, s)
        return [s, {"a": s, "x": (1, [s]), b"list": {2, 3}}, (s, "list", b"dict", None, True), c, frozenset([k])]
    for i, w in enumerate(WORD_LISTS):
        out.append(("words%d" % i, [graph(1), graph(2)], [w], None))
        out.append(("words%d-after-v1" % i, [graph(1), graph(2), graph(3)], [w, WORD_LISTS[(i + 3) % len(WORD_LISTS)]], "v1"))
        out.append(("words%d-initial" % i, [graph(1), graph(2)], [[b"dict", b"list"]], w))
    return out


def switch_case(ctx, I, name, switch_cases, objs=None, wordlists=None, initial=None, ka_family=None):
    """objects sent through one storage Banana with the outgoing vocabulary replaced (setOutgoingVocabulary, arbitrary word
    lists) between every two of them; ka_family: the same stream once more with keepalive tokens at that placement family
    (also inside the set-vocab sequences)"""
    rng = ctx.rng
    I.KEEP.clear()
    if objs is None:
        k = rng.choice([2, 2, 3, 4])
        objs = [I.gen_graph(rng, rng.choice([1, 2, 4, 8]), 64) for _ in range(k)]
        if rng.random() < 0.4 and isinstance(objs[0], list):
            objs[-1] = [objs[-1], objs[0]]          # the storage root is one scope: a later object may refer to an earlier one
        wordlists = [random_words(rng) for _ in range(k - 1)]
        initial = "v1" if rng.random() < 0.4 else (random_words(rng) if rng.random() < 0.5 else None)
    words0 = vocab_v1() if initial == "v1" else (initial or [])
    tbl0 = table_of(words0)
    tbls = [table_of(w) for w in wordlists]
    try:
        scopes = [{}]
        terms, starts, n = [], [], 0
        for o in objs:
            t, n2 = I.canon_py(o, n, scopes)
            terms.append(t)
            starts.append(n)
            n = n2 + 1                               # each set-vocab sequence takes one OPEN number
    except (I.Unsupported, RecursionError):
        return
    if any(I.deferred_hazards([t], st) for t, st in zip(terms, starts)):
        return
    key = [I.term_coq(t) for t in terms]
    tdesc = [[w.decode("latin-1") for w in ws] for ws in wordlists]
    ctx.case(dict(sw=key, t0=[w.hex() for w in words0], t1=tdesc), nontrivial=True)
    ctx.hist("switch_table_gaps", sum(1 for ws in wordlists if len(set(ws)) != len(ws)))
    b = I.new_sender(words0 if words0 else None)
    err = None
    for j, o in enumerate(objs):
        if j:
            with I.E.quiet():
                try:
                    b.setOutgoingVocabulary(list(wordlists[j - 1]))
                except Exception as e:
                    err = "setOutgoingVocabulary raised %s: %s" % (type(e).__name__, e)
                I.E.turn()
        err = err or I.send_obj(b, o)
        if err:
            break
    if err:
        ctx.fail("oracle/vocab-switch/send-failed" if "Violation" not in err or True else "", "object graphs could not be serialized around a "
                 "vocabulary switch: %s; word lists %r (initial %r)" % (err, tdesc, initial if initial == "v1" else words0),
                 replay=dict(case=name, term=key, error=err, words=tdesc))
        return
    data = bytes(b.transport.out)
    for how in ("one", "bytewise", "random"):
        cuts = I.chunkings(rng, len(data), how)
        r = I.receive(data, cuts, words0 if words0 else None)
        ctx.traces += 1
        if r[0] != "ok":
            ctx.fail("oracle/receive-failed/long-copyable-name" if "STRING token is too long" in r[1] else
                     "oracle/vocab-switch/receive-failed", "stream with the vocabulary table replaced mid-stream could not be unserialized "
                     "(%s, chunking %s): %s; word lists %r (initial %r); graphs %s" % (r[0], how, r[1], tdesc, initial if initial == "v1" else words0,
                                                                                      " ; ".join(key)[:500]),
                     replay=dict(case=name, term=key, words=tdesc, data=data.hex()[:4000], cuts=cuts[:50]))
            return
        d = I.oracle_iso(objs, r[1])
        if d:
            if any(I.tuple_ref_after_dict_value_ref([t], st) for t, st in zip(terms, starts)):
                ctx.fail("oracle/graph-changed/tuple-ref-after-dict-value-ref", "round trip changed the graph: %s; terms %s" % (d, key),
                         replay=dict(case=name, term=key))
                return
            ctx.fail("oracle/vocab-switch/" + oracle_sig(d), "vocabulary switch changed the graph (chunking %s): %s; word lists %r (initial %r); "
                     "graphs %s" % (how, d, tdesc, initial if initial == "v1" else words0, " ; ".join(key)[:500]),
                     replay=dict(case=name, term=key, words=tdesc, data=data.hex()[:4000]))
            return
    ctx.hist("outcome", "delivered-across-vocab-switch")
    switch_cases.append(dict(tbl0=tbl0, terms=terms, tbls=tbls, data=data))
    if ka_family:
        places = I.ka_places(None, data, [], ka_family)
        used = [I.KA_KINDS[i % len(I.KA_KINDS)] for i in range(len(places))]
        stream, spans = I.ka_splice(data, [(off, I.ka_token(*k)) for off, k in zip(places, used)])
        kdesc = ["%s(%d)@%d" % (k[0].upper(), k[1], off) for off, k in zip(places, used)]
        for how in ("one", "alone", "glued-10", "glued-65", "tail"):
            cuts = I.ka_chunkings(None, len(stream), spans, how)
            r = I.receive(stream, cuts, words0 if words0 else None, written=bytearray())
            ctx.traces += 1
            d = r[1] if r[0] != "ok" else I.oracle_iso(objs, r[1])
            if d:
                ctx.fail("oracle/keepalive/vocab-switch/" + ("receive-failed" if r[0] != "ok" else oracle_sig(d)),
                         "a stream with vocabulary switches that is delivered without keepalive tokens changes / is not delivered with them: %s; "
                         "keepalive tokens %s (placement %s, offsets of the stream without them), packets cut at %s (%s); word lists %r "
                         "(initial %r); graphs %s" % (d, ", ".join(kdesc[:12]), ka_family, cuts[:24], how, tdesc,
                                                      initial if initial == "v1" else words0, " ; ".join(key)[:400]),
                         replay=dict(case=name, term=key, words=tdesc, keepalives=kdesc[:60], cuts=cuts[:60], data=stream.hex()[:4000]))
                return
        ctx.hist("outcome", "delivered-across-vocab-switch-with-keepalive-tokens")


WORDLEN_CASES = []
WORDLEN_SIG = "oracle/vocab-switch/word-longer-than-receiver-limit"


def word_length_family(ctx, I):
    """fixed witnesses: a table is in force, the sender replaces it (setOutgoingVocabulary) by one that holds a word of 99 / 100 /
    101 / 1000 bytes next to words the following objects use, then sends objects.  The property quantifies over ALL tables: the
    objects must arrive unchanged.  The receiver bounds a table word at 100 bytes: a longer one is a Violation, the receiver keeps
    its OLD table, the sender uses the new one, and every abbreviated string after that is expanded wrongly (a list arrives as a
    tuple) or the stream is refused.  NEW finding (not in known_findings.json): reported as a note, the check stays green; words
    within the limit must be delivered exactly (ordinary failure otherwise).  Every run is also handed to the model, whose
    receiver with the Violation handling (Obj.receiver_view_v) must deliver what the implementation delivered."""
    noted = False
    for n in (99, 100, 101, 1000):
        for initial, label in (([b"tuple"], "tuple"), ([b"tuple", b"list", b"dict"], "tuple-list-dict"), (vocab_v1(), "v1"), ([], "none")):
            for pos in (0, 1):
                I.KEEP.clear()
                new_words = [b"list", b"x" * n] if pos else [b"x" * n, b"list"]
                new_words = new_words + [b"tuple", b"unicode"]
                shared = [n, "x"]
                objs = [[1, shared], [2, (3, shared), {"k": [4]}], (5, [6])]
                name = "wordlen-%d/%s/%d" % (n, label, pos)
                ctx.case(dict(wordlen=n, initial=label, pos=pos), nontrivial=True)
                b = I.new_sender(initial if initial else None)
                err = I.send_obj(b, objs[0])
                with I.E.quiet():
                    try:
                        b.setOutgoingVocabulary(list(new_words))
                    except Exception as e:
                        err = err or "setOutgoingVocabulary raised %s: %s" % (type(e).__name__, e)
                    I.E.turn()
                for o in objs[1:]:
                    err = err or I.send_obj(b, o)
                if err:
                    ctx.fail("oracle/vocab-switch/send-failed", "object graphs could not be serialized around a vocabulary switch: %s; new table "
                             "has a word of %d bytes (initial table %s)" % (err, n, label), replay=dict(case=name, error=err, wordlen=n))
                    continue
                data = bytes(b.transport.out)
                got, viol, exc = I.receive_lenient(data, initial if initial else None)
                ctx.traces += 1
                d = exc or (None if len(got) == len(objs) else "delivered %d objects of %d" % (len(got), len(objs))) or I.oracle_iso(objs, got)
                if d or viol:
                    what = ("vocabulary table replaced by one with a %d-byte word (position %d; table in force before: %s), then objects "
                            "sent: receiver reports %s; delivered %r instead of %r (%s)"
                            % (n, pos, label, viol or exc or "nothing", got, objs, d or "graph equal"))
                    if n <= 100:
                        ctx.fail("oracle/vocab-switch/" + ("receive-failed" if exc or viol else oracle_sig(d)), what,
                                 replay=dict(case=name, wordlen=n, initial=label, data=data.hex()[:4000]))
                        continue
                    ctx.hist("outcome", "vocab word over the receiver's limit: " + ("graph changed" if d and not exc else "refused" if exc else "violation only"))
                    if not noted:
                        noted = True
                        ctx.fail(WORDLEN_SIG, "%s.  Minimal input: table [b'tuple'] in force, "
                                 "setOutgoingVocabulary([b'list', b'x'*101]), send [2] -> receiver keeps [b'tuple'] and delivers (2,).  "
                                 "Cause: ReplaceVocabUnslicer.valueConstraint = ByteStringConstraint(100) (slicers/vocab.py) while "
                                 "Banana.setOutgoingVocabulary accepts any word" % (what[:600],),
                                 replay=dict(case=name, wordlen=n, initial=label, data=data.hex()[:4000]))
                else:
                    ctx.hist("outcome", "vocab word of %s bytes: delivered" % ("<= 100" if n <= 100 else "> 100"))
                # correspondence: the model's receiver (Violation handling included) on the real bytes delivers what was delivered
                if exc:
                    continue
                try:
                    scopes = [{}]
                    terms, starts, m = [], [], 0
                    for j, o in enumerate(got):
                        t, m2 = I.canon_py(o, m, scopes)
                        terms.append(t)
                        starts.append(m)
                        m = m2 + (1 if j == 0 else 0)          # the set-vocab sequence took one OPEN number, accepted or not
                except (I.Unsupported, RecursionError):
                    continue
                WORDLEN_CASES.append(dict(name=name, tbl0=table_of(initial), terms=terms, starts=starts, data=data, viol=1 if viol else 0))


def random_argsets(I, rng):
    shared = I.gen_graph(rng, rng.choice([1, 2, 4]), 16)
    if not isinstance(shared, (list, dict, set)):
        shared = [shared]
    other = I.gen_graph(rng, rng.choice([1, 2, 4]), 16)
    # pass-by-copy objects whose slicers build temporary state, several times inside one call scope
    def comp():
        if rng.random() < 0.7:
            return I.Basket([rng.randrange(0, 50) for _ in range(rng.randrange(0, 5))], shared if rng.random() < 0.3 else None)
        return I.Point(rng.randrange(-9, 9), rng.randrange(-9, 9))
    comps = [comp() for _ in range(rng.choice([2, 3, 4, 6]))]
    first = ((shared, other, shared, comps), {"kw": [shared], "left": comp(), "right": comp()})
    second = ((shared, [shared, other], tuple(comps[:2]) + (comp(),)), {"m": {"a": comp(), "b": comp()}})
    return [first, second]


def nested_junk(I, rng=None, k=0):
    """containers nested inside one another, with sharing, references and pass-by-copy objects: what a discarded part looks like"""
    s = [k, [k + 1]]
    c = I.CA(); c.v = [s, (s,)]
    fixed = [[[s], {"a": [s, (1, [2, {3}])]}, (s, [c], frozenset([1]))], {"k": [[[]]], "m": (s, s)}, ([], ([],), {"x": {}}), c, [I.Basket([1, 2], s)]]
    if rng is None:
        return fixed[k % len(fixed)]
    g = I.gen_graph(rng, rng.choice([2, 4, 8]), 16)
    return [g, fixed[rng.randrange(len(fixed))]]


def rejected_preludes(I, rng=None):
    """[(description, method, args, kwargs, direction)]: messages the RECEIVER rejects part-way (schema Violation), whose
    rejected and discarded parts contain nested containers.  direction 'call': the callee rejects an argument;
    'answer': the caller rejects the returned value."""
    J = lambda k: nested_junk(I, rng, k)
    return [
        ("first-arg-not-int", "strict", (J(0), J(1), J(2)), {}, "call"),
        ("first-arg-text", "strict", ("no", J(1), [J(2), J(3)]), {}, "call"),
        ("second-arg-list-of-lists", "strict2", (J(0), [[1], [2, [3]]], J(4)), {}, "call"),
        ("second-arg-list-with-late-bad-item", "strict2", ([1], [1, 2, 3, [4, [5]], 6], J(2)), {}, "call"),
        ("second-arg-dict", "strict2", (1, {"a": [1]}, J(3)), {}, "call"),
        ("kw-dict-bad-value", "strictkw", (), {"x": J(1), "y": {1: [2, [3]], 4: 5}, "z": J(0)}, "call"),
        ("kw-dict-bad-key", "strictkw", (), {"x": 0, "y": {(1, (2,)): 3}, "z": J(2)}, "call"),
        ("copyable-where-int", "strict", (J(3), 1, 2), {}, "call"),
        ("result-not-int", "ret_int", (J(0),), {}, "answer"),
        ("result-list-bad-item", "ret_list", ([1, 2, [3, [4]], 5],), {}, "answer"),
        ("result-list-of-junk", "ret_list", ([J(1), J(2)],), {}, "answer"),
    ]


REFUSED_CASES = []       # graphs the real receiver refused / never completed: the Deferred-level model must not deliver them
COUNTER_CASES = []       # (direction, bytes of one rejected message, how far the receiver's objectCounter moved)


def run_prelude(ctx, I, P, pre, rng, chunk):
    """send one message that the receiver must reject; -> True if it was rejected cleanly and the connection survived"""
    desc, meth, a, kw, direction = pre
    rr = P.rr_untyped if direction == "call" else P.rr_typed
    res = []
    with I.E.quiet():
        try:
            rr.callRemote(meth, *a, **kw).addBoth(res.append)
        except Exception as e:
            res.append(e)
        I.E.turn()
    for _ in range(6):
        c0, k0 = P.callee.objectCounter, P.caller.objectCounter
        d1 = P.pump(P.caller, P.callee, rng, chunk or "random")
        d2 = P.pump(P.callee, P.caller, rng, chunk or "random")
        for d_, delta in ((d1, P.callee.objectCounter - c0), (d2, P.caller.objectCounter - k0)):
            if d_ and len(d_) < 3000 and len(COUNTER_CASES) < 400:
                COUNTER_CASES.append((direction + ":" + desc, d_, delta))
        if not d1 and not d2:
            break
    ctx.traces += 1
    if P.callee.objectCounter != P.caller.openCount or P.caller.objectCounter != P.callee.openCount:
        ctx.fail("oracle/object-numbering-out-of-step", "after a message rejected by the receiver's schema (%s: %s) the receiver numbers "
                 "incoming objects from %d while the sender is at %d (other direction: %d / %d): later references resolve to the wrong objects"
                 % (direction, desc, P.callee.objectCounter, P.caller.openCount, P.caller.objectCounter, P.callee.openCount),
                 replay=dict(prelude=desc, method=meth, args=repr((a, kw))[:1200]))
    rejected = bool(res) and isinstance(res[0], I.Failure) and "Violation" in res[0].type.__name__
    ctx.hist("prelude", "%s:%s" % (direction, "rejected" if rejected else ("delivered" if res and not isinstance(res[0], I.Failure) else "other")))
    if P.t_caller.closed or P.t_callee.closed:
        ctx.fail("oracle/rejected-message-drops-connection", "a message rejected by the receiver's schema (%s: %s) dropped the connection"
                 % (direction, desc), replay=dict(prelude=desc, args=repr((a, kw))[:1200]))
        return False
    return rejected


def write_keepalive(ctx, I, P, ka):
    """what an idle connection with keepalives does right before application traffic: ka = ("ping", number): the caller's
    Banana.sendPING(number); ka = "timer": virtual time passes until the keepalive timers (keepaliveTimeout = 30 s) of both
    ends fire and keepaliveTimerFired writes the PINGs.  Nothing is delivered here: the token stays in the transport and
    travels together with whatever is written next."""
    with I.E.quiet():
        if ka == "timer":
            I.E.clock.advance(31)
        else:
            P.caller.sendPING(ka[1])
    ctx.hist("keepalive_on_connection", "timer" if ka == "timer" else "sendPING")


def call_case(ctx, I, name, argsets, coq_cases, vi=None, chunk=None, preludes=(), ka=None):
    """successive calls on one connection (then one echo whose value comes back in an answer scope): sharing inside each
    call is kept, nothing is shared between calls, every pass-by-copy instance arrives with its own state.
    ka: a keepalive PING is written on the caller's side right before every call (the callee's PONG then sits right in front
    of the answer): same arguments, same answer, whatever the packets look like"""
    rng = ctx.rng
    I.KEEP.clear()
    P = I.Pair(vi, keepalive=30 if ka == "timer" else None)
    katag = "/keepalive-tokens-in-stream" if ka else ""
    kahist = ("[history: a keepalive PING (%s) is written on the caller's side right before every call, so PING and call travel "
              "together; packets: %s] " % ("keepalive timer fired after 31 idle seconds" if ka == "timer" else "sendPING(%d)" % ka[1],
                                           chunk or "random choice")) if ka else ""
    voc = vocab_v1() if vi else None
    if callable(argsets):
        argsets = argsets()          # built AFTER the connection exists (e.g. Copyable classes registered late)
    try:
        for a, kw in argsets:
            for x in list(a) + [kw[k] for k in sorted(kw)]:
                I.canon_py(x, 0, [{}])
    except (I.Unsupported, RecursionError):
        return
    # messages that the receiver rejects and partly discards come first on this connection
    for pre in preludes:
        if not run_prelude(ctx, I, P, pre, rng, chunk):
            if P.t_caller.closed or P.t_callee.closed:
                return
    if preludes:
        name = name + " after rejected " + "+".join(p[0] for p in preludes)
    n0 = P.caller.openCount
    sent_bytes = []
    terms = []
    n = n0
    for ci, (a, kw) in enumerate(argsets):
        res = []
        if ka:
            write_keepalive(ctx, I, P, ka)
        with I.E.quiet():
            P.rr.callRemote("take", *a, **kw).addBoth(res.append)
            I.E.turn()
        data = P.pump(P.caller, P.callee, rng, chunk or rng.choice(["one", "bytewise", "random"]))
        if ka:
            try:
                ctx.hist("keepalive_on_connection", "PING in front of the call" if 0x8e in I.token_bounds(data)[1][:3] else "no PING in front of the call")
                data = I.strip_ka_bytes(data)
            except (ValueError, IndexError):
                pass
        sent_bytes.append(data)
        P.pump(P.callee, P.caller)
        # canonical term of the call sequence: call(reqID, clid, method, arguments(nargs, args.., kwname, kwvalue..))
        argscope = I.Scope(b"arguments", [len(a)] + list(a) + [x for k in sorted(kw) for x in (k.encode(), kw[k])])
        callscope = I.Scope(b"call", [0, P.clid, b"take", argscope])       # reqID filled in below
        try:
            t, n = I.canon_py(callscope, n, [])
        except (I.Unsupported, RecursionError):
            return
        terms.append(t)
        ctx.traces += 1
    if I.deferred_hazards(terms, n0):
        return
    shape = (("[after rejected: %s] " % ", ".join("%s %s%r" % (p[4], p[1], (p[2], p[3])) for p in preludes)[:500]) if preludes else "") + \
        " ; ".join(I.term_coq(t) for t in terms)[:900]
    if len(P.target.calls) != len(argsets) or P.t_caller.closed or P.t_callee.closed:
        ctx.fail("oracle/call-not-delivered" + ("/copyable-registered-after-connection" if "late-registered" in name else "") + katag,
                 kahist +
                 ("[history: connection made, THEN the Copyable classes of this call were registered, then the call] " if "late-registered" in name else "") +
                 "a call whose arguments share objects was not delivered (delivered %d of %d, connection %s); calls: %s"
                 % (len(P.target.calls), len(argsets), "closed" if P.t_caller.closed or P.t_callee.closed else "open", shape),
                 replay=dict(case=name, args=repr(argsets)[:1500], terms=shape, keepalive=repr(ka), packets=chunk or "random choice"))
        return
    ctx.case(dict(call=[I.term_coq(t) for t in terms], v=vi, ka=repr(ka)), nontrivial=True)
    # oracle: each call's arguments arrive isomorphic (values, types, sharing inside the call kept, none invented) ...
    for (a, kw), (ra, rkw) in zip(argsets, P.target.calls):
        d = I.oracle_iso([list(a), kw], [list(ra), rkw])
        if d:
            ctx.fail("oracle/call/" + PENDING_SIG + oracle_sig(d) if name.startswith("call-pending/") else
                     "oracle/call/" + oracle_sig(d) + katag if not I.tuple_ref_after_dict_value_ref(terms, n0)
                     else "oracle/graph-changed/tuple-ref-after-dict-value-ref", kahist + "arguments of a call changed in transit: %s; call: %s" % (d, shape),
                     replay=dict(case=name, args=repr((a, kw))[:1500], terms=shape))
            return
    # ... and nothing is shared between the calls, nor with the caller's objects
    roots = [(c[0], c[1]) for c in P.target.calls]          # kept alive: ids stay unique
    idsets = [I.mutable_ids(r) for r in roots]
    sent_ids = I.mutable_ids(tuple(argsets))
    if set().union(*idsets) & sent_ids:
        ctx.fail("oracle/call/not-a-copy", "a received argument is the caller's own object", replay=dict(case=name))
        return
    for x in range(len(idsets)):
        for y in range(x + 1, len(idsets)):
            if idsets[x] & idsets[y]:
                ctx.fail("oracle/call/sharing-leaks-between-calls", "the results of two separate calls share %d object(s) by identity"
                         % len(idsets[x] & idsets[y]), replay=dict(case=name, args=repr(argsets)[:1500], terms=shape))
                return
    ctx.hist("outcome", "calls-delivered-isolated")
    # the request ids are whatever the broker chose: read them back from the first INT after "call"
    fixed = []
    scopes_sent = []
    for t, data, (a, kw) in zip(terms, sent_bytes, argsets):
        rid = first_int_after_call(data, voc)
        kids = list(t[3])
        kids[0] = ("int", rid)
        fixed.append(("cont", t[1], t[2], kids))
        argscope = I.Scope(b"arguments", [len(a)] + list(a) + [x for k in sorted(kw) for x in (k.encode(), kw[k])])
        scopes_sent.append(I.Scope(b"call", [rid, P.clid, b"take", argscope]))
    coq_cases.append(dict(name=name, scoped=False, n=n0, terms=fixed, voc=voc, data=b"".join(sent_bytes), hazard=False,
                          heap=heap_of_case(I, scopes_sent, b"".join(sent_bytes))))
    # one more call whose value travels back inside an answer scope (AnswerSlicer / AnswerUnslicer)
    a0 = argsets[0][0]
    val = list(a0)
    m0 = P.callee.openCount
    res = []
    if ka:
        write_keepalive(ctx, I, P, ka)
    with I.E.quiet():
        P.rr.callRemote("echo", val).addBoth(res.append)
        I.E.turn()
    P.pump(P.caller, P.callee, rng, chunk or "one")
    back = P.pump(P.callee, P.caller, rng, chunk or rng.choice(["one", "bytewise", "random"]))
    I.E.turn()
    ctx.traces += 1
    if ka:
        try:
            ctx.hist("keepalive_on_connection", "PONG in front of the answer" if 0x8f in I.token_bounds(back)[1][:3] else "no PONG in front of the answer")
            back = I.strip_ka_bytes(back)
        except (ValueError, IndexError):
            pass
    if len(res) != 1 or isinstance(res[0], I.Failure):
        ctx.fail("oracle/answer-not-delivered" + katag, (kahist and kahist[:-2] + "; the callee's PONG and the answer travel together] ") +
                 "the value returned by a remote method did not arrive: %r; value: %s" % (res[:1], shape[:500]),
                 replay=dict(case=name, value=repr(val)[:1500], keepalive=repr(ka)))
        return
    d = I.oracle_iso([val], [res[0]])
    if d:
        ctx.fail("oracle/answer/" + oracle_sig(d) + katag, kahist + "the value returned by a remote method changed in transit: %s; value: %s" % (d, shape[:500]),
                 replay=dict(case=name, value=repr(val)[:1500], keepalive=repr(ka)))
        return
    keep = (res[0],)
    if I.mutable_ids(keep) & (set().union(*idsets) | sent_ids):
        ctx.fail("oracle/call/sharing-leaks-between-calls", "an answer shares objects with earlier calls or with the sender", replay=dict(case=name))
        return
    ctx.hist("outcome", "answer-delivered")
    try:
        rid = first_int_after_call(back, voc)
        t, _ = I.canon_py(I.Scope(b"answer", [rid, P.target.calls[-1][0][0]]), m0, [])
        if not I.deferred_hazards([t], m0):
            coq_cases.append(dict(name=name + "-answer", scoped=False, n=m0, terms=[t], voc=voc, data=back, hazard=False))
    except (I.Unsupported, RecursionError, AssertionError, IndexError):
        pass


def first_int_after_call(data, voc):
    """reqID = the INT token that follows OPEN 'call' (STRING or VOCAB)"""
    pos = 0
    # OPEN
    while data[pos] < 0x80:
        pos += 1
    assert data[pos] == 0x88, data[:20]
    pos += 1
    # index token
    hdr = 0
    sh = 0
    while data[pos] < 0x80:
        hdr += data[pos] << sh
        sh += 7
        pos += 1
    if data[pos] == 0x82:
        pos += 1 + hdr
    else:
        assert data[pos] == 0x87
        pos += 1
    v = 0
    sh = 0
    while data[pos] < 0x80:
        v += data[pos] << sh
        sh += 7
        pos += 1
    assert data[pos] == 0x81
    return v


# ---------------------------------------------------------------------------------------------------------
ZB = """
Definition zb (neg : bool) (bs : list Z) : Z := let v := fold_left (fun a b => a * 256 + b) bs 0 in if neg then - v else v.
"""

CHK = ZB + """
Definition fuel_of (ts : list obj) : nat := S (size_list ts).
Definition chk (c : bool * Z * list obj * vtable * list Z * bool * option (sheap * list sval)) : Z :=
  let '(sc, n, ts, tbl, bs, dec, hq) := c in
  let toks := slice_list n ts in
  let b_wf := match wf_list sc [] [] n ts with Some _ => true | None => false end in
  let wire := envocab tbl toks in
  let b_tok := forallb wf_token wire in
  let b_send := match encode_stream wire with Ok b => list_eqb b bs | Exc _ => false end in
  let tko := match (if dec then decode bs else (wire, EndClean)) with   (* long streams: Token.decode is quadratic; stream_roundtrip covers it *)
             | (w, EndClean) => devocab tbl w
             | _ => None end in
  let same := fun (r : option (heap * list value)) =>
                match r with
                | Some (h, vs) => match canon_list (fuel_of ts) h n vs with
                                  | Some (os, _) => objs_eqb os ts
                                  | None => false end
                | None => false end in
  let b_recv := match tko with Some tk => same (unslice sc n tk) | None => false end in
  (* the Deferred-level receiver (placeholders, update callbacks, cascading completion) on the same tokens *)
  let b_drecv := match tko with Some tk => same (dunslice sc n tk) | None => false end in
  let b_wide := match wf_list_wide sc [] [] n ts with Some _ => true | None => false end in
  (* the guard of the delivery theorems (ObjGuard: transitive -- no Deferred into a Copyable attribute / dict key / root / scope,
     nothing left pending): must hold on everything the implementation delivered *)
  let b_guard := wf_list_t sc n ts in
  (if b_wf then 1 else 0) + (if b_tok then 2 else 0) + (if b_send then 4 else 0) + (if b_recv then 8 else 0)
  + (if b_drecv then 16 else 0) + (if b_wide then 32 else 0) + (if b_guard then 256 else 0)
  (* the SENDER MACHINE (slicer stack, scoped reference tables, open counter) run on the sender's heap: its canonical
     descent gives the harness's canonical terms, its token stream (abbreviated, encoded) is the real serializer's bytes *)
  + match hq with
    | None => 192
    | Some (h, q) =>
      (match canon_of (S (size_list ts)) h sc n q with Some os => if objs_eqb os ts then 64 else 0 | None => 0 end)
      + (match send_heap (S (List.length bs)) h sc n q with
         | Some toks => match encode_stream (envocab tbl toks) with Ok b => if list_eqb b bs then 128 else 0 | Exc _ => 0 end
         | None => 0 end)
    end.
(* graphs the real receiver refused or never completed: how the Deferred-level model ends (0 delivered, 1 refused, 2 left pending) *)
Definition rchk (c : vtable * list Z * list obj) : Z :=
  let '(tbl, bs, ts) := c in
  (* + 10 when the guard of the delivery theorems admits the term: it must not (the implementation did not deliver it) *)
  (if wf_list_t true 0 ts then 10 else 0) +
  match decode bs with
  | (w, EndClean) => match devocab tbl w with Some tk => doutcome true 0 tk | None => 9 end
  | _ => 9
  end.
"""

VCHK = ZB + """
(* objects t0 .. tk sent one after the other with the table replaced (ISetVocab) between every two of them *)
Fixpoint build (n : Z) (ts : list obj) (tbls : list vtable) : list item * list Z :=
  match ts with
  | [] => ([], [])
  | t :: r =>
    match r, tbls with
    | _ :: _, tb :: tbs =>
      let '(its, sts) := build (n + opens t + 1) r tbs in
      (map ITok (slice n t) ++ [ISetVocab (n + opens t) tb] ++ its, n :: sts)
    | _, _ => (map ITok (slice n t), [n])
    end
  end.
Fixpoint canon_each (h : heap) (ts : list obj) (sts : list Z) (vs : list value) : bool :=
  match ts, sts, vs with
  | [], [], [] => true
  | t :: tr, n :: nr, v :: vr =>
    match canon (S (size t)) h n v with Some (o, _) => obj_eqb o t && canon_each h tr nr vr | None => false end
  | _, _, _ => false
  end.
Definition vchk (c : vtable * list obj * list vtable * list Z) : Z :=
  let '(tbl0, ts, tbls, bs) := c in
  let '(items, sts) := build 0 ts tbls in
  let wire := sender_wire tbl0 items in
  let b_send := match encode_stream wire with Ok b => list_eqb b bs | Exc _ => false end in
  let b_recv := match decode bs with
                | (w, EndClean) =>
                  match receiver_view (List.length w) tbl0 w with
                  | Some tk => match unslice true 0 tk with Some (h, vs) => canon_each h ts sts vs | None => false end
                  | None => false end
                | _ => false end in
  (if b_send then 4 else 0) + (if b_recv then 8 else 0).
"""


KCHK = ZB + """
Definition fuel_of (ts : list obj) : nat := S (size_list ts).
Definition bytes_of (ts : list token) : option (list Z) := match encode_stream ts with Ok b => Some b | Exc _ => None end.
Definition same_bytes (a b : option (list Z)) : bool := match a, b with Some x, Some y => list_eqb x y | _, _ => false end.
(* a stream with keepalive tokens, written by the real sendPING / sendPONG into the real serializer's bytes *)
Definition kchk (c : vtable * list obj * list Z * list (list Z)) : Z :=
  let '(tbl, ts, bs, cs) := c in
  match decode bs with
  | (w, EndClean) =>
    (* what is left when the keepalive tokens are taken out is the sender's stream; and there ARE keepalive tokens *)
    let b_strip := same_bytes (bytes_of (strip_ka w)) (bytes_of (envocab tbl (slice_list 0 ts))) in
    let b_some := negb (Nat.eqb (List.length w) (List.length (strip_ka w))) in
    let same := fun (r : option (heap * list value)) =>
                  match r with
                  | Some (h, vs) => match canon_list (fuel_of ts) h 0 vs with Some (os, _) => objs_eqb os ts | None => false end
                  | None => false end in
    let b_recv := match devocab tbl w with Some tk => same (unslice true 0 tk) | None => false end in
    let b_drecv := match devocab tbl w with Some tk => same (dunslice true 0 tk) | None => false end in
    (* C07's byte-level receiver on the packets that were used (keepalive tokens glued to their neighbours) *)
    let b_chunks := same_bytes (bytes_of (tokens_of_chunks cs)) (Some bs) && list_eqb (List.concat cs) bs in
    (if b_strip then 1 else 0) + (if b_some then 2 else 0) + (if b_recv then 4 else 0) + (if b_drecv then 8 else 0)
    + (if b_chunks then 16 else 0)
  | _ => 0
  end.
"""


def correspond(ctx, I, coq_cases, switch_cases, ka_cases=()):
    from harness.c01_impl import term_coq, coq_Zs
    nbad = 0
    total = 0
    # shards by size of the literal text
    shards, cur, cursz = [], [], 0
    for c in coq_cases:
        hq = c.get("heap")
        txt = "(%s, %d, [%s], %s, %s, %s, %s)" % ("true" if c["scoped"] else "false", c["n"], "; ".join(term_coq(t) for t in c["terms"]),
                                                  coq_tbl(c["voc"] or []), coq_Zs(c["data"]), "true" if len(c["data"]) <= 1200 else "false",
                                                  "Some (%s, %s)" % hq if hq else "None")
        ctx.hist("sender_machine", "run on the heap" if hq else "skipped (large / computed copy state)")
        if cur and (cursz + len(txt) > 900000 or len(cur) >= 150):
            shards.append(cur)
            cur, cursz = [], 0
        cur.append((c, txt))
        cursz += len(txt)
    if cur:
        shards.append(cur)
    for si, shard in enumerate(shards):
        body = "Open Scope Z_scope.\n" + CHK + "Definition cases : list (bool * Z * list obj * vtable * list Z * bool * option (sheap * list sval)) := [\n" + \
               ";\n".join(t for _, t in shard) + "].\nEval vm_compute in map chk cases.\n"
        try:
            (vals,) = ctx.coq_eval("C01_cases_%d" % si, body, requires=REQ)
        except common.CoqEvalError as e:
            ctx.fail("correspondence-broken", "the model could not be evaluated: " + str(e)[-1500:], has_input=False)
            return
        for (c, _), v in zip(shard, vals):
            total += 1
            want = 511
            if c.get("crafted") and (v & 28) == 28 and ((v & 256) or not (v & 32)):
                # no sender emits this stream: both receivers of the model deliver the term's graph like the implementation; if the
                # references resolve the way a sender's would (wf_list_wide) the guard of the delivery theorems must hold too
                ctx.hist("outcome", "crafted stream delivered, Deferred-level model agrees" + (", inside the guard" if v & 256 else " (references no sender emits)"))
                continue
            if v == 510 and I.has_deferred_tuple(c["terms"], c["n"]):
                ctx.hist("outcome", "deferred completion: Deferred-level model agrees (deferred_sound applies)")
                continue
            if v != want:
                nbad += 1
                what = []
                if not v & 1:
                    what.append("the canonical term of the sent graph is not well-formed in the model (wf_list)")
                if not v & 2:
                    what.append("a token of the model's stream is outside wf_token")
                if not v & 4:
                    what.append("sender: bytes written by the real serializer differ from encode_stream (envocab tbl (slice term))")
                if not v & 8:
                    what.append("receiver: canon (unslice (devocab (decode real bytes))) differs from the term")
                if not v & 16:
                    what.append("receiver: the Deferred-level model (placeholders, update callbacks, completion cascade) does not deliver the "
                                "term's graph although the implementation did")
                if not v & 32:
                    what.append("the canonical term is outside the wide guard (wf_list_wide)")
                if not v & 64:
                    what.append("sender machine: the canonical descent of the model over the sender's heap (SendHeap.canon_of) differs from the harness's canonical term")
                if not v & 256:
                    what.append("the implementation delivered the graph but the guard of the delivery theorems (ObjGuard.wf_list_t) excludes it")
                if not v & 128:
                    what.append("sender machine: the token stream of SendHeap.send_heap on the sender's heap (abbreviated, encoded) differs from the bytes the real slicers wrote")
                sig = "correspondence/sender-bytes" if not v & 4 else ("correspondence/receiver-model" if not v & 8 else
                                                                        ("correspondence/deferred-receiver" if not v & 16 else
                                                                         ("correspondence/sender-machine" if (v & 192) != 192 else
                                                                          ("correspondence/guard-excludes-delivered" if not v & 256 else "correspondence/wf"))))
                ctx.fail(sig, "model and implementation disagree on case %s: %s; term: %s" %
                         (c["name"], "; ".join(what), " ; ".join(term_coq(t) for t in c["terms"])[:600]),
                         replay=dict(case=c["name"], code=v, term=[term_coq(t) for t in c["terms"]], data=c["data"].hex()[:4000],
                                     vocab=bool(c["voc"])), has_input=False)
    # keepalive tokens in the stream: the model reads the real bytes (keepalive tokens included), drops the tokens
    # (strip_ka = the sender's stream), and its receivers, fed the stream WITH the tokens, rebuild the term's graph
    ka_cases = list(ka_cases)[:ctx.n(70, 300)]
    for lo in range(0, len(ka_cases), 150):
        shard = ka_cases[lo:lo + 150]
        rows = []
        for c in shard:
            cuts = [0] + [x for x in c["cuts"] if 0 < x < len(c["data"])] + [len(c["data"])]
            cs = "[" + "; ".join(coq_Zs(c["data"][a:b_]) for a, b_ in zip(cuts, cuts[1:])) + "]"
            rows.append("(%s, [%s], %s, %s)" % (coq_tbl(c["voc"] or []), "; ".join(term_coq(t) for t in c["terms"]), coq_Zs(c["data"]), cs))
        body = "Open Scope Z_scope.\n" + KCHK + "Definition cases : list (vtable * list obj * list Z * list (list Z)) := [\n" + ";\n".join(rows) + \
               "].\nEval vm_compute in map kchk cases.\n"
        try:
            (vals,) = ctx.coq_eval("C01_keepalive_%d" % lo, body, requires=REQ)
        except common.CoqEvalError as e:
            ctx.fail("correspondence-broken", "the model could not be evaluated (keepalive tokens): " + str(e)[-1500:], has_input=False)
            return
        for c, v in zip(shard, vals):
            total += 1
            if v == 27 and I.has_deferred_tuple(c["terms"], 0):
                continue        # pointer machine's close-time approximation, as for code 254 above; the Deferred-level model delivers
            if v != 31:
                nbad += 1
                what = []
                if not v & 1:
                    what.append("the real stream minus its keepalive tokens (strip_ka (decode bytes)) is not the model's sender stream")
                if not v & 2:
                    what.append("the model sees no keepalive token in the stream")
                if not v & 4:
                    what.append("receiver: canon (unslice (devocab (decode bytes with keepalive tokens))) differs from the term")
                if not v & 8:
                    what.append("receiver: the Deferred-level model does not deliver the term's graph from the stream with keepalive tokens")
                if not v & 16:
                    what.append("byte-level receiver (Recv.v) on the packets used does not hand up the tokens of the stream")
                ctx.fail("correspondence/keepalive", "model and implementation disagree on a stream with keepalive tokens (code %d, case %s): %s; term: %s"
                         % (v, c["name"], "; ".join(what) or "stream not readable", " ; ".join(term_coq(t) for t in c["terms"])[:500]),
                         replay=dict(case=c["name"], code=v, term=[term_coq(t) for t in c["terms"]], data=c["data"].hex()[:4000], cuts=c["cuts"][:60]),
                         has_input=False)
    # vocabulary switch
    for lo in range(0, len(switch_cases), 100):
        shard = switch_cases[lo:lo + 100]
        rows = ["(%s, [%s], [%s], %s)" % (coq_pairs(c["tbl0"]), "; ".join(term_coq(t) for t in c["terms"]),
                                         "; ".join(coq_pairs(t) for t in c["tbls"]), coq_Zs(c["data"])) for c in shard]
        body = "Open Scope Z_scope.\n" + VCHK + "Definition cases : list (vtable * list obj * list vtable * list Z) := [\n" + ";\n".join(rows) + \
               "].\nEval vm_compute in map vchk cases.\n"
        try:
            (vals,) = ctx.coq_eval("C01_switch_%d" % lo, body, requires=REQ)
        except common.CoqEvalError as e:
            ctx.fail("correspondence-broken", "the model could not be evaluated (vocab switch): " + str(e)[-1500:], has_input=False)
            return
        for c, v in zip(shard, vals):
            total += 1
            if v != 12:
                nbad += 1
                sig = "correspondence/vocab-switch-sender" if not v & 4 else "correspondence/vocab-switch-receiver"
                ctx.fail(sig, "model and implementation disagree on a stream with vocabulary switches (code %d): tables %r -> %r; terms %s"
                         % (v, c["tbl0"][:6], c["tbls"], " ; ".join(term_coq(t) for t in c["terms"])[:500]),
                         replay=dict(code=v, terms=[term_coq(t) for t in c["terms"]], tbls=repr(c["tbls"]), data=c["data"].hex()[:4000]),
                         has_input=False)
    # table words around the receiver's limit: the model's receiver with the Violation handling (receiver_view_v: the set-vocab
    # sequence is dropped, the OLD table stays) on the real bytes delivers the graphs the implementation delivered, and counts the
    # same number of rejected table replacements
    if WORDLEN_CASES:
        rows = ["(%s, [%s], [%s], %s, %d)" % (coq_pairs(c["tbl0"]), "; ".join(term_coq(t) for t in c["terms"]),
                                             "; ".join(str(x) for x in c["starts"]), coq_Zs(c["data"]), c["viol"]) for c in WORDLEN_CASES]
        body = "Open Scope Z_scope.\n" + VCHK + """
Definition wchk (c : vtable * list obj * list Z * list Z * Z) : Z :=
  let '(tbl0, ts, sts, bs, viol) := c in
  match decode bs with
  | (w, EndClean) =>
    match receiver_view_v (List.length w) tbl0 w with
    | Some (tk, k) =>
      (if k =? viol then 1 else 0)
      + (match unslice true 0 tk with Some (h, vs) => if canon_each h ts sts vs then 2 else 0 | None => 0 end)
      + (match receiver_view (List.length w) tbl0 w with Some _ => if viol =? 0 then 4 else 0 | None => if viol =? 0 then 0 else 4 end)
    | None => 0 end
  | _ => 0 end.
Definition cases : list (vtable * list obj * list Z * list Z * Z) := [
""" + ";\n".join(rows) + "].\nEval vm_compute in map wchk cases.\n"
        try:
            (vals,) = ctx.coq_eval("C01_wordlen", body, requires=REQ)
        except common.CoqEvalError as e:
            ctx.fail("correspondence-broken", "the model could not be evaluated (table word length): " + str(e)[-1500:], has_input=False)
            return
        for c, v in zip(WORDLEN_CASES, vals):
            total += 1
            if v != 7:
                nbad += 1
                ctx.fail("correspondence/vocab-word-limit", "model and implementation disagree on a table replacement with a long word (code %d, "
                         "case %s): %s" % (v, c["name"], "; ".join(w_ for w_, bit in (
                             ("the number of rejected table replacements differs", 1),
                             ("the model's receiver (old table kept after the Violation) does not deliver the graphs the implementation delivered", 2),
                             ("the strict receiver_view (clean runs only) accepts a stream the implementation flagged, or refuses a clean one", 4)) if not v & bit)),
                         replay=dict(case=c["name"], code=v, terms=[term_coq(t) for t in c["terms"]], data=c["data"].hex()[:4000]), has_input=False)
    # graphs the implementation refused (known-defective region) or never completed: the Deferred-level model must not deliver them
    if REFUSED_CASES:
        rows = ["(%s, %s, [%s])" % (coq_tbl(c["voc"] or []), coq_Zs(c["data"]), "; ".join(term_coq(t) for t in c["terms"])) for c in REFUSED_CASES]
        body = "Open Scope Z_scope.\n" + CHK + "Definition cases : list (vtable * list Z * list obj) := [\n" + ";\n".join(rows) + \
               "].\nEval vm_compute in map rchk cases.\n"
        try:
            (vals,) = ctx.coq_eval("C01_refused", body, requires=REQ)
        except common.CoqEvalError as e:
            ctx.fail("correspondence-broken", "the model could not be evaluated (refused graphs): " + str(e)[-1500:], has_input=False)
            return
        for c, v in zip(REFUSED_CASES, vals):
            total += 1
            if v >= 10:
                v -= 10
                nbad += 1
                ctx.fail("correspondence/guard-admits-refused", "the implementation did not deliver %s (%s) but the guard of the delivery theorems "
                         "(ObjGuard.wf_list_t) admits it: the theorems would claim delivery; term: %s"
                         % (c["name"], c["how"], " ; ".join(term_coq(t) for t in c["terms"])[:600]),
                         replay=dict(case=c["name"], term=[term_coq(t) for t in c["terms"]], data=c["data"].hex()[:4000]), has_input=False)
            ctx.hist("outcome", "refused by the implementation (%s), Deferred-level model: %s" % (c["how"], {0: "delivered", 1: "refused", 2: "pending"}.get(v, v)))
            if v not in (1, 2):
                nbad += 1
                ctx.fail("correspondence/deferred-refusal", "the implementation did not deliver %s (%s) but the Deferred-level model %s; term: %s"
                         % (c["name"], c["how"], "delivers it" if v == 0 else "cannot read the stream",
                            " ; ".join(term_coq(t) for t in c["terms"])[:600]),
                         replay=dict(case=c["name"], code=v, term=[term_coq(t) for t in c["terms"]], data=c["data"].hex()[:4000]), has_input=False)
    # rejected messages: the receiver's counter moves by the number of OPEN tokens in the message, discarded or not
    if COUNTER_CASES:
        rows = ["(%s, %d)" % (coq_Zs(d_), delta) for _, d_, delta in COUNTER_CASES]
        body = ("Open Scope Z_scope.\nDefinition cases : list (list Z * Z) := [\n" + ";\n".join(rows) + "].\n"
                "Eval vm_compute in map (fun c => match decode (fst c) with (w, EndClean) => count_opens w =? snd c | _ => false end) cases.\n")
        try:
            (vals,) = ctx.coq_eval("C01_counters", body, requires=REQ)
        except common.CoqEvalError as e:
            ctx.fail("correspondence-broken", "the model could not be evaluated (counters): " + str(e)[-1500:], has_input=False)
            return
        for (desc, d_, delta), v in zip(COUNTER_CASES, vals):
            total += 1
            if v is not True:
                nbad += 1
                ctx.fail("correspondence/object-counter", "a (partly rejected) message moved the receiver's objectCounter by %d, the model says "
                         "by the number of its OPEN tokens: %s" % (delta, desc), replay=dict(message=d_.hex()[:3000], delta=delta, what=desc),
                         has_input=False)
    ctx.extra["correspondence_cases"] = total
    ctx.extra["correspondence_disagreements"] = nbad
