"""C04 driver: a real Broker pair (A, B) joined by two byte queues that only the harness moves.

Direction 0 = calls issued on A and entered on B; direction 1 = calls issued on B and entered on A.
A *scenario* is a list of script steps

    ["issue", dir, spec]        spec = dict(kind=..., stalls=n, only=bool, reenter=[spec, ...],
                                            target=None | "meth" | "func"   the call is addressed to a bare callable of the
                                                receiver (a bound method / a function handed out as a reference with a
                                                negative clid: RemoteMethodReference) instead of a Referenceable,
                                            target="bare"   the call is addressed to a second Referenceable of the receiver,
                                                one that advertises no RemoteInterface (schema-less),
                                            kind="raise", exc=<name in BODY_ERRORS>, how="raise"|"fail"   the method is entered
                                                and its BODY then raises that exception (how="fail": returns an already
                                                failed Deferred): an ordinary application error after the entry,
                                            inner=dict(at="copy"|"start"|"mid"|"resume"|"end", calls=[spec, ...])
                                                further calls are issued from INSIDE the send-side serialization of this
                                                call's argument (see HOOK_POSITIONS); spec["rev"] sends one of them in
                                                the opposite direction)
    ["release", dir]            fire the Deferred on which the sender of `dir` is stalled (if any)
    ["deliver", dir, chunks]    move bytes of `dir` up to the end of the next completely serialized tracked
                                call (or all bytes if there is none), cut into pieces by `chunks`
    ["gift", dir, j, ok]        resolve (ok) / fail the j-th (mod n) pending third-party reference (a call carries 1 or 2)
    ["deliver_part", dir]       move the bytes of the next tracked call byte by byte and stop as soon as the receiver has asked its
                                Tub for a third-party reference of that call (the call is then still incomplete); if it carries
                                none this is an ordinary deliver
    ["gift_early", dir, j, ok]  resolve / fail the j-th (mod n) third-party reference whose call is still being received
    ["advance", secs]           virtual time passes
    ["lose", dir]               the RECEIVER of direction dir gets connectionLost (Broker.finish); nothing is delivered to it
                                afterwards and what it writes from then on goes nowhere
    ["finish", dir, j, ok]      a method entered earlier (kind "slow": it returned a Deferred) completes / errbacks late
    ["turn"]                    one turn of foolscap's eventual-send queue
    ["noise", what]             unrelated eventual-send: "nop" | "raise" | ["issue", dir, spec] (a queued callable that issues a call)

With loopback=True the two brokers are joined by broker.LoopbackTransport (what a Tub uses to talk to itself): the bytes
travel through the eventual queue, "deliver" steps do nothing, and only the direct oracle applies.

While the script runs, instrumentation (instance-level wrappers; nothing in /repo is touched) logs the *model ops*
that really happened, per direction -- Issue (when Broker.send receives the CallSlicer, also for calls issued from
inside remote_ methods), StallRelease, Deliver, GiftReady, Turn -- and the chronological events queued / entered /
failed.  After every script step the abstract state of the real objects is read off:
RootSlicer.sendQueue, the top-level object on Banana.slicerStack, Broker.inboundDeliveryQueue,
Broker._waiting_for_call_to_be_ready.
"""
import gc
from twisted.internet import defer
from zope.interface import implementer
from twisted.python import failure
from foolscap import broker, slicer, call, referenceable, tokens, copyable
from foolscap.api import Referenceable, RemoteInterface
from foolscap.schema import Any
from foolscap.referenceable import TubRef
from harness import implenv as E


class RIOrderC04(RemoteInterface):
    def m(cid=int, a=Any(), x=int, g=Any()):
        return Any()


KINDS = ("plain", "slow", "raise", "gift", "early", "abort", "late", "local")
# model fate codes ("raise": the method IS entered -- what its body does afterwards is not the call queue's business)
FATE = {"plain": 0, "slow": 0, "raise": 0, "gift": 1, "early": 2, "abort": 2, "late": 3}


def _violation():
    raise tokens.Violation("the method body says: violation")


def _remote_exc():
    raise tokens.RemoteException(failure.Failure(RuntimeError("a call made by the method body failed")))


# what the BODY of an entered method may raise: real operations that go wrong after the method got control (ordinary,
# input-dependent application errors), plus foolscap's own exception classes raised by application code
BODY_ERRORS = {
    "TypeError": lambda: len(None),
    "TypeError-call": lambda: (lambda a: a)(),            # a TypeError of the "missing argument" sort, raised INSIDE the body
    "TypeError-kw": lambda: (lambda a=1: a)(nosuch=2),    # ... of the "unexpected keyword argument" sort
    "ValueError": lambda: int("not-a-number"),
    "AttributeError": lambda: None.nosuch,
    "KeyError": lambda: {}["nosuch"],
    "IndexError": lambda: [][3],
    "ZeroDivisionError": lambda: 1 // 0,
    "AssertionError": lambda: (_ for _ in ()).throw(AssertionError("body")),
    "RuntimeError": lambda: (_ for _ in ()).throw(RuntimeError("body")),
    "NotImplementedError": lambda: (_ for _ in ()).throw(NotImplementedError("body")),
    "StopIteration": lambda: next(iter(())),
    "Violation": _violation,
    "RemoteException": _remote_exc,
}
BODY_ERROR_NAMES = tuple(sorted(BODY_ERRORS))


class QTransport:
    """bytes written are kept until the harness moves them"""
    disconnecting = False

    def __init__(self):
        self.buf = bytearray()
        self.log = bytearray()  # everything ever written
        self.written = 0      # total bytes ever written
        self.moved = 0        # total bytes ever delivered
        self.lost = False
        self.dead = False     # the writing broker has had its connectionLost: what it writes from now on goes nowhere

    def write(self, data):
        if self.dead:
            return
        self.buf += data
        self.log += data
        self.written += len(data)

    def writeSequence(self, ds):
        for d in ds:
            self.write(d)

    def loseConnection(self, *a):
        self.lost = True

    def getPeer(self):
        return broker.LoopbackAddress()

    getHost = getPeer


class Unserializable:
    """no slicer is registered for this class: Banana.produce raises a Violation while slicing the argument"""


# where, during the serialization of an argument, application code can get control and call callRemote / callRemoteOnly:
#   copy    Copyable.getStateToCopy (called by CopyableSlicer from inside Banana.produce)
#   start   the body of a streaming slicer before its first token
#   mid     between two chunks of a streaming slicer -- with stalls: right before it pauses on its first Deferred
#   resume  right after the first pause ended (produce() re-entered through the Deferred); without stalls = mid
#   end     after the last chunk, as the slicer finishes
HOOK_POSITIONS = ("copy", "start", "mid", "resume", "end")


class StallArg(slicer.BaseSlicer):
    """an argument that is its own streaming slicer: a list whose body pauses `n` times on a Deferred; `hooks` maps a
    position (HOOK_POSITIONS) to a callable that is run there, i.e. from inside Banana.produce"""
    opentype = ("list",)
    trackReferences = False

    def __init__(self, side, n, hooks=None):
        slicer.BaseSlicer.__init__(self, None)
        self.side = side
        self.n = n
        self.hooks = dict(hooks or {})

    def fire(self, pos):
        h = self.hooks.pop(pos, None)
        if h is not None:
            h()

    def sliceBody(self, streamable, banana):
        self.fire("start")
        if self.n == 0:
            yield 0
            self.fire("mid")
            self.fire("resume")
        for i in range(self.n):
            yield i
            self.fire("mid")
            d = defer.Deferred()
            self.side.stall = d
            yield d
            self.fire("resume")
        yield 99
        self.fire("end")


class HookCopy(copyable.Copyable):
    """a Copyable argument whose getStateToCopy() runs application code (the hook) in the middle of serialization"""
    typeToCopy = "c04-hook-copy"

    def __init__(self, hook):
        self.hook = hook

    def getStateToCopy(self):
        h, self.hook = self.hook, None
        if h is not None:
            h()
        return {"v": 1}


class HookCopyRemote(copyable.RemoteCopy):
    copytype = "c04-hook-copy"

    def setCopyableState(self, state):
        self.state = state


class FakeTub:
    """what TheirReferenceUnslicer and Broker.callFailed need from a Tub"""
    accept_gifts = True
    logLocalFailures = False
    logRemoteFailures = False
    unsafeTracebacks = False

    def __init__(self):
        self.pending = {}

    def getReference(self, url):
        d = defer.Deferred()
        self.pending[url] = d
        return d

    def brokerDetached(self, b, why):
        pass


@implementer(RIOrderC04)
class Target(Referenceable):
    def __init__(self, world, d):
        self.world = world
        self.d = d          # direction whose calls are entered here

    def remote_m(self, cid, a=None, x=None, g=None):
        return self.world.method_body(self.d, cid, g)

    def hook(self, cid, a=None, x=None, g=None):
        # handed out as a bare bound method (target="meth"): entered through Broker._doCall's `methodname is None` branch
        return self.world.method_body(self.d, cid, g)


class BareTarget(Referenceable):
    """a second Referenceable of the same receiver, reachable over the same connection, that advertises NO RemoteInterface:
    calls to it carry no schema on either side (target="bare")"""

    def __init__(self, world, d):
        self.world = world
        self.d = d

    def remote_m(self, cid, a=None, x=None, g=None):
        return self.world.method_body(self.d, cid, g)


class Side:
    """sending half of one direction"""

    def __init__(self):
        self.stall = None
        self.next_cid = 0       # ids are given when callRemote/callRemoteOnly is INVOKED: that is the issue order
        self.meta = {}          # cid -> (kind, fate, stalls)
        self.sent = []          # cids in the order Broker.send received their CallSlicer
        self.reqid2cid = {}
        self.serialized = {}    # cid -> byte offset at which its serialization ended
        self.order = []         # cids in the order their serialization ended
        self.delivered = 0      # how many of self.order have been moved to the receiver
        self.ngifts = {}        # cid -> number of third-party references it carries
        self.gift0 = set()      # cids whose third-party reference is sent with giftID 0 (what a peer may choose to do)
        self.cut_at = None      # number of completely serialized calls when this sender lost the connection


# simple class-level attributes of Broker / Banana on the reference tree: anything else of that kind is a configuration
# knob that did not exist there, and the check exercises it with non-default values (family "knobs")
BASE_KNOBS = {"disconnected", "factory", "remote_broker", "requireSchema", "startedTLS", "startingTLS", "tub", "unsafeTracebacks",
              "use_remote_broker", "debugReceive", "debugSend", "disconnectTimeout", "disconnectTimer", "keepaliveTimeout",
              "keepaliveTimer", "logReceiveErrors", "logViolations", "paused", "streamable", "useKeepalives"}


def new_knobs():
    """-> {attribute: default} for class-level configuration attributes of Broker/Banana that the reference tree lacks"""
    from foolscap import banana
    out = {}
    for cls in (banana.Banana, broker.Broker):
        for k, v in vars(cls).items():
            if not k.startswith("_") and k not in BASE_KNOBS and (v is None or isinstance(v, (bool, int, float))):
                out[k] = v
    return out


def virtualize_reactors():
    """any foolscap module that holds a reference to the real reactor gets the virtual clock instead"""
    import sys
    from twisted.internet import reactor as real
    for name, m in list(sys.modules.items()):
        if name.startswith("foolscap") and m is not None and \
                (getattr(m, "reactor", None) is real or isinstance(getattr(m, "reactor", None), type(E.clock))):
            m.reactor = E.clock


class World:
    def __init__(self, loopback=False, knobs=None):
        E.reset_clock()
        virtualize_reactors()
        self.loopback = loopback
        self.A = broker.Broker(TubRef("brokerA"))
        self.B = broker.Broker(TubRef("brokerB"))
        self.brokers = [self.A, self.B]
        if loopback:
            # the pair a Tub uses to talk to itself: every write() is an eventual-send of peer.dataReceived, so the
            # byte stream travels through foolscap.eventual's queue together with everything else that is queued there
            t0, t1 = broker.LoopbackTransport(), broker.LoopbackTransport()
            t0.setPeer(t1)
            t1.setPeer(t0)
            t0.protocol, t1.protocol = self.A, self.B
            self.tr = [t0, t1]
        else:
            self.tr = [QTransport(), QTransport()]      # tr[d] carries bytes of direction d (written by brokers[d])
        self.A.transport = self.tr[0]
        self.B.transport = self.tr[1]
        for b in self.brokers:
            b.tub = FakeTub()
            for k, v in (knobs or {}).items():
                setattr(b, k, v)
            b.connectionMade()
        self.sides = [Side(), Side()]
        self.targets = [Target(self, 0), Target(self, 1)]       # targets[d] lives on the receiver of direction d
        self.rrefs = [self._export(self.B, self.A, self.targets[0]), self._export(self.A, self.B, self.targets[1])]
        self.bare = [BareTarget(self, 0), BareTarget(self, 1)]   # schema-less Referenceables next to them (target="bare")
        self.brefs = [self._export(self.B, self.A, self.bare[0], None), self._export(self.A, self.B, self.bare[1], None)]
        # bare callables of the receiver of direction d, handed out like CallableSlicer does (negative clid)
        self.callables = [self._callables(0), self._callables(1)]
        self.crefs = [{k: self._export_call(self.B, self.A, f) for k, f in sorted(self.callables[0].items())},
                      {k: self._export_call(self.A, self.B, f) for k, f in sorted(self.callables[1].items())}]
        self.third = broker.Broker(TubRef(THIRD_TUBID))              # home of the references given away as gifts
        self.ops = [[], []]         # model ops per direction, grouped per script step: list of lists
        self.cur_ops = [[], []]
        self.events = [[], []]      # chronological: ("queued"|"entered"|"failed"|"rejected", cid)
        self.issued = [[], []]      # (cid, kind, stalls) in issue order
        self.results = [{}, {}]
        self.errors = []
        self.reenter = {}
        self.slow = [{}, {}]        # direction -> cid -> Deferred returned by the entered method
        self.deliv = [{}, {}]       # direction -> cid -> (InboundDelivery, ready_deferred) as handed to scheduleCall
        self.nsched = [0, 0]        # direction -> number of scheduleCall invocations (tracked or not)
        self.packets = [[], []]     # direction -> [(bytes of one packet, scheduleCalls so far, receiver between top-level
                                    #                objects?, Banana.objectCounter)] as handed to dataReceived
        self.recv_lost = [False, False]     # the receiver of direction d has lost the connection
        self.send_lost = [False, False]     # the sender of direction d has lost the connection
        self.keep = []
        self.hook_ctx = []          # stack of (direction, cid, left) of the hooks that are running (see issue / send)
        for d in (0, 1):
            self._instrument(d)
        q = E.ev._theSimpleQueue
        real_turn = type(q)._turn

        def logged_turn():
            for d in (0, 1):
                self.cur_ops[d].append(("T",))
            return real_turn(q)
        q._turn = logged_turn          # instance attribute: every batch that runs, by whatever route, is one model Turn

    # -- plumbing ------------------------------------------------------
    def _export(self, holder, user, target, iname=RIOrderC04.__remote_name__):
        tr = holder.getTrackerForMyReference(target.processUniqueID(), target)
        tr.send()
        return user.getTrackerForYourReference(tr.clid, iname).getRef()

    def _callables(self, d):
        def func(cid, a=None, x=None, g=None):
            return self.method_body(d, cid, g)
        return {"meth": self.targets[d].hook, "func": func}

    def _export_call(self, holder, user, fn):
        tr = holder.getTrackerForMyCall(id(fn), fn)
        tr.send()
        rr = user.getTrackerForYourReference(tr.clid, None).getRef()
        assert isinstance(rr, referenceable.RemoteMethodReference), rr
        return rr

    def _instrument(self, d):
        S, R, side = self.brokers[d], self.brokers[1 - d], self.sides[d]
        real_send = S.send

        def send(obj):
            cid = None
            if isinstance(obj, call.CallSlicer) and obj.methodname in ("m", "") and cid_of_args(obj.args, obj.kwargs) in side.meta:
                cid = cid_of_args(obj.args, obj.kwargs)
                kind, fate, stalls = side.meta[cid]
                obj.c04_kind = kind
                side.sent.append(cid)
                if obj.reqID:
                    side.reqid2cid[obj.reqID] = cid
                # issued from inside the serialization of a call of this direction (a hook is running): 5th field =
                # (that call, number of Deferreds it still has to wait for at this control point); None for ordinary code
                inside = next(((pc, left) for hd, pc, left in reversed(self.hook_ctx) if hd == d), None)
                self.cur_ops[d].append(("I", fate, stalls, side.ngifts.get(cid, 0), inside))
                obj.c04_cid = cid
            dd = real_send(obj)
            if cid is not None and not self.loopback:
                def done(res, cid=cid):
                    finished(cid)
                    return res
                dd.addBoth(done)
            return dd
        S.send = send

        def finished(cid):
            """the serialization of call cid has ended: everything written so far belongs to it or to earlier calls"""
            if cid not in side.serialized:
                side.serialized[cid] = self.tr[d].written
                side.order.append(cid)

        # the exact moment: Banana.popSlicer takes the CallSlicer off the stack and writes its CLOSE.  (The Deferred returned
        # by send() fires right afterwards, but a callback can only be added to it once send() has returned -- too late when
        # send() itself ran the producer and further calls were issued and serialized from inside it.)
        real_pop = S.popSlicer

        def popSlicer():
            top = S.slicerStack[-1][0] if S.slicerStack else None
            res = real_pop()
            cid = getattr(top, "c04_cid", None)
            if cid is not None and not self.loopback:
                finished(cid)
            return res
        S.popSlicer = popSlicer

        real_schedule = R.scheduleCall

        def scheduleCall(delivery, ready_deferred):
            self.nsched[d] += 1
            cid = self._cid_of(delivery)
            if cid is not None:
                self.events[d].append(("queued", cid))
                self.deliv[d][cid] = (delivery, ready_deferred)
            return real_schedule(delivery, ready_deferred)
        R.scheduleCall = scheduleCall

        real_failed = R.callFailed

        def callFailed(f, reqID, delivery=None):
            if delivery is not None:
                cid = self._cid_of(delivery)
                if cid is not None:
                    self.events[d].append(("failed", cid))
            return real_failed(f, reqID, delivery)
        R.callFailed = callFailed

    def _cid_of(self, delivery):
        if delivery.methodname == "m" and isinstance(delivery.obj, (Target, BareTarget)):
            return cid_of_args(delivery.allargs.args, delivery.allargs.kwargs)
        if delivery.methodname is None and any(delivery.obj is f for cs in self.callables for f in cs.values()):
            return cid_of_args(delivery.allargs.args, delivery.allargs.kwargs)
        return None

    def method_body(self, d, cid, g):
        """what every target of direction d does when it gets control: remote_m, the bound method, the function"""
        self.entered_call(d, cid)
        if g == "slow":
            # the method has been entered; its result arrives (or fails) whenever the harness says so
            dd = defer.Deferred()
            self.slow[d][cid] = dd
            return dd
        if isinstance(g, str) and g.split(":")[0] in ("raise", "fail"):
            # the method has been entered; now its body goes wrong
            how, name = g.split(":", 1)
            if how == "fail":
                try:
                    BODY_ERRORS[name]()
                except Exception:
                    return defer.fail(failure.Failure())
            BODY_ERRORS[name]()
            raise RuntimeError("BODY_ERRORS[%r] did not raise" % name)
        return cid

    def entered_call(self, d, cid):
        self.events[d].append(("entered", cid))
        for spec in self.reenter.pop((d, cid), []):
            self.issue(1 - d, spec)

    # -- script steps --------------------------------------------------
    def issue(self, d, spec):
        side = self.sides[d]
        kind = spec["kind"]
        stalls = spec.get("stalls", 0)
        if kind == "local":
            cid = -1            # refused by the caller's own schema check: never reaches the connection, takes no id
        else:
            cid = side.next_cid
            side.next_cid += 1
            side.meta[cid] = (kind, FATE.get(kind, 0), stalls)
            self.issued[d].append((cid, kind, stalls))
        kw = dict(cid=cid, a=None, x=1, g=None)
        inner = spec.get("inner") if kind != "local" else None
        if inner:
            # the model's name for the control point: how many Deferreds the call still has to wait for when the hook runs
            at = inner["at"]
            left = stalls if at in ("copy", "start", "mid") else (max(stalls - 1, 0) if at == "resume" else 0)

            def hook(calls=list(inner["calls"]), ctxt=(d, cid, left)):
                # application code that runs in the middle of this call's serialization and issues calls itself
                self.hook_ctx.append(ctxt)
                try:
                    for sp in calls:
                        self.issue(1 - d if sp.get("rev") else d, sp)
                finally:
                    self.hook_ctx.pop()
            if inner["at"] == "copy" and not stalls:
                kw["a"] = HookCopy(hook)
            else:
                kw["a"] = StallArg(side, stalls, {("start" if inner["at"] == "copy" else inner["at"]): hook})
        elif stalls:
            kw["a"] = StallArg(side, stalls)
        # a bare callable has no schema: only the kinds that do not depend on one can be addressed to it
        target = spec.get("target") if kind in ("plain", "slow", "raise", "gift", "abort") else None
        useschema = False
        if kind == "gift":
            ng = 2 if (spec.get("gifts", 1) >= 2 and not stalls and not inner) else 1
            side.ngifts[cid] = ng
            for j, slot in enumerate(("g", "a")[:ng]):
                url = gift_url(d, cid, j)
                tracker = referenceable.RemoteReferenceTracker(self.third, 1000 + cid * 4 + d * 2 + j, url, None)
                rr = referenceable.RemoteReference(tracker)
                self.keep.append(rr)
                kw[slot] = rr
                if spec.get("gift0"):
                    # the sending side plays a peer that puts giftID 0 on the wire: (their-reference 0 url)
                    side.gift0.add(cid)
                    S = self.brokers[d]
                    if not hasattr(S, "c04_gift0"):
                        S.c04_gift0 = []
                        real_make = S.makeGift
                        S.makeGift = lambda rref, S=S, real_make=real_make: 0 if any(rref is x for x in S.c04_gift0) else real_make(rref)
                    S.c04_gift0.append(rr)
        elif kind == "slow":
            kw["g"] = "slow"
        elif kind == "raise":
            kw["g"] = "%s:%s" % (spec.get("how") or "raise", spec.get("exc") or "TypeError")
        elif kind == "early":
            kw["x"] = "not-an-int"
            if spec.get("body") == "long":
                kw["x"] = "not-an-int/" * 9
            elif spec.get("body") == "echo" and not self.loopback and side.order:
                # the refused argument's body is the wire image of an earlier, complete call: if the receiver ever
                # stops discarding it half-way, the rest parses as banana tokens
                ends = sorted(side.serialized[c] for c in side.order)
                end = ends[-1]
                start = ends[-2] if len(ends) > 1 else 0
                kw["x"] = bytes(self.tr[d].log[start:end])
        elif kind == "abort":
            kw["g"] = Unserializable()
        elif kind == "late":
            del kw["x"]
        elif kind == "local":
            kw["x"] = "not-an-int"
            useschema = True
        if spec.get("reenter"):
            self.reenter[(d, cid)] = list(spec["reenter"])
        args = ()
        ref = self.rrefs[d]
        if target == "bare":
            ref, target = self.brefs[d], None
        if target:
            # RemoteMethodReference.callRemote(**kwargs): no method name, keyword arguments only
            rr = self.crefs[d][target]
            if spec.get("only"):
                rr.callRemoteOnly("", _useSchema=False, **kw)
            else:
                dd = rr.callRemote(_useSchema=False, **kw)
                dd.addBoth(lambda r, cid=cid, d=d, kind=kind: self.results[d].setdefault((cid, kind), short(r)))
            return
        if spec.get("pos") and "x" in kw:
            # the same call with positional arguments (m(cid, a, x, g)); the last one may stay a keyword
            args = (kw.pop("cid"), kw.pop("a"), kw.pop("x"))
            if spec["pos"] == "all":
                args += (kw.pop("g"),)
        if spec.get("only"):
            ref.callRemoteOnly("m", *args, _useSchema=useschema, **kw)
        else:
            dd = ref.callRemote("m", *args, _useSchema=useschema, **kw)
            dd.addBoth(lambda r, cid=cid, d=d, kind=kind: self.results[d].setdefault((cid, kind), short(r)))

    def noise(self, what):
        """unrelated traffic on foolscap.eventual's queue: a callable that does nothing, one that raises (it is only
        logged), or one that issues a call when its turn comes"""
        from foolscap.eventual import eventually
        if what == "nop":
            eventually(lambda: None)
        elif what == "raise":
            def boom():
                raise RuntimeError("unrelated eventual-send callback fails")
            eventually(boom)
        else:
            _, d, spec = what
            eventually(self.issue, d, spec)

    def release(self, d):
        side = self.sides[d]
        if side.stall is not None and not side.stall.called:
            st, side.stall = side.stall, None
            self.cur_ops[d].append(("S",))
            st.callback(None)

    def deliver(self, d, chunks, part=False):
        if self.loopback:
            return          # the eventual queue moves the bytes
        side, tr, R = self.sides[d], self.tr[d], self.brokers[1 - d]
        if self.recv_lost[d]:
            return          # a transport delivers nothing after connectionLost
        cid = None
        if side.delivered < len(side.order) and (side.cut_at is None or side.delivered < side.cut_at):
            cid = side.order[side.delivered]
            upto = side.serialized[cid]
        elif side.cut_at is not None:
            upto = tr.written       # what a dead sender had written of an unfinished call may still trickle in
        else:
            upto = tr.written
        n = upto - tr.moved
        before = len(self.events[d])
        asked = len([u for u in R.tub.pending if cid is not None and u.rsplit("/", 1)[1].split("-")[2] == str(cid)])
        i = 0
        stopped = False
        while n > 0:
            k = 1 if part else max(1, min(n, chunks[i % len(chunks)] if chunks else n))
            i += 1
            data = bytes(tr.buf[:k])
            del tr.buf[:k]
            tr.moved += k
            n -= k
            R.dataReceived(data)
            idle = len(R.receiveStack) == 1 and not R.discardCount and not R.inOpen
            self.packets[d].append((list(data), self.nsched[d], bool(idle), R.objectCounter))
            if part and n > 0 and cid is not None and \
                    len([u for u in R.tub.pending if u.rsplit("/", 1)[1].split("-")[2] == str(cid)]) > asked:
                stopped = True
                break
        if cid is not None and not stopped:
            side.delivered += 1
            self.cur_ops[d].append(("D",))
            if ("queued", cid) not in self.events[d][before:]:
                self.events[d].append(("rejected", cid))

    def early_gifts(self, d):
        """(cid, j) of unresolved third-party references of direction d whose call is still being received"""
        R = self.brokers[1 - d]
        out = []
        for url, dd in R.tub.pending.items():
            _, dn, cid, j = url.rsplit("/", 1)[1].split("-")
            if int(dn) == d and not dd.called and ("queued", int(cid)) not in self.events[d]:
                out.append((int(cid), int(j)))
        return sorted(out)

    def gift_early(self, d, j, ok):
        pend = self.early_gifts(d)
        if not pend or self.recv_lost[d]:
            return
        cid, idx = pend[j % len(pend)]
        dd = self.brokers[1 - d].tub.pending[gift_url(d, cid, idx)]
        self.cur_ops[d].append(("E", cid, ok))
        if ok:
            dd.callback("resolved-gift-%d-%d" % (cid, idx))
        else:
            dd.errback(failure.Failure(RuntimeError("gift %d/%d cannot be resolved" % (cid, idx))))

    def pending_gifts(self, d):
        """(cid, j) of the third-party references of direction d that are unresolved and whose call has been completely received"""
        R = self.brokers[1 - d]
        out = []
        for url, dd in R.tub.pending.items():
            _, dn, cid, j = url.rsplit("/", 1)[1].split("-")
            if int(dn) == d and not dd.called and ("queued", int(cid)) in self.events[d]:
                out.append((int(cid), int(j)))
        return sorted(out)

    def gift(self, d, j, ok):
        """resolve / fail the j-th (mod n) pending gift; the model has no op for a resolution that precedes the end of
        the call, so only gifts of completely received calls are eligible"""
        pend = self.pending_gifts(d)
        if not pend:
            return
        cid, idx = pend[j % len(pend)]
        dd = self.brokers[1 - d].tub.pending[gift_url(d, cid, idx)]
        self.cur_ops[d].append(("G0" if cid in self.sides[d].gift0 else "G", cid, ok))
        if ok:
            dd.callback("resolved-gift-%d-%d" % (cid, idx))
        else:
            dd.errback(failure.Failure(RuntimeError("gift %d/%d cannot be resolved" % (cid, idx))))

    def lose(self, d):
        """the receiver of direction d is told by its transport that the connection is gone"""
        from twisted.internet import error
        if self.loopback or self.recv_lost[d]:
            return
        R = self.brokers[1 - d]
        self.recv_lost[d] = True
        self.send_lost[1 - d] = True
        self.tr[1 - d].dead = True
        self.sides[1 - d].cut_at = len(self.sides[1 - d].order)
        self.cur_ops[1 - d].append(("C",))
        self.cur_ops[d].append(("X",))
        self.events[d].append(("lost", -1))
        R.connectionLost(failure.Failure(error.ConnectionLost()))

    def finish(self, d, j, ok):
        """the j-th (mod n) method that was entered earlier and returned a Deferred now completes / fails.  Not a model
        op: on the receiver a result or a late failure only produces an answer, it must not touch the call queue"""
        pend = sorted(c for c, dd in self.slow[d].items() if not dd.called)
        if not pend:
            return
        cid = pend[j % len(pend)]
        if ok:
            self.slow[d][cid].callback(cid)
        else:
            self.slow[d][cid].errback(failure.Failure(RuntimeError("method of call %d failed late" % cid)))

    def turn(self):
        if not turn_pending():
            for d in (0, 1):
                self.cur_ops[d].append(("T",))      # a turn of an empty queue: nothing runs (the model agrees)
        one_turn()

    def advance(self, secs):
        """virtual time passes: timers that are due fire (on the reference tree no timer takes part in call delivery)"""
        E.clock.advance(secs)

    # -- observation ---------------------------------------------------
    def observe(self, d):
        """abstract state of direction d as the real objects hold it"""
        S, R, side = self.brokers[d], self.brokers[1 - d], self.sides[d]

        def tracked(o):
            return isinstance(o, call.CallSlicer) and o.methodname in ("m", "") and cid_of_args(o.args, o.kwargs) in side.meta
        sendq = [cid_of_args(o.args, o.kwargs) for (o, _) in S.rootSlicer.sendQueue if tracked(o)]
        cur = None
        if len(S.slicerStack) > 1 and tracked(S.slicerStack[1][0]):
            cur = cid_of_args(S.slicerStack[1][0].args, S.slicerStack[1][0].kwargs)
        wire = side.order[side.delivered:]
        inq = []
        for item in R.inboundDeliveryQueue:
            dl = item[0] if isinstance(item, tuple) and item and hasattr(item[0], "methodname") else None
            c = self._cid_of(dl) if dl is not None else -1          # -1: an entry this harness cannot read
            if c is not None:
                inq.append(c)
        waiting = bool(R._waiting_for_call_to_be_ready)
        ent = [c for (e, c) in self.events[d] if e == "entered"]
        # deliveries that are not ready: the one popped by doNextCall (if any), then the queued ones, with the counters of
        # their Deferred network (ArgumentUnslicer.num_unreferenceable_children, the call's AsyncAND, unresolved gifts)
        done = set(c for (e, c) in self.events[d] if e in ("entered", "failed"))
        left = {}
        for (c, j) in self.pending_gifts(d):
            left[c] = left.get(c, 0) + 1
        held = [c for c in self.deliv[d] if c not in done and c not in inq] if waiting else []
        pend = []
        for c in held[:1] + [c for c in inq if c in self.deliv[d] and self.deliv[d][c][1] is not None and not self.deliv[d][c][1].called]:
            dl, rd = self.deliv[d][c]
            pend.append((c, ((dl.allargs.num_unreferenceable_children, getattr(rd, "remaining", -1)),
                             (bool(getattr(rd, "_fired", None)), left.get(c, 0)))))
        return dict(sendq=sendq, cur=cur, wire=list(wire), inq=inq, waiting=waiting, entered=ent,
                    lost=bool(R.disconnected), pend=pend)

    def end_step(self):
        obs = []
        for d in (0, 1):
            self.ops[d].append(self.cur_ops[d])
            self.cur_ops[d] = []
            obs.append(self.observe(d))
        return obs

    def quiesce(self, limit=10000):
        """release every stall, deliver everything, resolve every gift, run turns until nothing moves"""
        for i in range(limit):
            moved = False
            for d in (0, 1):
                side = self.sides[d]
                if side.stall is not None and not side.stall.called:
                    self.release(d)
                    moved = True
                if not self.loopback and not self.recv_lost[d] and self.tr[d].written > self.tr[d].moved:
                    self.deliver(d, None)
                    moved = True
                if self.pending_gifts(d):
                    self.gift(d, 0, True)
                    moved = True
                if self.early_gifts(d) and not self.recv_lost[d]:
                    self.gift_early(d, 0, True)
                    moved = True
                if any(not dd.called for dd in self.slow[d].values()):
                    self.finish(d, 0, True)
                    moved = True
            if turn_pending():
                self.turn()
                moved = True
            if not moved:
                return
        raise RuntimeError("no quiescence")


def settle_gc():
    """collect cyclic garbage at a quiescent point and throw away whatever its finalizers scheduled (a RemoteReference
    that dies sends `decref` through the module-level eventual queue); automatic collection is switched off by the
    check so that no finalizer runs in the middle of a scenario"""
    with E.quiet():
        gc.collect(1)      # the young generations hold everything the last scenarios created (automatic GC is off)
        E.reset_clock()


def cid_of_args(args, kwargs):
    if "cid" in kwargs:
        return kwargs["cid"]
    return args[0] if args and isinstance(args[0], int) else None


def turn_pending():
    q = E.ev._theSimpleQueue
    return q._timer is not None and q._timer.active()


def one_turn():
    """exactly one batch of foolscap's eventual-send queue (task.Clock.advance(0) would also run the batches that
    are scheduled meanwhile; a real reactor runs those in later iterations, with I/O in between)"""
    q = E.ev._theSimpleQueue
    if turn_pending():
        q._timer.cancel()
        q._turn()


THIRD_TUBID = "t" * 32


def gift_url(d, cid, j=0):
    return "pb://%s@fake:1/gift-%d-%d-%d" % (THIRD_TUBID, d, cid, j)


def short(r):
    if isinstance(r, failure.Failure):
        return "exc:" + r.type.__name__
    return r


def run_scenario(script, final_quiesce=True, loopback=False, knobs=None):
    """-> dict(obs=[per step: [obs dir0, obs dir1]], ops=[per dir: per step: [op...]], events, issued, results, errors)"""
    with E.quiet():
        w = World(loopback=loopback, knobs=knobs)
        obs = []
        for st in script:
            if st[0] == "issue":
                w.issue(st[1], st[2])
            elif st[0] == "release":
                w.release(st[1])
            elif st[0] == "deliver":
                w.deliver(st[1], st[2])
            elif st[0] == "gift":
                w.gift(st[1], st[2], st[3])
            elif st[0] == "turn":
                w.turn()
            elif st[0] == "finish":
                w.finish(st[1], st[2], st[3])
            elif st[0] == "noise":
                w.noise(st[1])
            elif st[0] == "lose":
                w.lose(st[1])
            elif st[0] == "advance":
                w.advance(st[1])
            elif st[0] == "deliver_part":
                w.deliver(st[1], None, part=True)
            elif st[0] == "gift_early":
                w.gift_early(st[1], st[2], st[3])
            else:
                raise ValueError(st)
            obs.append(w.end_step())
        nsteps = len(obs)
        if final_quiesce:
            w.quiesce()
            obs.append(w.end_step())
        lost = [(not b.transport.connected) if loopback else b.transport.lost for b in w.brokers]
        E.ev._theSimpleQueue.__dict__.pop("_turn", None)
    return dict(obs=obs, ops=w.ops, events=w.events, issued=w.issued, results=w.results, errors=w.errors,
                nsteps=nsteps, lost=lost, sent=[w.sides[0].sent, w.sides[1].sent], send_lost=w.send_lost, recv_lost=w.recv_lost,
                packets=w.packets, gift0=[sorted(w.sides[0].gift0), sorted(w.sides[1].gift0)])


class LocalTarget(Referenceable):
    def __init__(self):
        self.entered = []

    def remote_m(self, i):
        self.entered.append(i)


def run_local(ops, mode="local"):
    """the eventual queue as a channel.  'I' writes the next item -- mode "local": LocalReferenceable.callRemote,
    mode "loopback": broker.LoopbackTransport.write of one byte --, 'N' queues an unrelated callable, 'B' one that
    raises, 'S' one that writes the next item when it runs, 'T' runs one batch.  -> items in the order delivered"""
    from foolscap.referenceable import LocalReferenceable
    from foolscap.eventual import eventually
    with E.quiet():
        E.reset_clock()
        got = []
        n = [0]
        if mode == "local":
            t = LocalTarget()
            t.entered = got
            lr = LocalReferenceable(t)

            def write():
                lr.callRemote("m", n[0])
                n[0] += 1
        else:
            class Sink:
                def dataReceived(self, data):
                    got.extend(bytearray(data))
            t0, t1 = broker.LoopbackTransport(), broker.LoopbackTransport()
            t0.setPeer(t1)
            t1.setPeer(t0)
            t1.protocol = Sink()

            def write():
                t0.write(bytes(bytearray([n[0]])))
                n[0] += 1

        def boom():
            raise RuntimeError("unrelated eventual-send callback fails")
        for o in ops:
            if o == "I":
                write()
            elif o == "N":
                eventually(lambda: None)
            elif o == "B":
                eventually(boom)
            elif o == "S":
                eventually(write)
            else:
                one_turn()
        return list(got)


# ---------------------------------------------------------------------------------------------------------------
# calls addressed to the peer's Broker object itself (RemoteReference `remote_broker`, clid 0), mixed with application
# calls on the same connection.  decref / decgift / getReferenceByName are remote methods like any other: what the
# sender issues -- by callRemote or callRemoteOnly, directly or through the library's own routes (Broker.freeYourReference,
# TheirReferenceUnslicer.ackGift) -- must be entered on the receiver in the order issued, whether the sender is idle or
# paused in the middle of a streaming argument.
BROKER_CALL_OPS = {
    "m": "m",                   # application callRemote("m")
    "o": "m",                   # application callRemoteOnly("m")
    "s": "m",                   # application callRemote("m") whose argument pauses once on a Deferred
    "S": "m",                   # application callRemoteOnly("m") whose argument pauses twice
    "d": "decref",              # remote_broker.callRemoteOnly("decref")
    "c": "decref",              # remote_broker.callRemote("decref")
    "f": "decref",              # Broker.freeYourReference (what a dying RemoteReference does)
    "g": "decgift",             # remote_broker.callRemoteOnly("decgift")
    "a": "decgift",             # TheirReferenceUnslicer.ackGift (what the receiver of a gift does)
    "n": "getReferenceByName",  # remote_broker.callRemote("getReferenceByName")
}


class _FakeYourTracker:
    url = None
    received_count = 0

    def __init__(self, clid):
        self.clid = clid


def run_broker_calls(ops, d=0, chunks=None):
    """ops: list of BROKER_CALL_OPS keys (each issues call number 0, 1, 2, ... of direction d) and of the steps "R" (fire
    the Deferred the sender is paused on), "D" (move all bytes written so far, both ways, cut by `chunks`), "T" (one
    turn of the eventual queue).  Entry into the application method AND into the receiving Broker's own remote_decref /
    remote_decgift / remote_getReferenceByName goes into ONE log.  -> dict(issued=[(cid, method)], entered=[(cid, method)]
    before the final quiescence, final=[...] after it, results={cid: answer})"""
    with E.quiet():
        E.reset_clock()
        virtualize_reactors()
        brokers = [broker.Broker(TubRef("brokerA")), broker.Broker(TubRef("brokerB"))]
        tr = [QTransport(), QTransport()]
        for b, t in zip(brokers, tr):
            b.transport = t
            b.tub = FakeTub()
            b.connectionMade()
        S, R = brokers[d], brokers[1 - d]
        entered, issued, results = [], [], {}

        class T(Referenceable):
            def remote_m(self, cid, a=None):
                entered.append((cid, "m"))
                return cid
        target = T()
        trk = R.getTrackerForMyReference(target.processUniqueID(), target)
        trk.send()
        rr = S.getTrackerForYourReference(trk.clid, None).getRef()
        real_decref, real_decgift = R.remote_decref, R.remote_decgift

        def remote_decref(clid, count):
            entered.append((clid - 1000, "decref"))
            return real_decref(clid, count)

        def remote_decgift(giftID, count):
            entered.append((giftID - 1000, "decgift"))
            return real_decgift(giftID, count)

        def remote_getReferenceByName(name):
            name = name.decode() if isinstance(name, bytes) else name
            cid = int(name.rsplit("-", 1)[1])
            entered.append((cid, "getReferenceByName"))
            return cid
        R.remote_decref, R.remote_decgift, R.remote_getReferenceByName = remote_decref, remote_decgift, remote_getReferenceByName
        side = Side()
        rb = S.remote_broker

        def keep(dd, cid):
            dd.addBoth(lambda r: results.setdefault(cid, short(r)))

        def move():
            moved = False
            for i in (0, 1):
                t, dst = tr[i], brokers[1 - i]
                j = 0
                while t.buf:
                    k = max(1, chunks[j % len(chunks)]) if chunks else len(t.buf)
                    j += 1
                    data = bytes(t.buf[:k])
                    del t.buf[:k]
                    t.moved += len(data)
                    dst.dataReceived(data)
                    moved = True
            return moved

        def release():
            if side.stall is not None and not side.stall.called:
                st, side.stall = side.stall, None
                st.callback(None)
                return True
            return False
        for o in ops:
            if o == "R":
                release()
                continue
            if o == "D":
                move()
                continue
            if o == "T":
                one_turn()
                continue
            cid = len(issued)
            issued.append((cid, BROKER_CALL_OPS[o]))
            if o == "m":
                keep(rr.callRemote("m", cid=cid), cid)
            elif o == "o":
                rr.callRemoteOnly("m", cid=cid)
            elif o == "s":
                keep(rr.callRemote("m", cid=cid, a=StallArg(side, 1)), cid)
            elif o == "S":
                rr.callRemoteOnly("m", cid=cid, a=StallArg(side, 2))
            elif o == "d":
                rb.callRemoteOnly("decref", clid=1000 + cid, count=1)
            elif o == "c":
                keep(rb.callRemote("decref", clid=1000 + cid, count=1), cid)
            elif o == "f":
                S.freeYourReference(_FakeYourTracker(1000 + cid), 1)
            elif o in ("g", "a"):
                # the receiver really holds that gift, so the real remote_decgift has something to release
                R.myGiftsByGiftID[1000 + cid] = ("c04", 1000 + cid)
                R.myGifts[("c04", 1000 + cid)] = (None, 1000 + cid, 1)
                if o == "g":
                    rb.callRemoteOnly("decgift", giftID=1000 + cid, count=1)
                else:
                    u = referenceable.TheirReferenceUnslicer()
                    u.broker = S
                    u.giftID = 1000 + cid
                    u.ackGift(None)
            elif o == "n":
                keep(rb.callRemote("getReferenceByName", name=b"c04-%d" % cid), cid)
            else:
                raise ValueError(o)
        before = list(entered)
        for i in range(10000):
            mv = release()
            mv = move() or mv
            if turn_pending():
                one_turn()
                mv = True
            if not mv:
                break
        else:
            raise RuntimeError("no quiescence")
        return dict(issued=issued, entered=before, final=list(entered), results=dict(results),
                    gifts_left=sorted(g - 1000 for g in R.myGiftsByGiftID if isinstance(g, int) and g >= 1000),
                    lost=[t.lost for t in tr])


# ---------------------------------------------------------------------------------------------------------------
# real Tubs on the in-memory network: A calls B; some calls carry a reference to an object of a third Tub C, which B
# has to resolve with the real Tub.getReference (connection to C, negotiation, getReferenceByName) while later calls
# keep arriving.  Every byte / FIN is moved by the seeded scheduler in pieces of random size.

class NetTarget(Referenceable):
    def __init__(self):
        self.entered = []
        self.gifts = []

    def remote_m(self, cid, a=None, g=None):
        self.entered.append(cid)
        if g is not None:
            self.gifts.append((cid, type(g).__name__))
        return cid


class Other(Referenceable):
    def remote_hello(self):
        return "c"


def run_tubs(plan, rng, chunk_sizes, c_reachable=True):
    """plan: list of 'p' (plain) | 'g' (gift) | 's' (streaming argument, released later).  Returns
    dict(entered, results, steps)"""
    with E.quiet():
        E.reset_clock()
        net = E.Net()
        pems = E.pems_sorted(3)
        A = E.make_tub(net, "a", pems[0][1])
        B = E.make_tub(net, "b", pems[1][1])
        C = E.make_tub(net, "c", pems[2][1])
        tb, tc = NetTarget(), Other()
        fb = B.registerReference(tb)
        fc = C.registerReference(tc)
        got = {}
        A.getReference(fb).addBoth(lambda r: got.setdefault("b", r))
        A.getReference(fc).addBoth(lambda r: got.setdefault("c", r))
        E.turn()
        net.run(rng)
        rb, rc = got.get("b"), got.get("c")
        if isinstance(rb, failure.Failure) or isinstance(rc, failure.Failure) or rb is None or rc is None:
            return dict(setup_failed=repr((rb, rc)))
        if not c_reachable:
            # C goes away before B tries to resolve the gift: the gift call must fail, later calls must still run in order
            C.stopService()
            E.turn()
            net.run(rng)
        side = Side()
        results = {}
        for cid, k in enumerate(plan):
            kw = dict(cid=cid)
            if k == "g":
                kw["g"] = rc
            elif k == "s":
                kw["a"] = StallArg(side, 1)
            rb.callRemote("m", **kw).addBoth(lambda r, cid=cid: results.setdefault(cid, short(r)))
        chunk = (lambda r: r.choice(chunk_sizes)) if chunk_sizes else None
        steps = 0
        for _ in range(200000):
            c = net.deliverable()
            if not c:
                if side.stall is not None and not side.stall.called:
                    st, side.stall = side.stall, None
                    st.callback(None)
                    E.turn()
                    continue
                break
            if side.stall is not None and not side.stall.called and rng.random() < 0.05:
                st, side.stall = side.stall, None
                st.callback(None)
                E.turn()
            net.step(rng.choice(c), chunk(rng) if chunk else None)
            steps += 1
        out = dict(entered=list(tb.entered), results=results, steps=steps, gifts=list(tb.gifts))
        # tear down: nothing of this run may fire into the next one
        for t in (A, B, C):
            try:
                t.stopService()
            except Exception:
                pass
        E.turn()
        try:
            net.run(rng, maxsteps=5000)
        except RuntimeError:
            pass
        del got, rb, rc, A, B, C, net, tb, tc
        settle_gc()
        return out


def run_async_and(n, results):
    """the real util.AsyncAND over n Deferreds that fire in order with `results` (True: callback, False: errback)
    -> [remaining, _fired, outcome] with outcome 1 (callback) / 0 (errback) / 2 (not fired), after every firing"""
    from foolscap.util import AsyncAND
    with E.quiet():
        ds = [defer.Deferred() for _ in range(n)]
        a = AsyncAND(ds)
        out = []
        a.addCallbacks(lambda r: out.append(1), lambda f: out.append(0))
        trace = []
        for d, ok in zip(ds, results):
            if ok:
                d.callback(None)
            else:
                d.errback(failure.Failure(RuntimeError("component fails")))
                d.addErrback(lambda f: None)
            trace.append([a.remaining, bool(a._fired), out[0] if out else 2, len(out)])
        return trace


# ---------------------------------------------------------------------------------------------------------------
# unit-level measurements of the queue disciplines that translate/g_order.py reads from the AST

def measure_disciplines(n):
    """-> dict(sendq_layout, sendq_drain, idle_wakes, busy_wakes, evq_batch1, evq_batch2, inq_layout, inq_first)"""
    from foolscap.slicers.root import RootSlicer
    from foolscap import eventual

    class FakeProto:
        debugSend = False

        def __init__(self, depth):
            self.slicerStack = [None] * depth
    out = {}
    with E.quiet():
        E.reset_clock()
        rs = RootSlicer(FakeProto(2))                  # something is being serialized: send() only enqueues
        for i in range(n):
            rs.send(i)
        out["sendq_layout"] = [o for o, _ in rs.sendQueue]
        got = []
        for i in range(n):
            got.append(next(rs))
        out["sendq_drain"] = got
        woke = []
        for depth, key in ((1, "idle_wakes"), (2, "busy_wakes")):
            rs = RootSlicer(FakeProto(depth))
            rs.producingDeferred = defer.Deferred()
            rs.producingDeferred.addCallback(lambda r, key=key: woke.append(key))
            rs.send("x")
        out["idle_wakes"] = "idle_wakes" in woke
        out["busy_wakes"] = "busy_wakes" in woke
        q = eventual._SimpleCallQueue()
        ran = []

        def thunk(j):
            ran.append(j)
            if j < 100:
                q.append(thunk, (100 + j,), {})
        for i in range(n):
            q.append(thunk, (i,), {})
        q._turn()
        out["evq_batch1"] = list(ran)
        del ran[:]
        q._turn()
        out["evq_batch2"] = list(ran)
        if q._timer is not None and q._timer.active():
            q._timer.cancel()
        # Broker inbound queue: deliveries that are never ready
        b = broker.Broker(TubRef("unit"))
        b.transport = QTransport()
        b.connectionMade()

        class D:
            def __init__(self, i):
                self.i = i
                self.reqID = 0
        for i in range(n):
            b.scheduleCall(D(i), defer.Deferred())
        out["inq_layout"] = [d.i for d, _ in b.inboundDeliveryQueue]
        taken = []
        real = b.inboundDeliveryQueue
        b.doNextCall()
        out["inq_first"] = [d.i for d, _ in b.inboundDeliveryQueue]
        b.doNextCall()      # blocked behind the first one
        out["inq_second"] = [d.i for d, _ in b.inboundDeliveryQueue]
        E.reset_clock()
    return out


# ---------------------------------------------------------------------------------------------------------------
# connections that START with a real negotiation.  Two real Tubs on the in-memory network; the side that sends the
# decision block (the master) starts calling the moment its Broker is attached, so its first calls follow the decision
# block on the wire without a gap.  The harness then cuts that byte stream wherever it likes and hands several pieces to
# the receiving side back to back, i.e. before foolscap's eventual queue runs (two TLS records in one TCP segment).

START_CLID = 7777      # far away from the ids the Broker hands out itself (count(1))


def _broker_class_for(target):
    """a Broker that already exports `target` as clid 1 (so that the peer can call it at once); handed to the Tub
    through its public class attribute `brokerClass`"""
    class StartBroker(broker.Broker):
        def initBroker(self):
            broker.Broker.initBroker(self)
            t = referenceable.ReferenceableTracker(None, target, id(target), START_CLID)
            t.send()
            self.myReferenceByPUID[id(target)] = t
            self.myReferenceByCLID[START_CLID] = t
    return StartBroker


class StartTarget(Referenceable):
    def __init__(self):
        self.entered = []

    def remote_m(self, cid, pad=None):
        self.entered.append(cid)
        return cid


def run_negotiated(master_is_client, n_first, n_later, cuts, burst, seed, pad=0, slave_calls=0):
    """-> dict(entered (on the non-master side), results, lost, stream_len, decision_len, ...).
    cuts: offsets into the master's byte stream [decision block + first calls] at which it is cut into packets;
    burst: how many of those packets are handed over back to back before the eventual queue gets a turn"""
    import random as _random
    rng = _random.Random(seed)
    with E.quiet():
        E.reset_clock()
        net = E.Net()
        pems = E.pems_sorted(2)
        tm, ts = StartTarget(), StartTarget()        # tm lives on the master, ts on the other side
        M = E.make_tub(net, "m", pems[1][1])      # higher tubID: sends the decision
        S = E.make_tub(net, "s", pems[0][1])
        M.brokerClass = _broker_class_for(tm)
        S.brokerClass = _broker_class_for(ts)
        results = {}
        state = dict(attached=False, n=0, rref=None, slave_n=0)

        def issue_from_master(k):
            for _ in range(k):
                cid = state["n"]
                state["n"] += 1
                kw = dict(cid=cid)
                if pad:
                    kw["pad"] = "x" * pad
                if cid % 3 == 2:
                    state["rref"].callRemoteOnly("m", **kw)
                else:
                    state["rref"].callRemote("m", **kw).addBoth(lambda r, cid=cid: results.setdefault(cid, short(r)))

        real_attached = M.brokerAttached

        def attached(tubref, b, isClient):
            real_attached(tubref, b, isClient)
            if not state["attached"]:
                state["attached"] = True
                state["rref"] = b.getTrackerForYourReference(START_CLID, None).getRef()
                issue_from_master(n_first)
        M.brokerAttached = attached
        real_attached_s = S.brokerAttached
        sres = {}

        def attached_s(tubref, b, isClient):
            real_attached_s(tubref, b, isClient)
            rr = b.getTrackerForYourReference(START_CLID, None).getRef()
            for i in range(slave_calls):
                rr.callRemote("m", cid=i).addBoth(lambda r, i=i: sres.setdefault(i, short(r)))
        S.brokerAttached = attached_s
        anchor = Referenceable()
        got = []
        if master_is_client:
            M.getReference(S.registerReference(anchor)).addBoth(got.append)
        else:
            S.getReference(M.registerReference(anchor)).addBoth(got.append)
        E.turn()
        # ordinary delivery until the master has decided
        for _ in range(10000):
            if state["attached"]:
                break
            c = net.deliverable()
            if not c:
                break
            net.step(rng.choice(c))
        out = dict(master_attached=state["attached"])
        if not state["attached"]:
            return out
        # the master's stream: decision block followed by its first calls
        where = None
        for l in net.links:
            for side in (0, 1):
                data = [x for x in l.q[side] if x is not None]
                if any(b"banana-decision-version" in x for x in data):
                    where = (l, side)
        if where is None:
            out["no_decision_found"] = True
            return out
        l, side = where
        pending = l.q[side]
        k = 0
        while k < len(pending) and pending[k] is not None:
            k += 1
        stream = b"".join(pending[:k])
        del pending[:k]
        dec_at = stream.index(b"banana-decision-version")
        dec_end = stream.index(b"\r\n\r\n", dec_at) + 4
        out["stream_len"], out["decision_len"] = len(stream), dec_end
        offs = sorted(set(o for o in cuts if 0 < o < len(stream)))
        pieces = [stream[a:b] for a, b in zip([0] + offs, offs + [len(stream)])]
        dst = l.ends[1 - side]
        i = 0
        while i < len(pieces):
            for p in pieces[i:i + burst]:
                if not dst.closed and not dst.lost:
                    dst.protocol.dataReceived(p)       # back to back: no eventual turn in between
            i += burst
            one_turn() if rng.random() < 0.5 else E.turn()
        E.turn()
        net.run(rng, chunk=(lambda r: r.choice((1, 3, 7, 50, 1000))))
        if n_later and state["rref"] is not None:
            issue_from_master(n_later)
            E.turn()
            net.run(rng, chunk=(lambda r: r.choice((1, 3, 7, 50, 1000))))
        out.update(entered=list(ts.entered), results=results, issued=state["n"], slave_entered=list(tm.entered),
                   slave_results=sres, lost=[e.lost or e.closed for e in l.ends], got=[short(x) if isinstance(x, failure.Failure) else "ref" for x in got])
        for t in (M, S):
            try:
                t.stopService()
            except Exception:
                pass
        E.turn()
        try:
            net.run(rng, maxsteps=5000)
        except RuntimeError:
            pass
        del M, S, net
        settle_gc()
        return out
