"""C10: drives batches of concurrent calls, one of them faulty, over a real Broker pair (loopback transports,
virtual clock); records the outcome of every call, the bytes each side wrote, and the state of the connection."""
import gc, re
from twisted.python import failure, reflect
from harness import implenv as E
from harness.implenv import quiet, Referenceable
from foolscap import broker, call, slicer, tokens, schema
from foolscap.api import RemoteInterface
from foolscap.tokens import Violation, RemoteException
from foolscap.schema import ListOf, DictOf, TupleOf, SetOf, ChoiceOf
from foolscap.constraint import Optional


# ------------------------------------------------------------------ exception classes raised by the remote method
class MyError(LookupError):
    pass


class MyDeepError(MyError):
    pass


class CaféError(ValueError):
    pass


class BadStrError(Exception):
    """an exception whose __str__ raises"""

    def __str__(self):
        raise RuntimeError("no str for you")


class BadReprError(Exception):
    """__repr__ raises; str() of an Exception with one argument does not use it, anything that formats with %r does"""

    def __repr__(self):
        raise RuntimeError("no repr for you")


class NonStrError(Exception):
    """__str__ returns something that is not a string: str() raises TypeError"""

    def __str__(self):
        return None


class BadArgError(Exception):
    """str() renders the single argument with its __str__, which raises"""

    def __init__(self, msg):
        Exception.__init__(self, _Unprintable())


class _Unprintable(object):
    def __str__(self):
        raise ValueError("cannot print")
    __repr__ = __str__


class FormatError(Exception):
    """an application exception that formats its fields with %d and was constructed with None"""

    def __init__(self, msg):
        Exception.__init__(self, msg)
        self.limit = None

    def __str__(self):
        return "quota of %d bytes exceeded" % self.limit


UNRENDERABLE = ("BadStrError", "BadReprError", "NonStrError", "BadArgError", "FormatError")

LongNameError = type("L" + "o" * 230 + "ngError", (RuntimeError,), {"__module__": __name__})

# classes whose BARE name is shared by a class of another module (the caller must still tell them apart)
import twisted.internet.error as _twerr
RejectedA = type("Rejected", (Exception,), {"__module__": "appalpha.errors"})
RejectedB = type("Rejected", (LookupError,), {"__module__": "appbeta.errors"})
RejectedC = type("Rejected", (RejectedB,), {"__module__": "appbeta.sub.errors"})
HomonymValueError = type("ValueError", (Exception,), {"__module__": "appalpha.errors"})
HOMONYMS = {"Rejected@alpha": RejectedA, "Rejected@beta": RejectedB, "Rejected@beta.sub": RejectedC,
            "TimeoutError@builtins": TimeoutError, "TimeoutError@twisted": _twerr.TimeoutError,
            "ConnectionRefusedError@builtins": ConnectionRefusedError, "ConnectionRefusedError@twisted": _twerr.ConnectionRefusedError,
            "ValueError@alpha": HomonymValueError}

EXC_CLASSES = {"ValueError": ValueError, "KeyError": KeyError, "ZeroDivisionError": ZeroDivisionError,
               "MyError": MyError, "MyDeepError": MyDeepError, "CafeError": CaféError, "LongNameError": LongNameError,
               "AssertionError": AssertionError, "OSError": OSError, "BadStrError": BadStrError, "BadReprError": BadReprError,
               "NonStrError": NonStrError, "BadArgError": BadArgError, "FormatError": FormatError}
EXC_CLASSES.update(HOMONYMS)

# exception classes that reflect.qual cannot NAME: qual is `clazz.__module__ + "." + clazz.__name__`, a TypeError when __module__ is
# not a string.  NoModError: the class itself has none (FailureSlicer's reflect.qual(obj.type) raises); NoModBaseError: the class has
# a module, one of its ancestors does not (obj.parents -- reflect.qual over the MRO -- raises).  lib/Failure.v: nameable = false
NoModError = type("NoModError", (Exception,), {"__module__": None})
NoModBaseError = type("NoModBaseError", (NoModError,), {"__module__": __name__})
UNNAMEABLE = {"NoModError": NoModError, "NoModBaseError": NoModBaseError}
EXC_CLASSES.update(UNNAMEABLE)


# exception classes with a LONG ancestry ("exceptions of any class"): layered hierarchies (each layer derives from the one below,
# rooted in the application's base error) and one class with many mixins.  The key says how long the MRO is (= len(Failure.parents),
# most derived class first, the root-most classes -- what callers trap on -- last)
class AppBaseError(Exception):
    """root of an application's hierarchy: what its callers trap"""


def _layered(mro_len):
    c = AppBaseError                      # MRO: AppBaseError, Exception, BaseException, object
    for i in range(1, mro_len - 4 + 1):
        c = type("Layer%dOf%dError" % (i, mro_len), (c,), {"__module__": __name__})
    return c


def _mixed(n_mixins):
    mix = [type("Mixin%d" % i, (object,), {"__module__": __name__}) for i in range(n_mixins)]
    return type("MixedError", tuple(mix) + (AppBaseError,), {"__module__": __name__})


DEEP_MRO = (29, 30, 31, 32, 33, 35, 64, 65, 129, 257)       # around the customary list limits (30; 64 / 128 / 256)
DEEP_CLASSES = dict(("Mro%d" % n, _layered(n)) for n in DEEP_MRO)
DEEP_CLASSES["Mixins45"] = _mixed(40)                       # MRO: the class, 40 mixins, AppBaseError, Exception, BaseException, object
EXC_CLASSES.update(DEEP_CLASSES)
# foolscap's own exception classes, raised by the application code of the callee (or relayed through a middle party)
from foolscap.tokens import BananaError as _BananaError, NegotiationError as _NegotiationError
from foolscap.ipb import DeadReferenceError as _DeadReferenceError
OWN_CLASSES = {"foolscap:RemoteException": RemoteException, "foolscap:Violation": Violation, "foolscap:BananaError": _BananaError,
               "foolscap:DeadReferenceError": _DeadReferenceError, "foolscap:NegotiationError": _NegotiationError}
EXC_CLASSES.update(OWN_CLASSES)


class Unsendable(object):
    """no ISlicer adapter: RootSlicer.slicerForObject raises Violation"""


class RaisingSlicer(slicer.BaseSlicer):
    """a slicer whose body raises Violation from next(), after `n` tokens"""
    opentype = ('list',)

    def __init__(self, n):
        self.n = n

    def sliceBody(self, streamable, banana):
        for i in range(self.n):
            yield i
        raise Violation("refusing to go on")


class RIThing(RemoteInterface):
    def ints(a=ListOf(int)):
        return int

    def nested(a=ListOf(ListOf(ListOf(int)))):
        return int

    def wrongresult(a=int):
        return int

    def multi(a=ListOf(int), b=ListOf(int), c=ListOf(int)):
        return int

    def tboom(a=int):
        return int


# ------------------------------------------------------------------ ChoiceOf with a STRICT alternative (round 7)
# str / bool / None constraints have strictTaster = True: used on their own they call a primitive token of the wrong type a protocol
# error (BananaError: connection dropped -- C02's known finding oracle/strict-taster-drops-connection, deliberate design).  Inside a
# ChoiceOf, PolyConstraint.checkToken asks every alternative and turns "nobody wants it" into a Violation: an ill-typed primitive
# for such a parameter is a per-call fault.  name -> (constraint, how the value is wrapped to reach the ChoiceOf, primitive kinds it
# accepts).  (Values sent as OPEN sequences -- str, bool, list ... -- under a ChoiceOf hit <X>Unslicer.setConstraint's assertion:
# C12's known finding oracle/choiceof-container-drops-connection; they are not generated here.)
CHOICE_SHAPES = [
    ("bytes|None", ChoiceOf(bytes, None), None, ("bytes", "none")),
    ("None|bytes", ChoiceOf(None, bytes), None, ("bytes", "none")),
    ("str|int", ChoiceOf(str, int), None, ("int", "neg", "longint", "longneg")),
    ("bool|bytes", ChoiceOf(bool, bytes), None, ("bytes",)),
    ("None|list", ChoiceOf(None, ListOf(int)), None, ("none",)),
    ("str|None|bool", ChoiceOf(str, None, bool), None, ("none",)),
    ("(str|None)|bytes", ChoiceOf(ChoiceOf(str, None), bytes), None, ("bytes", "none")),
    ("optional str|None", Optional(ChoiceOf(str, None), None), None, ("none",)),
    ("list of str|None", ListOf(ChoiceOf(str, None)), "list", ("none",)),
    ("dict bytes->bool|None", DictOf(bytes, ChoiceOf(bool, None)), "dict", ("none",)),
    ("tuple int,None|str", TupleOf(int, ChoiceOf(None, str)), "tuple", ("none",)),
    ("set of str|None", SetOf(ChoiceOf(str, None)), "set", ("none",)),
    ("list of list of None|bytes", ListOf(ListOf(ChoiceOf(None, bytes))), "list2", ("bytes", "none")),
    ("float|None|bool", ChoiceOf(float, None, bool), None, ("int", "neg", "float", "longint", "longneg", "none")),
    # control: no strict alternative
    ("bytes|int", ChoiceOf(bytes, int), None, ("bytes", "int", "neg", "longint", "longneg")),
]
CHOICE_INDEX = {name: i for i, (name, c, w, acc) in enumerate(CHOICE_SHAPES)}
CHOICE_TOKENS = {"int": 5, "neg": -5, "float": 1.5, "bytes": b"xy", "longint": 2 ** 70, "longneg": -2 ** 70, "none": None}


def choice_constraint(shape):
    return CHOICE_SHAPES[CHOICE_INDEX[shape]][1]


def choice_accepts(shape):
    return CHOICE_SHAPES[CHOICE_INDEX[shape]][3]


def choice_arg(spec):
    """the value of token kind spec['tok'] at the place of the ChoiceOf inside shape spec['shape']"""
    v = CHOICE_TOKENS[spec["tok"]]
    w = CHOICE_SHAPES[CHOICE_INDEX[spec["shape"]]][2]
    return {None: lambda: v, "list": lambda: [None, v], "list2": lambda: [[], [None, v]], "dict": lambda: {b"j": None, b"k": v},
            "tuple": lambda: (1, v), "set": lambda: set([v])}[w]()


def _choice_method(c):
    def m(a=c):
        return int
    return m


RIShapes = type(RemoteInterface)("RIShapes", (RemoteInterface,), dict(
    [("c%d" % i, _choice_method(c)) for i, (name, c, w, acc) in enumerate(CHOICE_SHAPES)] + [("__remote_name__", "RIC10Shapes.verif")]))


EXECUTED = []      # names of the remote methods that really ran on the callee B, in order (reset per batch)
FAR_EXECUTED = []  # ... on the third party C


class Plain(Referenceable):
    log = EXECUTED                    # the far party C gets its own list

    def _ran(self, name):
        self.log.append(name)

    def remote_echo(self, x):
        self._ran("echo")
        return x

    def remote_add(self, a, b=0):
        self._ran("add")
        return a + b

    def remote_boom(self, cls, kind, n):
        self._ran("boom")
        raise EXC_CLASSES[cls](message([kind, n]))      # the text is built here, on the callee

    def remote_boom_noargs(self, cls):
        self._ran("boom_noargs")
        raise EXC_CLASSES[cls]()

    def remote_unsendable_result(self, depth):
        self._ran("unsendable_result")
        return nest(depth, Unsendable())

    def remote_deep_result(self, depth):          # a result nested deeper than the interpreter's recursion limit
        self._ran("deep_result")
        return nest(depth, 1)

    def remote_text(self):
        self._ran("text")
        return u"text"

    def remote_call(self, x=None, **kw):           # method name and keyword names that are vocabulary words
        self._ran("call")
        return [x, sorted(kw.items())]

    def remote_echo3(self, a, b, c):
        self._ran("echo3")
        return 3


class BadReprPlain(Plain):
    """a target whose __repr__ (hence "%s" % target) raises"""

    def __repr__(self):
        raise RuntimeError("no repr for this target")


class Relay(Referenceable):
    """the middle party B: forwards the call to a third party C and hands C's answer (or failure) back to A"""

    def __init__(self, rr_far):
        self.rr_far = rr_far

    def remote_relay_boom(self, cls, kind, n):
        EXECUTED.append("relay")
        return self.rr_far.callRemote("boom", cls, kind, n)

    def remote_relay_echo(self, x):
        EXECUTED.append("relay")
        return self.rr_far.callRemote("echo", x)


class Thing(Referenceable):
    """lives in a third Tub; a reference to it passed to B is a gift"""


from zope.interface import implementer


@implementer(RIThing)
class Typed(Referenceable):
    def remote_ints(self, a):
        EXECUTED.append("ints")
        return len(a)

    def remote_nested(self, a):
        EXECUTED.append("nested")
        return len(a)

    def remote_wrongresult(self, a):
        EXECUTED.append("wrongresult")
        return "not an int"

    def remote_tboom(self, a):
        EXECUTED.append("tboom")
        raise MyError(message(["vocab", a]))

    def remote_multi(self, a, b, c):
        EXECUTED.append("multi")
        return len(a) + len(b) + len(c)


@implementer(RIShapes)
class Shapes(Referenceable):
    """one method per entry of CHOICE_SHAPES; the caller does not know the interface"""


def _choice_remote(self, a):
    EXECUTED.append("choice")
    return 1


for _i in range(len(CHOICE_SHAPES)):
    setattr(Shapes, "remote_c%d" % _i, _choice_remote)


def nest(depth, leaf, sibling=None):
    x = leaf
    for i in range(depth):
        x = [i, x] if sibling is None else [i, x, sibling]
    return x


# ------------------------------------------------------------------ message texts
def message(spec):
    """spec = [kind, n] -> str"""
    kind, n = spec
    if kind == "ascii":
        return ("abcdefghij" * (n // 10 + 1))[:n]
    if kind == "latin":          # 2 bytes per character
        return u"é" * n
    if kind == "cjk":            # 3 bytes
        return u"中" * n
    if kind == "astral":         # 4 bytes
        return u"\U0001F600" * n
    if kind == "mixed":
        return (u"aé中\U0001F600" * (n // 4 + 1))[:n]
    if kind == "asciithen":      # ascii prefix so that the cut falls inside a multi-byte character
        return "x" * (n % 4) + u"\U0001F600" * n
    if kind == "nul":
        return "\x00\n\"" * n
    if kind in ("vocab", "vocab+"):   # exactly a word of the negotiated vocabulary table (sent as a VOCAB token) / a near miss
        from foolscap import vocab as _v
        w = _v.INITIAL_VOCAB_TABLES[1]
        return w[n % len(w)].decode("ascii") + ("s" if kind == "vocab+" else "")
    if kind == "surrogate":      # a lone surrogate, as produced by surrogateescape'd file names: not encodable as UTF-8
        return u"ab\udcffcd" * n
    raise ValueError(kind)


# ------------------------------------------------------------------ arguments that share a container (sent as `reference`)
def shared_value(variant):
    """-> the argument of an echo call in which one container occurs more than once"""
    if variant == "twice":
        l = ["list", 1, 2]
        return [l, l]
    if variant == "dictalias":
        l = [1, 2]
        return [l, {"k": l}]
    if variant == "nested":
        l = [7]
        t = ("t", l)
        return [[l], t, t, l]
    if variant == "mixed":
        t = ("tuple", 5, 6)
        l = ["list", 1, 2]
        st = set([3, 4])
        return [t, l, st, t, l]
    raise ValueError(variant)


def shared_ok(variant, got):
    """equal to what was sent AND the sharing is preserved"""
    try:
        if got != shared_value(variant):
            return False
        if variant == "twice":
            return got[0] is got[1]
        if variant == "dictalias":
            return got[0] is got[1]["k"]
        if variant == "nested":
            return got[1] is got[2] and got[0][0] is got[3] and got[1][1] is got[3]
        if variant == "mixed":
            return got[0] is got[3] and got[1] is got[4]
    except Exception:
        return False
    return False


SHARED_VARIANTS = ["twice", "dictalias", "nested", "mixed"]


# ------------------------------------------------------------------ dicts whose keys python3 cannot put in order
DICT_KEY_VARIANTS = ["int-str", "tuple-hetero", "bytes-str", "nan-decimals", "mixed-nan", "tuple-nested", "tuple-int", "str-tuple-str"]


def dict_keys_value(variant):
    """a legal (hashable, serializable) dict argument whose keys.sort() raises: keys of different types, keys of ONE type that
    are not mutually orderable, keys whose comparison raises an ArithmeticError, and combinations"""
    from decimal import Decimal
    if variant == "int-str":
        return {1: 2, 'a': 3}
    if variant == "tuple-hetero":
        return {(1, 'a'): 'x', ('b', 2): 'y'}
    if variant == "bytes-str":
        return {b'k': 1, 'k': 2, b'j': 3}
    if variant == "nan-decimals":
        return {Decimal('NaN'): 1, Decimal('1.5'): 2, Decimal('-3'): 3}
    if variant == "mixed-nan":
        return {Decimal('2'): 1, Decimal('NaN'): 2, 'a': 3, Decimal('1'): 4}
    if variant == "tuple-nested":
        return {(1, (2, 'a')): 1, (1, ('b', 2)): 2}
    if variant == "tuple-int":
        return {(1, 2): 'p', 3: 'q', (0,): 'r'}
    if variant == "str-tuple-str":
        return {'b': 1, ('a', 1): 2, 'a': 3, (1, 'a'): 4}
    raise ValueError(variant)


def canon_dict(v):
    """order- and identity-free form of a nested value (a NaN key is not equal to itself)"""
    if isinstance(v, dict):
        return ["dict"] + sorted([repr(canon_dict(k)), repr(canon_dict(x))] for k, x in v.items())
    if isinstance(v, (list, tuple)):
        return [type(v).__name__] + [canon_dict(x) for x in v]
    return repr(v)


# ------------------------------------------------------------------ one batch
def pair(tubid_target, tubid_caller, vocab=None):
    """two Brokers back to back on loopback transports; the first lives in Tub `tubid_target`.  vocab = index of the
    negotiated initial vocabulary table (every real Tub connection uses 1; the unit tests' Brokers use none)"""
    from foolscap.test.common import Loopback
    from foolscap.referenceable import TubRef
    params = {"initial-vocab-table-index": vocab} if vocab else {}
    tb = broker.Broker(TubRef(tubid_caller), params)      # its peer is the caller
    cb = broker.Broker(TubRef(tubid_target), params)
    t1 = Loopback(); t1.peer = cb; t1.protocol = tb; tb.transport = t1
    t2 = Loopback(); t2.peer = tb; t2.protocol = cb; cb.transport = t2
    tb.connectionMade(); cb.connectionMade()
    return tb, cb


TUB_A, TUB_B, TUB_C = "a" * 32, "b" * 32, "c" * 32


def setup(opts):
    """A (caller) <-> B (callee); B <-> C (B relays calls to C); A <-> C (A holds references into C: gifts for B)"""
    vocab = opts.get("vocab")
    tb, cb = pair(TUB_B, TUB_A, vocab)
    net = None
    gm = opts.get("gift_mode")
    logs = opts.get("logs")         # (caller logLocalFailures, caller logRemoteFailures, callee logLocal.., callee logRemote..)
    if logs is not None:
        from foolscap.api import Tub
        for b, (ll, lr), i in ((cb, logs[0:2], 1), (tb, logs[2:4], 0)):
            t = Tub(certData=E.pem(i))
            t.setOption("logLocalFailures", bool(ll))
            t.setOption("logRemoteFailures", bool(lr))
            b.setTub(t)
    if gm:
        # gifts need a Tub on the receiving side: one that refuses them, or one that cannot reach the third party
        from foolscap.api import Tub
        if gm == "refuse":
            tub = Tub(certData=E.pem(0))
            tub.setOption("accept-gifts", False)
        else:
            net = E.Net()
            tub = E.make_tub(net, "b", E.pem(0))
        if logs is not None:
            tub.setOption("logLocalFailures", bool(logs[2]))
            tub.setOption("logRemoteFailures", bool(logs[3]))
        tb.setTub(tub)
    for b in (tb, cb):
        b.unsafeTracebacks = bool(opts.get("unsafe", True))
        b._expose_remote_exception_types = bool(opts.get("expose", True))
    plain, typed = Plain(), Typed()

    def export(holder, user, target, iname=None, url=None):
        tr = holder.getTrackerForMyReference(target.processUniqueID(), target)
        tr.send()
        return user.getTrackerForYourReference(tr.clid, iname, url).getRef()
    rr_plain = export(tb, cb, plain)
    badrepr = BadReprPlain()
    rr_badrepr = export(tb, cb, badrepr)
    rr_typed = export(tb, cb, typed)     # the caller does not know the interface: only the callee checks
    typed2 = Typed()
    rr_typed_known = export(tb, cb, typed2, RIThing.__remote_name__)   # here the caller knows it too
    rr_bogus = cb.getTrackerForYourReference(9999, None).getRef()
    shapes = Shapes()
    rr_shapes = export(tb, cb, shapes)   # the caller does not know the interface (a peer that does not pre-check)
    # B -> C
    c_b, b_c = pair(TUB_C, TUB_B, vocab)
    c_b.unsafeTracebacks = b_c.unsafeTracebacks = bool(opts.get("unsafe", True))
    b_c._expose_remote_exception_types = bool(opts.get("middle_expose", True))
    far = Plain()
    far.log = FAR_EXECUTED
    relay = Relay(export(c_b, b_c, far))
    rr_relay = export(tb, cb, relay)
    # A -> C
    c_a, a_c = pair(TUB_C, TUB_A, vocab)
    thing = Thing()
    hint = "tcp:c.example.org:1234" if gm != "unresolvable" else "fake:nosuch:1"
    rr_thing = export(c_a, a_c, thing, url="pb://%s@%s/thing" % (TUB_C, hint))
    rrs = dict(plain=rr_plain, badrepr=rr_badrepr, typed=rr_typed, typed_known=rr_typed_known, bogus=rr_bogus, relay=rr_relay, thing=rr_thing, shapes=rr_shapes)
    keep = (shapes, plain, typed, typed2, far, relay, thing, badrepr, c_b, b_c, c_a, a_c, net)
    return tb, cb, rrs, keep


CALLER_SIDE = ("unsendable", "slicer-raises", "surrogate")     # the caller's own serializer gives up at this argument
CALLEE_SIDE = ("illtyped", "illtyped-deep")                    # only the callee's schema objects (the caller sends it)
SLOT_KINDS = ("ok",) + CALLEE_SIDE + CALLER_SIDE


def slot_value(kind, i):
    """the i-th argument of a `multi` call"""
    if kind == "ok":
        return [i, i + 1]
    if kind == "illtyped":
        return [i, "x", i]
    if kind == "illtyped-deep":
        return [i, [[i]], i]
    if kind == "unsendable":
        return [i, Unsendable()]
    if kind == "slicer-raises":
        return [i, RaisingSlicer(1)]
    if kind in ("vocab", "vocab+"):   # exactly a word of the negotiated vocabulary table (sent as a VOCAB token) / a near miss
        from foolscap import vocab as _v
        w = _v.INITIAL_VOCAB_TABLES[1]
        return w[n % len(w)].decode("ascii") + ("s" if kind == "vocab+" else "")
    if kind == "surrogate":
        return [i, u"ab\udcffcd"]
    raise ValueError(kind)


def multi_args(spec):
    return [slot_value(k, i) for i, k in enumerate(spec["slots"])]


def vocab_value(spec):
    w = message(["vocab", spec["i"]])
    return {"bytes": w.encode("ascii"), "str": w, "key": {w.encode("ascii"): 1, w: [w.encode("ascii")]},
            "list": [w.encode("ascii"), w, w.encode("ascii")]}[spec["as"]]


class _OneWay:
    """stands for a RemoteReference; every callRemote is issued as callRemoteOnly (request id 0: nobody waits for an answer)"""

    def __init__(self, rr):
        self.rr = rr

    def callRemote(self, name, *a, **kw):
        got = self.rr.callRemoteOnly(name, *a, **kw)
        if got is not None:
            raise AssertionError("callRemoteOnly returned %r" % (got,))
        return None


ONE_WAY_TARGETS = ("plain", "badrepr", "typed", "typed_known", "bogus", "relay", "shapes")


def issue(rrs, spec):
    """spec: dict(kind=..., ...) -> Deferred (None for a one-way call)"""
    k = spec["kind"]
    if k == "only":                 # the same call, fault and all, as a fire-and-forget callRemoteOnly
        o = dict(rrs)
        for name in ONE_WAY_TARGETS:
            o[name] = _OneWay(rrs[name])
        issue(o, spec["inner"])
        return None
    if k == "multi":
        # several faults in ONE call: each of the three arguments may be fine, rejected by the callee's schema only, or
        # unserializable on the caller; the method may be unknown to the callee's interface; on the schema-less target
        # only the caller-side faults count
        a = multi_args(spec)
        if spec["target"] == "plain":
            return rrs["plain"].callRemote("echo3", a[0], a[1], c=a[2])
        return rrs["typed"].callRemote("multi" if spec.get("known", True) else "nosuchmulti", a[0], b=a[1], c=a[2])
    if k == "ok":
        return rrs["plain"].callRemote("echo", spec["v"])
    if k == "ok-vocab":             # fault-free values that are vocabulary words, wherever a string token goes
        return rrs["plain"].callRemote("echo", vocab_value(spec))
    if k == "vocab-method":
        return rrs["plain"].callRemote("call", x=spec["i"], **{message(["vocab", spec["i"]]).replace("-", "_"): 1})
    if k == "typed-ok":             # the caller knows the RemoteInterface
        return rrs["typed_known"].callRemote("ints", [1, 2, 3])
    if k == "typed-raise":          # a target WITH a RemoteInterface raises; known=False: the caller does not know the interface
        return rrs["typed_known" if spec.get("known", True) else "typed"].callRemote("tboom", spec["i"])
    if k == "relay":                # A calls B, B calls C, C raises: what does A get?
        return rrs["relay"].callRemote("relay_boom", spec["cls"], spec["msg"][0], spec["msg"][1])
    if k == "relay-ok":
        return rrs["relay"].callRemote("relay_echo", spec["v"])
    if k == "gift":                 # an argument whose resolution on the callee fails asynchronously (ready_deferred errbacks)
        return rrs["plain"].callRemote("echo", nest(spec["depth"], rrs["thing"]))
    if k == "ok-add":
        return rrs["plain"].callRemote("add", spec["v"], b=1)
    if k == "shared":               # fault-free, but one container occurs several times in the argument
        return rrs["plain"].callRemote("echo", shared_value(spec["variant"]))
    if k == "unserializable":       # unsendable object at nesting depth d inside the argument
        return rrs["plain"].callRemote("echo", nest(spec["depth"], Unsendable(), spec.get("sibling")))
    if k == "slicer-raises":        # Violation raised from next() of a slicer at depth d, after n tokens
        return rrs["plain"].callRemote("echo", nest(spec["depth"], RaisingSlicer(spec["n"])))
    if k == "illtyped":             # callee's RemoteInterface rejects a token at depth d
        bad = {0: "notalist", 1: [1, "x", 3], 2: [[1], "x"], 3: [[[1]], [["x"]], [[2]]]}[spec["depth"]]
        meth = "ints" if spec["depth"] <= 1 else "nested"
        if spec["depth"] == 2:
            bad = [[[1]], "x"]
        return rrs["typed"].callRemote(meth, bad)
    if k in ("illtyped-choice", "choice-ok"):
        # a primitive token none (illtyped-choice) / one (choice-ok) of the alternatives of the callee's ChoiceOf accepts
        return rrs["shapes"].callRemote("c%d" % CHOICE_INDEX[spec["shape"]], choice_arg(spec))
    if k == "result-choice":        # the same on the caller: the RESULT is governed by the ChoiceOf, the callee sends what it likes
        return rrs["plain"].callRemote("echo", choice_arg(spec), _resultConstraint=choice_constraint(spec["shape"]))
    if k == "mixed-keys":
        return rrs["plain"].callRemote("echo", {1: 2, 'a': 3})
    if k == "dict-keys":            # keys that cannot be ordered, at nesting depth d; echo sends the dict back: both directions
        return rrs["plain"].callRemote("echo", nest(spec["depth"], dict_keys_value(spec["variant"])))
    if k == "arg-surrogate":        # a str that UTF-8 cannot encode, at nesting depth d
        return rrs["plain"].callRemote("echo", nest(spec["depth"], u"ab\udcffcd"))
    if k == "arg-deep":             # a list nested deeper than the interpreter's recursion limit
        return rrs["plain"].callRemote("echo", nest(spec["depth"], 1))
    if k == "raise-badrepr":        # the method raises on a target that cannot be formatted with %s
        return rrs["badrepr"].callRemote("boom", spec["cls"], spec["msg"][0], spec["msg"][1])
    if k == "ok-badrepr":
        return rrs["badrepr"].callRemote("echo", spec["v"])
    if k == "raise":
        return rrs["plain"].callRemote("boom", spec["cls"], spec["msg"][0], spec["msg"][1])
    if k == "raise-noargs":
        return rrs["plain"].callRemote("boom_noargs", spec["cls"])
    if k == "unknown-method":
        return rrs["plain"].callRemote("nosuchmethod", 1)
    if k == "unknown-method-typed":
        if spec.get("nested"):      # rejected by the far end while OPENs of its arguments are still to come
            return rrs["typed"].callRemote("nosuchmethod", ["one list", ["nested"]], {"k": ("v", [1, 2])})
        return rrs["typed"].callRemote("nosuchmethod", 1)
    if k == "unknown-object":
        return rrs["bogus"].callRemote("echo", 1)
    if k == "result-violates-callee":
        return rrs["typed"].callRemote("wrongresult", 1)
    if k == "result-violates-caller":
        return rrs["plain"].callRemote("text", _resultConstraint=int)
    if k == "result-unsendable":
        return rrs["plain"].callRemote("unsendable_result", spec["depth"])
    if k == "result-deep":
        return rrs["plain"].callRemote("deep_result", spec["depth"])
    if k == "wrong-arity":
        return rrs["plain"].callRemote("echo", 1, 2, 3)
    raise ValueError(k)


def describe(res, expose):
    """canonical, address-free description of what one callRemote Deferred delivered"""
    if not isinstance(res, failure.Failure):
        return dict(ok=True, value=res)
    f = res
    out = dict(ok=False, wrapped=False)
    # a local RemoteException wrapper is an INSTANCE; a CopiedFailure of a remote RemoteException only answers check()
    if isinstance(f.value, RemoteException) and isinstance(getattr(f.value, "failure", None), failure.Failure):
        out["wrapped"] = True
        f = f.value.failure
    out["copied"] = isinstance(f, call.CopiedFailure)
    if out["copied"]:
        out["type"] = reflect.qual(f.type)
        # every way the application can look at "which exception was it"
        out["type_views"] = dict(module=getattr(f.type, "__module__", None), name=getattr(f.type, "__name__", None),
                                 repr=repr(f.type),
                                 reforwarded=six_str(call.CopiedFailureSlicer(f).getStateToCopy(f, FakeBroker(False))["type"]))
        out["value"] = f.value
        out["parents"] = list(f.parents)
        out["traceback"] = f.traceback
    else:
        out["type"] = reflect.qual(f.type)
        out["value"] = str(f.value)
        out["parents"] = list(f.parents)
        out["traceback"] = None
    out["failure"] = f
    return out


def six_str(b):
    return b.decode("utf-8") if isinstance(b, bytes) else b


class Tap:
    """records the bytes a broker writes"""

    def __init__(self, b):
        self.data = []
        tr = b.transport
        orig = tr.write

        def write(d, orig=orig):
            self.data.append(bytes(d))
            return orig(d)
        tr.write = write

    def bytes(self):
        return b"".join(self.data)



def token_length(buf):
    """length in bytes of the first complete Banana token of buf, or None"""
    hdr, shift, i, n = 0, 0, 0, len(buf)
    while i < n and buf[i] < 0x80:
        hdr |= buf[i] << shift
        shift += 7
        i += 1
    if i >= n:
        return None
    b = buf[i]
    i += 1
    if b in (0x82, 0x85, 0x86, 0x8D):
        i += hdr
    elif b == 0x84:
        i += 8
    return i if i <= n else None


class RecvTrace:
    """hands a Broker its input one whole token at a time (C07: chunking is irrelevant) and records after every token what
    Banana.handleData's bookkeeping says: kind (0 OPEN/1 CLOSE/2 ABORT/3 other), number, handleViolation was called,
    objectCounter, nesting = discardCount + len(receiveStack) - 1 + inOpen, discarding = discardCount > 0"""

    def __init__(self, b):
        self.b = b
        self.buf = b""
        import array
        self.rows = array.array("q")      # one packed integer per token (invisible to the garbage collector: thorough runs keep
        self.overflow = False             # millions of them): objectCounter 12 bits | nesting 8 | discarding 1 | number 12 | violation 1 | kind 2
        self.c0 = b.objectCounter
        self.viol = 0
        orig_dr, orig_hv = b.dataReceived, b.handleViolation

        def hv(*a, **k):
            self.viol += 1
            return orig_hv(*a, **k)
        b.handleViolation = hv

        def dr(data):
            self.buf += bytes(data)
            while True:
                n = token_length(self.buf)
                if n is None:
                    break
                tok, self.buf = self.buf[:n], self.buf[n:]
                self.viol = 0
                orig_dr(tok)
                t = tokenize(tok)[0]
                kind = {"OPEN": 0, "CLOSE": 1, "ABORT": 2}.get(t[0], 3)
                num, oc, dc = (t[1] if kind < 3 else 0), b.objectCounter, b.discardCount
                depth = dc + len(b.receiveStack) - 1 + (1 if b.inOpen else 0)
                if num >= 4096 or oc >= 4096 or not 0 <= depth < 256:
                    self.overflow = True
                    continue
                self.rows.append(((((oc << 8 | depth) << 1 | (1 if dc else 0)) << 12 | num) << 3) | (4 if self.viol else 0) | kind)
        b.dataReceived = dr


_RV_HOOKS = {}       # id(broker) -> callback(unslicer, failure): CallUnslicer.reportViolation as it is entered
_orig_report_violation = call.CallUnslicer.reportViolation


def _traced_report_violation(self, f):
    h = _RV_HOOKS.get(id(self.broker))
    if h is not None:
        h(self, f)
    return _orig_report_violation(self, f)


call.CallUnslicer.reportViolation = _traced_report_violation


class DeliveryLog:
    """the callee's side of every inbound call as it really ran.
    queue / handled: arrival order with the outcome of each ready_deferred (Broker.scheduleCall) and what was done with each
    delivery (Broker._doCall ran it / Broker.callFailed answered with an error without running it).
    inbound: one record per `call` sequence whose request id became known, in arrival order: rejected by the CallUnslicer
    (reportViolation; abort = it was the caller's ABORT) or delivered, with everything the model takes as a parameter of the
    delivery observed on the real objects (schema present, readiness, _doCall raised / its Deferred failed, checkResults raised,
    the answer's objectSentDeferred failed, formatting the target raises, str() of the exception raises, local-failure log on).
    history: the same records in the order in which the callee CONCLUDED the calls -- a rejected call the moment
    CallUnslicer.reportViolation runs (while the call is being parsed: its `error` is handed to send() at once), a delivery the
    moment its chain reaches Broker._callFinished or Broker.callFailed (a later turn: after the deliveries queued before it,
    after a stall on a gift, after the method's Deferred fired); deliveries never concluded come last, in arrival order.  This
    is the order of the reply events, the list lib/Callee.v's handle_all folds over (arrival order is not: a call rejected
    after three deliveries arrived is answered before any of them runs).
    sent: every AnswerSlicer / ErrorSlicer handed to Broker.send, in order."""

    def __init__(self, b):
        self.queue = []
        self.handled = []
        self.inbound = []
        self.sent = []
        self.b = b
        seq = [0]           # event counter: when was each call concluded?

        def concluded(rec):
            if rec is not None and rec.get("t") is None:
                seq[0] += 1
                rec["t"] = seq[0]
        byreq = {}          # request id -> record (for the answers / errors handed to send(): never id 0)
        bydel = {}          # id(delivery) -> record: one-way calls all share request id 0
        alive = []          # (keeps the deliveries alive, so that their ids stay distinct)
        ran = set()
        orig_s, orig_d, orig_f, orig_fin, orig_send = b.scheduleCall, b._doCall, b.callFailed, b._callFinished, b.send

        def log_local():
            return bool((b.tub and b.tub.logLocalFailures) or not b.tub)

        def nameable(f):
            """can FailureSlicer name the class of this failure?  (what lib/Failure.v calls nameable: reflect.qual(f.type) and
            f.parents both return) -- observed on the failure itself, before anything is sent"""
            try:
                reflect.qual(f.type)
                list(f.parents)
                return True
            except Exception:
                return False

        def rejected(u, f):
            if u.stage > 0:
                abort = bool(f.value.args and f.value.args[0] == "ABORT received")
                rec = dict(kind="rejected", reqid=u.reqID, abort=abort, log_local=log_local(), nameable=nameable(f), t=None)
                concluded(rec)
                self.inbound.append(rec)
        _RV_HOOKS.clear()
        _RV_HOOKS[id(b)] = rejected

        def sched(delivery, rd):
            ent = [delivery.reqID, 0]
            self.queue.append(ent)
            try:
                "%s %s %s" % (delivery.obj, delivery.allargs.args, delivery.allargs.kwargs)
                repr_raises = False
            except Exception:
                repr_raises = True
            rec = dict(kind="delivered", reqid=delivery.reqID, schema=bool(delivery.methodSchema), ready=True, raises=False,
                       result_ok=True, answer=0, repr_raises=repr_raises, render_raises=False, log_local=log_local(), nameable=True,
                       t=None)
            byreq[delivery.reqID] = rec
            bydel[id(delivery)] = rec
            alive.append(delivery)
            self.inbound.append(rec)
            if rd is not None:
                def mark(r, ent=ent, rec=rec):
                    if isinstance(r, failure.Failure):
                        ent[1] = 1
                        rec["ready"] = False
                    return r
                rd.addBoth(mark)
            return orig_s(delivery, rd)

        def do(delivery):
            ran.add(id(delivery))
            self.handled.append((0, delivery.reqID))
            rec = bydel.get(id(delivery))
            try:
                res = orig_d(delivery)
            except BaseException:
                if rec:
                    rec["raises"] = True
                raise
            from twisted.internet import defer as _defer
            if isinstance(res, _defer.Deferred) and rec:
                def mark(r, rec=rec):
                    if isinstance(r, failure.Failure):
                        rec["raises"] = True
                    return r
                res.addBoth(mark)
            return res

        def fin(res, delivery):
            rec = bydel.get(id(delivery))
            concluded(rec)
            try:
                return orig_fin(res, delivery)
            except Violation:
                if rec:
                    rec["result_ok"] = False
                raise

        def failed(f, reqID, delivery=None):
            if delivery is not None and id(delivery) not in ran:
                self.handled.append((1, reqID))
            rec = bydel.get(id(delivery)) if delivery is not None else byreq.get(reqID)
            if delivery is not None:
                concluded(rec)
            if rec is not None:
                try:
                    str(f.value)
                except Exception:
                    rec["render_raises"] = True
                if rec.get("kind") == "delivered":
                    rec["nameable"] = nameable(f)
            return orig_f(f, reqID, delivery)

        # a non-Violation exception inside produce ends in Banana.sendFailed (connection dropped): which message was being written?
        self.sent_after_crash = []
        self.crashes = []       # [kind (0 answer / 2 error / None: outside any answer or error), reqID]
        cur = []
        orig_sf = b.sendFailed

        def send_failed(f):
            self.crashes.append(list(cur[-1]) if cur else [None, None])
            return orig_sf(f)
        b.sendFailed = send_failed

        def send(obj):
            mine = isinstance(obj, (call.AnswerSlicer, call.ErrorSlicer))
            n0 = len(self.crashes)
            if mine:
                cur.append((0 if isinstance(obj, call.AnswerSlicer) else 2, obj.reqID))
            try:
                d = orig_send(obj)
            finally:
                if mine:
                    cur.pop()
            if mine and len(self.crashes) > n0:
                # this message was never written: the model's SCrash (answer) / unnameable exception class (error)
                rec = byreq.get(obj.reqID)
                if rec is not None and isinstance(obj, call.AnswerSlicer):
                    rec["answer"] = 2
                return d
            if mine:
                ent = [0 if isinstance(obj, call.AnswerSlicer) else 2, obj.reqID]
                # (after a crash the connection is gone: what is still handed to send() never reaches the wire)
                (self.sent_after_crash if self.crashes else self.sent).append(ent)
                if ent[0] == 0:
                    def aborted(f, ent=ent, rec=byreq.get(obj.reqID)):
                        ent[0] = 1
                        if rec:
                            rec["answer"] = 1
                        return None
                    d.addErrback(aborted)
            return d
        b.scheduleCall, b._doCall, b.callFailed, b._callFinished, b.send = sched, do, failed, fin, send

    def summary(self):
        n = len(self.inbound)
        order = sorted(range(n), key=lambda i: (self.inbound[i]["t"] is None, self.inbound[i]["t"] or 0, i))
        return dict(queue=[tuple(x) for x in self.queue], handled=list(self.handled), inbound=[dict(x) for x in self.inbound],
                    history=[dict(self.inbound[i]) for i in order],
                    sent=[tuple(x) for x in self.sent], active=sorted(self.b.activeLocalCalls.keys()),
                    crashes=[list(x) for x in self.crashes], sent_after_crash=[tuple(x) for x in self.sent_after_crash])


def run_batch(specs, opts):
    """issue all calls of `specs` back to back (before any byte is delivered: the eventual-send queue holds the
    loopback writes), then let everything settle, then one more call.  -> dict(results, later, disconnected, ...)"""
    # The cyclic garbage collector must not run while a batch is driven: task.Clock.callLater sorts its list of calls
    # with a Python key function, a collection triggered inside that sort can finalize RemoteReferences of an earlier
    # batch, whose trackers call eventually() -> Clock.callLater -> "ValueError: list modified during sort" inside whatever
    # foolscap code happened to call eventually().  (An artefact of the virtual clock, not of foolscap: a real reactor
    # keeps a heap.)  Collect between batches instead, before the clock and the eventual queue are reset.
    gc.collect()
    gc.disable()
    try:
        return _run_batch(specs, opts)
    finally:
        gc.enable()


def _run_batch(specs, opts):
    E.reset_clock()
    del EXECUTED[:]
    del FAR_EXECUTED[:]
    n_err0 = len(E.logged_errors)
    tb, cb, rrs, targets = setup(opts)
    E.turn()
    tap_c, tap_t = Tap(cb), Tap(tb)
    rt_callee, rt_caller, dlog = RecvTrace(tb), RecvTrace(cb), DeliveryLog(tb)
    open0 = cb.openCount
    topen0 = tb.openCount
    results = [None] * len(specs)
    fired = [0] * len(specs)
    escaped = None
    for i, s in enumerate(specs):
        def got(r, i=i):
            results[i] = r
            fired[i] += 1
        try:
            d = issue(rrs, s)
            if d is not None:       # (a one-way call has no Deferred: nothing ever fires)
                d.addBoth(got)
        except Exception as e:   # callRemote itself must not raise
            escaped = "callRemote raised %r" % (e,)
    try:
        E.turn()
        net = targets[-1]      # (the in-memory network of the callee's Tub, when it has one)
        if net is not None:         # let the callee's Tub try (and fail) to reach the third party, in virtual time
            for i in range(4):
                net.run()
                E.turn()
                if all(fired):
                    break
                E.clock.advance(130)
                E.turn()
    except Exception as e:
        escaped = "exception escaped the event loop: %r" % (e,)
    later = []
    try:
        rrs["plain"].callRemote("add", 40, b=2).addBoth(later.append)
        rrs["plain"].callRemote("echo", shared_value(opts.get("later_shared", "mixed"))).addBoth(later.append)
        E.turn()
    except Exception as e:
        escaped = "later call raised %r" % (e,)
    out = dict(results=[describe(r, opts.get("expose", True)) if f else None for r, f in zip(results, fired)],
               fired=fired, later=[describe(r, True) for r in later],
               disconnected=(bool(cb.disconnected), bool(tb.disconnected)),
               caller_bytes=tap_c.bytes(), callee_bytes=tap_t.bytes(), open0=open0, topen0=topen0,
               counters=dict(caller_sent=cb.openCount, callee_seen=tb.objectCounter, callee_sent=tb.openCount, caller_seen=cb.objectCounter),
               executed=list(EXECUTED), far_executed=list(FAR_EXECUTED), waiting=len(cb.waitingForAnswers), active_local=len(tb.activeLocalCalls), escaped=escaped,
               logged=len(E.logged_errors) - n_err0,
               recv_trace=dict(callee=(rt_callee.c0, rt_callee.rows, rt_callee.overflow), caller=(rt_caller.c0, rt_caller.rows, rt_caller.overflow)),
               deliveries=dlog.summary())
    return out


# ------------------------------------------------------------------ a small banana tokenizer (for the taps)
def tokenize(data):
    """bytes -> list of ("OPEN", n) / ("CLOSE", n) / ("ABORT", n) / ("T",) ; other control tokens keep their name"""
    out = []
    i = 0
    hdr = 0
    shift = 0
    n = len(data)
    while i < n:
        b = data[i]
        i += 1
        if b < 0x80:
            hdr |= b << shift
            shift += 7
            continue
        if b == 0x88:
            out.append(("OPEN", hdr))
        elif b == 0x89:
            out.append(("CLOSE", hdr))
        elif b == 0x8A:
            out.append(("ABORT", hdr))
        elif b in (0x82, 0x85, 0x86, 0x8D):     # STRING, LONGINT, LONGNEG, ERROR: body of hdr bytes
            i += hdr
            out.append(("T",))
        elif b == 0x84:                        # FLOAT: 8 bytes
            i += 8
            out.append(("T",))
        elif b in (0x81, 0x83, 0x87):          # INT NEG VOCAB
            out.append(("T",))
        elif b in (0x8E, 0x8F):
            out.append(("PINGPONG",))
        else:
            out.append(("?", b))
        hdr = 0
        shift = 0
    return out


def tokenize_full(data):
    """like tokenize, but STRING tokens keep their body: ("S", bytes), INT ("I", n)"""
    out = []
    i = 0
    hdr = 0
    shift = 0
    n = len(data)
    while i < n:
        b = data[i]
        i += 1
        if b < 0x80:
            hdr |= b << shift
            shift += 7
            continue
        if b == 0x88:
            out.append(("OPEN", hdr))
        elif b == 0x89:
            out.append(("CLOSE", hdr))
        elif b == 0x8A:
            out.append(("ABORT", hdr))
        elif b == 0x82:
            out.append(("S", data[i:i + hdr]))
            i += hdr
        elif b in (0x85, 0x86, 0x8D):
            i += hdr
            out.append(("T",))
        elif b == 0x84:
            i += 8
            out.append(("T",))
        elif b == 0x81:
            out.append(("I", hdr))
        elif b == 0x87:
            out.append(("V", hdr))
        else:
            out.append(("T",))
        hdr = 0
        shift = 0
    return out


def split_top(toks):
    """token list -> list of top-level objects (each the list of its tokens), by nesting depth"""
    objs, cur, depth = [], [], 0
    for t in toks:
        cur.append(t)
        if t[0] == "OPEN":
            depth += 1
        elif t[0] == "CLOSE":
            depth -= 1
            if depth == 0:
                objs.append(cur)
                cur = []
    return objs, cur


# ------------------------------------------------------------------ direct use of FailureSlicer (field-level tie)
class FakeBroker:
    def __init__(self, unsafe):
        self.unsafeTracebacks = unsafe


def failure_state(cls, msg, unsafe, parents=None, tb_text=None):
    """getStateToCopy of the real FailureSlicer on a real Failure; optionally with a substituted parents list /
    traceback text (to reach lengths that real class hierarchies do not reach).
    -> (state or the exception class name it raised, inputs) where inputs = what getStateToCopy reads from the Failure"""
    try:
        raise cls(msg)
    except Exception:
        f = failure.Failure()
    if parents is not None:
        f.parents = list(parents)
    if tb_text is not None:
        f.getTraceback = lambda *a, **k: tb_text
    try:
        text = ("ok", str(f.value))
    except Exception as e:
        text = ("raises", type(e).__name__)
    # what getStateToCopy reads about the CLASS may raise: ("ok", text) / ("raises", exception class name)
    try:
        tname = ("ok", reflect.qual(f.type))
    except Exception as e:
        tname = ("raises", type(e).__name__)
    try:
        pnames = ("ok", list(f.parents))
    except Exception as e:
        pnames = ("raises", type(e).__name__)
    try:
        stack = f.getTraceback() if unsafe else ""
    except Exception:
        # (twisted's printTraceback calls reflect.qual(self.type) itself: raises only when tname does, which getStateToCopy meets first)
        assert tname[0] == "raises"
        stack = ""
    inputs = dict(type=tname[1] if tname[0] == "ok" else None, type_res=tname, str=text, fallback=reflect.safe_str(f.value),
                  stack=stack, parents=pnames[1] if pnames[0] == "ok" else None, parents_res=pnames)
    try:
        st = call.FailureSlicer(f).getStateToCopy(f, FakeBroker(unsafe))
    except Exception as e:
        st = type(e).__name__
    return st, inputs


# ------------------------------------------------------------------ direct use of the caller-side delivery code
class _Req:
    def __init__(self):
        self.got = []

    def fail(self, f):
        self.got.append(f)


class _B:
    def __init__(self, expose):
        self._expose_remote_exception_types = expose


def real_deliver(state, expose, probes):
    """ErrorUnslicer.receiveClose on a CopiedFailure built from `state` (bytes fields) -> (wrapped, fields intact,
    qual(f.type) of what the request got, [f.check(name) for name in probes])"""
    cf = call.CopiedFailure()
    cf.setCopyableState(dict(state))
    u = call.ErrorUnslicer()
    u.broker = _B(expose)
    u.request = _Req()
    u.failure = cf
    u.gotFailure = True
    u.receiveClose()
    (f,) = u.request.got
    wrapped = isinstance(f.value, RemoteException) and getattr(f.value, "failure", None) is cf
    intact = (cf.value == six_str(state["value"]) and cf.traceback == six_str(state["traceback"])
              and cf.parents == [six_str(p) for p in state["parents"]] and (wrapped or f is cf))
    return wrapped, intact, reflect.qual(f.type), [f.check(n) is not None for n in probes]


class _Tub:
    def __init__(self, lr):
        self.logRemoteFailures = lr
        self.logLocalFailures = False

    def getShortTubID(self):
        return "tubid"


class _TR:
    def getShortTubID(self):
        return "their"


class _B2:
    def __init__(self, tub):
        self.tub = tub
        self.remote_tubref = _TR()
        self.removed = 0

    def removeRequest(self, req):
        self.removed += 1


def real_fail(log_remote_failures, known, active, with_tub=True):
    """PendingRequest.fail on a request of a target with / without RemoteInterface -> (raised, active afterwards, times fired)"""
    req = call.PendingRequest(7, None, "RIFoo" if known else None, "meth")
    req.interfaceName = "RIFoo" if known else None       # (as RemoteReference._callRemote sets them)
    req.methodName = "meth"
    req.broker = _B2(_Tub(log_remote_failures) if with_tub else None)
    fired = []
    req.deferred.addErrback(lambda f: fired.append(1))
    req.active = active
    raised = False
    try:
        req.fail(failure.Failure(ValueError("x")))
    except Exception:
        raised = True
    return raised, bool(req.active), len(fired)


def real_requal(name):
    cf = call.CopiedFailure()
    cf.setCopyableState(dict(type=name.encode("utf-8"), value=b"", traceback=b"", parents=[]))
    return reflect.qual(cf.type)


def real_relay(state, unsafe):
    """what a middle party sends on for a CopiedFailure it received: CopiedFailureSlicer.getStateToCopy -> state dict (bytes) or
    the name of the exception it raised"""
    cf = call.CopiedFailure()
    cf.setCopyableState(dict(state))
    try:
        return call.CopiedFailureSlicer(cf).getStateToCopy(cf, FakeBroker(unsafe))
    except Exception as e:
        return type(e).__name__
